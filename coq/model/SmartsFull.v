(* C08 -- the whole of smarts() for a string without white space (no CXSMARTS part): smarts_tokenize, parser(tokens, False)
   (Model.Parser), the query atoms  try: e(kwargs) except TypeError  with their stereo marks, g.add_atom (duplicate explicit
   atom numbers), the cis/trans flag taken from the direction marks next to a bond, QueryContainer.add_bond (QueryBond of an
   int / a list, loops, repeated bonds).  Atom numbering is not part of the result: atoms are named by their position.
   Domain: explicit atom numbers below 10^9 (the range reserved for masked atoms).  Definitions only. *)
From Coq Require Import ZArith List String Ascii Bool.
From Model Require Import PyBase Graph PeriodicTable Tokenize Query Smarts.
From Model Require Parser Reader.
Import ListNotations.
Open Scope Z_scope.

(* token for parser(): the atom dictionary only matters through its 'stereo' entry *)
Definition atom_token (st : option bool) : token := (0, PAtom (mkAt ""%string None None 0 None st)).

Fixpoint split_tokens (ts : list token) : pyres (list token * list Query.parsed) :=
  match ts with
  | [] => Ok ([], [])
  | t :: r =>
      match smarts_token t with
      | Err e => Err e
      | Ok st =>
          match split_tokens r with
          | Err e => Err e
          | Ok (toks, ps) =>
              match st with
              | SAtom p => Ok (atom_token (p_stereo p) :: toks, p :: ps)
              | STok t' => Ok (t' :: toks, ps)
              end
          end
      end
  end.

(* the loop over parsed['atoms']: e(kwargs), then g.add_atom(atom, n) -> MappingError for a repeated explicit number *)
Fixpoint atoms_loop (ps : list Query.parsed) (seen : list Z) : pyres (list (qatom * option bool)) :=
  match ps with
  | [] => Ok []
  | p :: r =>
      match build_atom p with
      | Err e => Err e
      | Ok q =>
          let dup := match p_mapping p with Some k => zmem k seen | None => false end in
          if dup then Err ValueError
          else match atoms_loop r (match p_mapping p with Some k => k :: seen | None => seen end) with
               | Err e => Err e
               | Ok qs => Ok ((q, match q with QMetal _ _ => None | _ => p_stereo p end) :: qs)
               end
      end
  end.

(* dict.popitem(): the last inserted item *)
Definition popitem {V} (d : list (Z * V)) : option (list (Z * V) * V) :=
  match rev d with
  | [] => None
  | (_, v) :: r => Some (rev r, v)
  end.

Record sbond := mkSB { sb_n : Z; sb_m : Z; sb_q : qbond; sb_stereo : option bool }.

(* b == 2 if isinstance(b, int) else 2 in (b if isinstance(b, list) else b.order) *)
Definition can_double (b : payload) : bool :=
  match b with PInt o => o =? 2 | PZs l => zmem 2 l | PQB l _ => zmem 2 l | _ => false end.
(* code after the fixes f821fac and its follow-up:
   if n != m and n in stereo_bonds and m in stereo_bonds and stereo_bonds[n] and stereo_bonds[m] and <possible double bond>:
       if m not in stereo_bonds[n]: popitem from both, stereo = s1 == s2 *)
Definition stereo_of (sb : Parser.sdict) (n m : Z) (b : payload) : pyres (option bool * Parser.sdict) :=
  match zget sb n, zget sb m with
  | Some dn, Some dm0 =>
      if negb (negb (n =? m) && nonempty dn && nonempty dm0 && can_double b) then Ok (None, sb)
      else if zmem m (keys dn) then Ok (None, sb)
      else match popitem dn with
           | None => Err KeyError
           | Some (dn', s1) =>
               let sb1 := Parser.zset sb n dn' in
               match zget sb1 m with
               | None => Err KeyError
               | Some dm => match popitem dm with
                            | None => Err KeyError
                            | Some (dm', s2) => Ok (Some (Bool.eqb s1 s2), Parser.zset sb1 m dm')
                            end
               end
           end
  | _, _ => Ok (None, sb)
  end.

Fixpoint bonds_loop (sb : Parser.sdict) (bs : list (Z * Z * payload)) (seen : list (Z * Z)) : pyres (list sbond) :=
  match bs with
  | [] => Ok []
  | (n, m, b) :: r =>
      match stereo_of sb n m b with
      | Err e => Err e
      | Ok (st, sb') =>
          match qbond_of_payload b with
          | Err e => Err e
          | Ok q =>
              if n =? m then Err ValueError                                            (* atom loops impossible *)
              else if existsb (fun p => ((fst p =? n) && (snd p =? m)) || ((fst p =? m) && (snd p =? n))) seen
                   then Err ValueError                                                 (* atoms already bonded *)
              else match bonds_loop sb' r ((n, m) :: seen) with
                   | Err e => Err e
                   | Ok l => Ok (mkSB n m q st :: l)
                   end
          end
      end
  end.

(* everything after smarts_tokenize: parser(tokens, False), the atom loop, the bond loop *)
Definition full_of_tokens (toks : list token) (ps : list Query.parsed) : pyres (list (qatom * option bool) * list sbond) :=
  match Parser.parse toks false with
  | Err e => Err e
  | Ok pr =>
      match atoms_loop ps [] with
      | Err e => Err e
      | Ok atoms =>
          match bonds_loop (Parser.p_stereo_bonds pr) (Parser.p_bonds pr) [] with
          | Err e => Err e
          | Ok bonds => Ok (atoms, bonds)
          end
      end
  end.

Definition smarts_full (s : string) : pyres (list (qatom * option bool) * list sbond) :=
  if String.eqb s "" then Err ValueError          (* smr, *cx = data.split(): not enough values to unpack *)
  else
  match tokenize_raw s with
  | Err e => Err e
  | Ok ts =>
      match split_tokens ts with
      | Err e => Err e
      | Ok (toks, ps) => full_of_tokens toks ps
      end
  end.

(* ---- CXSMARTS radicals:  smarts(smr + ' ' + cx).  `cx` is the second white-space separated piece of the input, used when it
   starts and ends with '|':  for x in findall(cx_radicals, cx): for i in x[3:].split(','):
       if int(i) >= len(atoms): raise IncorrectSmarts;  atoms[int(i)]['is_radical'] = True
   (the scanner of the pattern is Model.Reader.rad_findall, shared with smiles()) *)
Definition cx_indices (cx : option string) : pyres (list Z) :=
  match cx with
  | None => Ok []
  | Some c =>
      let l := list_ascii_of_string c in
      match l, rev l with
      | "|"%char :: _, "|"%char :: _ => map_res Tokenize.py_int (Reader.rad_findall (S (List.length l)) l)
      | _, _ => Ok []
      end
  end.

Definition is_metal_p (p : Query.parsed) : bool :=
  match p_element p with [ESym s] => str_eqb s ["M"%char] | _ => false end.
Definition set_rad (q : qatom) (r : bool) : qatom :=
  match q with
  | QElem n i x => QElem n i (mkQX (x_chg x) r (x_nb x) (x_hyb x) (x_h x) (x_het x) (x_rings x) (x_rings_set x))
  | QAny x => QAny (mkQX (x_chg x) r (x_nb x) (x_hyb x) (x_h x) (x_het x) (x_rings x) (x_rings_set x))
  | QList l x => QList l (mkQX (x_chg x) r (x_nb x) (x_hyb x) (x_h x) (x_het x) (x_rings x) (x_rings_set x))
  | QMetal a b => QMetal a b
  end.
(* e(kwargs) with is_radical=True among them: AnyMetal does not take it (TypeError -> IncorrectSmarts, before any setter runs) *)
Definition build_atom_rad (p : Query.parsed) (rad : bool) : pyres qatom :=
  if rad && is_metal_p p then Err IncorrectSmarts
  else match build_atom p with Ok q => Ok (if rad then set_rad q true else q) | Err e => Err e end.

Fixpoint atoms_loop_rad (ps : list Query.parsed) (i : Z) (rads : list Z) (seen : list Z) : pyres (list (qatom * option bool)) :=
  match ps with
  | [] => Ok []
  | p :: r =>
      match build_atom_rad p (zmem i rads) with
      | Err e => Err e
      | Ok q =>
          let dup := match p_mapping p with Some k => zmem k seen | None => false end in
          if dup then Err ValueError
          else match atoms_loop_rad r (i + 1) rads (match p_mapping p with Some k => k :: seen | None => seen end) with
               | Err e => Err e
               | Ok qs => Ok ((q, match q with QMetal _ _ => None | _ => p_stereo p end) :: qs)
               end
      end
  end.

Definition smarts_cx (smr : string) (cx : option string) : pyres (list (qatom * option bool) * list sbond) :=
  if String.eqb smr "" then Err ValueError
  else
  match tokenize_raw smr with
  | Err e => Err e
  | Ok ts =>
      match split_tokens ts with
      | Err e => Err e
      | Ok (toks, ps) =>
          match Parser.parse toks false with
          | Err e => Err e
          | Ok pr =>
              match cx_indices cx with
              | Err e => Err e
              | Ok rads =>
                  if existsb (fun i => Z.of_nat (List.length ps) <=? i) rads then Err IncorrectSmarts
                  else
                  match atoms_loop_rad ps 0 rads [] with
                  | Err e => Err e
                  | Ok atoms =>
                      match bonds_loop (Parser.p_stereo_bonds pr) (Parser.p_bonds pr) [] with
                      | Err e => Err e
                      | Ok bonds => Ok (atoms, bonds)
                      end
                  end
              end
          end
      end
  end.

(* ---- QueryContainer.add_atom(atom) normalisation: an Element -> QueryElement.from_atom(atom) (element, isotope, charge, radical
   only), a str -> QueryElement.from_symbol(atom)(), an int -> QueryElement.from_atomic_number(atom)(); a Query object is
   stored as it is *)
Inductive addarg := AElem (a : latom) | ASym (s : str) | ANum (n : Z).
Definition default_qx : qx := mkQX 0 false [] [] [] [] [] false.
Definition add_atom_norm (x : addarg) : pyres qatom :=
  match x with
  | AElem a => Ok (from_atom a false false false false false)
  | ASym s => if str_eqb s ["A"%char] then Ok (QAny default_qx)
              else if str_eqb s ["M"%char] then Ok (QMetal [] [])
              else match sym_number s with Some n => Ok (QElem n None default_qx) | None => Err ValueError end
  | ANum n => if valid_number n then Ok (QElem n None default_qx) else Err ValueError
  end.

(* ---- Query.copy(full): a query atom with its stereo mark and masked flag; both are kept only by a full copy *)
Definition qfull := (qatom * option bool * bool)%type.
Definition qcopy (full : bool) (x : qfull) : qfull :=
  let '(q, st, mk) := x in (q, (if full then match q with QMetal _ _ => None | _ => st end else None), (if full then mk else false)).
(* the atom smarts() builds from a bracket body, with its marks *)
Definition smarts_qfull (body : str) : pyres qfull :=
  match query_parse body with
  | Err e => Err e
  | Ok p => match build_atom p with
            | Err e => Err e
            | Ok q => Ok (q, (match q with QMetal _ _ => None | _ => p_stereo p end), p_masked p)
            end
  end.

(* ---- text form: atoms in order, bonds sorted by their (smaller, larger) atom positions *)
Definition bkey (x : sbond) : Z := Z.min (sb_n x) (sb_m x) * 100000 + Z.max (sb_n x) (sb_m x).
Fixpoint insert_b (x : sbond) (l : list sbond) : list sbond :=
  match l with [] => [x] | y :: r => if bkey x <=? bkey y then x :: l else y :: insert_b x r end.
Definition sort_b (l : list sbond) : list sbond := fold_right insert_b [] l.
Open Scope string_scope.
Definition show_full (r : list (qatom * option bool) * list sbond) : string :=
  String.concat " " (map (fun a => show_qatom (fst a) ++ "/" ++ show_opt show_bool (snd a)) (fst r)) ++ " ; " ++
  String.concat " " (map (fun x => show_z (Z.min (sb_n x) (sb_m x)) ++ "-" ++ show_z (Z.max (sb_n x) (sb_m x)) ++ ":" ++
                                   show_qbond (sb_q x) ++ "/" ++ show_opt show_bool (sb_stereo x)) (sort_b (snd r))).
Definition b_full (inputs : list string) := batch (fun s => show_res show_full (smarts_full s)) inputs.
Definition b_cx (inputs : list (string * option string)) := batch (fun x => show_res show_full (smarts_cx (fst x) (snd x))) inputs.
Definition show_qfull (x : qfull) : string := let '(q, st, mk) := x in show_qatom q ++ "/" ++ show_opt show_bool st ++ "/" ++ show_bool mk.
Definition b_add (inputs : list addarg) := batch (fun x => show_res show_qatom (add_atom_norm x)) inputs.
Definition b_copy (inputs : list string) :=
  batch (fun s => show_res (fun x => show_qfull x ++ " " ++ show_qfull (qcopy false x) ++ " " ++ show_qfull (qcopy true x) ++ " " ++
                                    show_qfull (qcopy false (qcopy true x))) (smarts_qfull (s2l s))) inputs.

(* ---- intermediate state of smarts(): the record parser(smarts_tokenize(text), False) returns - bonds in the order found,
   stereo_atoms, stereo_bonds (insertion order) - in the text form of Model.Parser.show_parsed without the atom dictionaries *)
Definition smarts_parse (s : string) : pyres Parser.parsed :=
  match tokenize_raw s with
  | Err e => Err e
  | Ok ts => match split_tokens ts with
             | Err e => Err e
             | Ok (toks, _) => Parser.parse toks false
             end
  end.
Definition show_parse_state (p : Parser.parsed) : string :=
  Parser.show_list (fun t => let '(a, b, c) := t in "(" ++ show_z a ++ "." ++ show_z b ++ "." ++ show_payload c ++ ")") (Parser.p_bonds p) ++ ";" ++
  Parser.show_list (fun kv => show_z (fst kv) ++ ":" ++ show_bool (snd kv)) (Parser.p_stereo_atoms p) ++ ";" ++
  Parser.show_list (fun kv => show_z (fst kv) ++ ":{" ++ String.concat "." (map (fun mv => show_z (fst mv) ++ ":" ++ show_bool (snd mv)) (snd kv)) ++ "}")
                   (Parser.p_stereo_bonds p) ++ ";" ++ show_z (Z.of_nat (List.length (Parser.p_atoms p))).
Definition b_parse_state (inputs : list string) := batch (fun s => show_res show_parse_state (smarts_parse s)) inputs.

(* ---- atom numbers.  mapping[i] = parsed_mapping or next(global_free_masked if masked else free), where
   free = count(max(parsed_mapping of all atoms, default 0) + 1) and global_free_masked is a process-wide counter that starts at
   10^9 + 1: a masked atom is given by its rank among the masked atoms of this call *)
Inductive anum := NGiven (k : Z) | NMasked (j : Z).
Definition explicit_of (ps : list Query.parsed) : list Z :=
  flat_map (fun p => match p_mapping p with Some k => [k] | None => [] end) ps.
Fixpoint assign_numbers (ps : list Query.parsed) (free masked : Z) : list anum :=
  match ps with
  | [] => []
  | p :: r => match p_mapping p with
              | Some k => NGiven k :: assign_numbers r free masked
              | None => if p_masked p then NMasked masked :: assign_numbers r free (masked + 1)
                        else NGiven free :: assign_numbers r (free + 1) masked
              end
  end.
Definition max_explicit (ps : list Query.parsed) : Z := fold_left Z.max (explicit_of ps) 0.
Definition atom_numbers (ps : list Query.parsed) : list anum := assign_numbers ps (max_explicit ps + 1) 0.
Definition num_value (g0 : Z) (a : anum) : Z := match a with NGiven k => k | NMasked j => g0 + j end.
(* the numbers smarts() gives to the atoms of a text (Ok when the text is tokenized and parsed) *)
Definition smarts_numbers (s : string) : pyres (list anum) :=
  match tokenize_raw s with
  | Err e => Err e
  | Ok ts => match split_tokens ts with Err e => Err e | Ok (_, ps) => Ok (atom_numbers ps) end
  end.
Definition show_anum (a : anum) : string := match a with NGiven k => show_z k | NMasked j => "m" ++ show_z j end.
Definition b_numbers (inputs : list string) :=
  batch (fun s => show_res (fun l => String.concat "," (map show_anum l)) (match smarts_full s with Ok _ => smarts_numbers s | Err e => Err e end)) inputs.
