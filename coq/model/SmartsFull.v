(* C08 -- the whole of smarts() for a string without white space (no CXSMARTS part): smarts_tokenize, parser(tokens, False)
   (Model.Parser), the query atoms  try: e(kwargs) except TypeError  with their stereo marks, g.add_atom (duplicate explicit
   atom numbers), the cis/trans flag taken from the direction marks next to a bond, QueryContainer.add_bond (QueryBond of an
   int / a list, loops, repeated bonds).  Atom numbering is not part of the result: atoms are named by their position.
   Domain: explicit atom numbers below 10^9 (the range reserved for masked atoms).  Definitions only. *)
From Coq Require Import ZArith List String Ascii Bool.
From Model Require Import PyBase Graph PeriodicTable Tokenize Query Smarts.
From Model Require Parser.
Import ListNotations.
Open Scope Z_scope.

(* token for parser(): the atom dictionary only matters through its 'stereo' entry *)
Definition atom_token (st : option bool) : token := (0, PAtom (mkAt ""%string None None 0 None st)).

Fixpoint split_tokens (ts : list token) : pyres (list token * list Query.parsed) :=
  match ts with
  | [] => Ok ([], [])
  | t :: r =>
      match smarts_token t with
      | Err e => Err e
      | Ok st =>
          match split_tokens r with
          | Err e => Err e
          | Ok (toks, ps) =>
              match st with
              | SAtom p => Ok (atom_token (p_stereo p) :: toks, p :: ps)
              | STok t' => Ok (t' :: toks, ps)
              end
          end
      end
  end.

(* the loop over parsed['atoms']: e(kwargs), then g.add_atom(atom, n) -> MappingError for a repeated explicit number *)
Fixpoint atoms_loop (ps : list Query.parsed) (seen : list Z) : pyres (list (qatom * option bool)) :=
  match ps with
  | [] => Ok []
  | p :: r =>
      match build_atom p with
      | Err e => Err e
      | Ok q =>
          let dup := match p_mapping p with Some k => zmem k seen | None => false end in
          if dup then Err ValueError
          else match atoms_loop r (match p_mapping p with Some k => k :: seen | None => seen end) with
               | Err e => Err e
               | Ok qs => Ok ((q, match q with QMetal _ _ => None | _ => p_stereo p end) :: qs)
               end
      end
  end.

(* dict.popitem(): the last inserted item *)
Definition popitem {V} (d : list (Z * V)) : option (list (Z * V) * V) :=
  match rev d with
  | [] => None
  | (_, v) :: r => Some (rev r, v)
  end.

Record sbond := mkSB { sb_n : Z; sb_m : Z; sb_q : qbond; sb_stereo : option bool }.

(* if n in stereo_bonds and m in stereo_bonds: if m not in stereo_bonds[n]: popitem from both, stereo = s1 == s2 *)
Definition stereo_of (sb : Parser.sdict) (n m : Z) : pyres (option bool * Parser.sdict) :=
  match zget sb n, zget sb m with
  | Some dn, Some _ =>
      if zmem m (keys dn) then Ok (None, sb)
      else match popitem dn with
           | None => Err KeyError
           | Some (dn', s1) =>
               let sb1 := Parser.zset sb n dn' in
               match zget sb1 m with
               | None => Err KeyError
               | Some dm => match popitem dm with
                            | None => Err KeyError
                            | Some (dm', s2) => Ok (Some (Bool.eqb s1 s2), Parser.zset sb1 m dm')
                            end
               end
           end
  | _, _ => Ok (None, sb)
  end.

Fixpoint bonds_loop (sb : Parser.sdict) (bs : list (Z * Z * payload)) (seen : list (Z * Z)) : pyres (list sbond) :=
  match bs with
  | [] => Ok []
  | (n, m, b) :: r =>
      match stereo_of sb n m with
      | Err e => Err e
      | Ok (st, sb') =>
          match qbond_of_payload b with
          | Err e => Err e
          | Ok q =>
              if n =? m then Err ValueError                                            (* atom loops impossible *)
              else if existsb (fun p => ((fst p =? n) && (snd p =? m)) || ((fst p =? m) && (snd p =? n))) seen
                   then Err ValueError                                                 (* atoms already bonded *)
              else match bonds_loop sb' r ((n, m) :: seen) with
                   | Err e => Err e
                   | Ok l => Ok (mkSB n m q st :: l)
                   end
          end
      end
  end.

Definition smarts_full (s : string) : pyres (list (qatom * option bool) * list sbond) :=
  match tokenize_raw s with
  | Err e => Err e
  | Ok ts =>
      match split_tokens ts with
      | Err e => Err e
      | Ok (toks, ps) =>
          match Parser.parse toks false with
          | Err e => Err e
          | Ok pr =>
              match atoms_loop ps [] with
              | Err e => Err e
              | Ok atoms =>
                  match bonds_loop (Parser.p_stereo_bonds pr) (Parser.p_bonds pr) [] with
                  | Err e => Err e
                  | Ok bonds => Ok (atoms, bonds)
                  end
              end
          end
      end
  end.

(* ---- text form: atoms in order, bonds sorted by their (smaller, larger) atom positions *)
Definition bkey (x : sbond) : Z := Z.min (sb_n x) (sb_m x) * 100000 + Z.max (sb_n x) (sb_m x).
Fixpoint insert_b (x : sbond) (l : list sbond) : list sbond :=
  match l with [] => [x] | y :: r => if bkey x <=? bkey y then x :: l else y :: insert_b x r end.
Definition sort_b (l : list sbond) : list sbond := fold_right insert_b [] l.
Open Scope string_scope.
Definition show_full (r : list (qatom * option bool) * list sbond) : string :=
  String.concat " " (map (fun a => show_qatom (fst a) ++ "/" ++ show_opt show_bool (snd a)) (fst r)) ++ " ; " ++
  String.concat " " (map (fun x => show_z (Z.min (sb_n x) (sb_m x)) ++ "-" ++ show_z (Z.max (sb_n x) (sb_m x)) ++ ":" ++
                                   show_qbond (sb_q x) ++ "/" ++ show_opt show_bool (sb_stereo x)) (sort_b (snd r))).
Definition b_full (inputs : list string) := batch (fun s => show_res show_full (smarts_full s)) inputs.
