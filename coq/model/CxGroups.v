(* C03: the CXSMILES fragment-grouping rule of smiles() as a SPECIFICATION, independent of the index juggling of the code
   (new_molecules array, shrinking role sets, negative product indices).

   The molecules of a reaction text are numbered 0.. in text order: reactants, then reagents, then products.  A group of the
   |f:...| block is APPLICABLE when it is not empty and all its indices name molecules of one role.  Every molecule named in an
   applicable group is replaced: the first index of the group (the smallest: groups are sorted) holds the members joined by '.',
   the other members disappear.  Groups across roles or beyond the molecule count change nothing.
   (Repeated indices cancel all grouping before this point: cx_block returns no contract then.) *)
From Coq Require Import ZArith List String Ascii Bool.
From Model Require Import PyBase Tokenize Parser Reader.
Import ListNotations.
Open Scope Z_scope.

Section SPEC.
Variables (R P G : list (list ascii)).
Let lr := Z.of_nat (List.length R).
Let lg := Z.of_nat (List.length G).
Let lp := Z.of_nat (List.length P).
Let mc := lr + lp + lg.

(* the text of molecule i *)
Definition piece (i : Z) : list ascii :=
  if i <? lr then nth (Z.to_nat i) R [] else if i <? lr + lg then nth (Z.to_nat (i - lr)) G [] else nth (Z.to_nat (i - lr - lg)) P [].
(* 0 reactant, 1 reagent, 2 product, -1 no such molecule *)
Definition role_of (i : Z) : Z :=
  if i <? 0 then -1 else if i <? lr then 0 else if i <? lr + lg then 1 else if i <? mc then 2 else -1.
Definition applicable (c : list Z) : bool :=
  match c with [] => false | x :: r => (0 <=? role_of x) && forallb (fun y => role_of y =? role_of x) r end.

(* what stands at place i after the grouping: Some text, or None (the molecule went into a group) *)
Definition slot (contract : list (list Z)) (i : Z) : option (list ascii) :=
  match find (fun c => applicable c && zmem i c) contract with
  | Some c => if i =? hd 0 c then Some (join_with "." (map piece c)) else None
  | None => Some (piece i)
  end.

Definition contract_spec (contract : list (list Z)) : list (list ascii) * list (list ascii) * list (list ascii) :=
  let S := map (slot contract) (zrange 0 mc) in
  (cr_some (firstn (Z.to_nat lr) S), cr_some (skipn (Z.to_nat (lr + lg)) S), cr_some (skipn (Z.to_nat lr) (firstn (Z.to_nat (lr + lg)) S))).
End SPEC.

(* ---- text form (correspondence): reactants / products / reagents, molecules separated by spaces *)
Open Scope string_scope.
Definition show_texts (l : list (list ascii)) : string := String.concat " " (map string_of_list_ascii l).
Definition show_roles (t : list (list ascii) * list (list ascii) * list (list ascii)) : string :=
  let '(a, b, c) := t in show_texts a ++ " / " ++ show_texts b ++ " / " ++ show_texts c.
Definition to_chars (l : list string) : list (list ascii) := map list_ascii_of_string l.
(* one case: (groups, reactants, products, reagents) *)
Definition b_contract (inputs : list (list (list Z) * list string * list string * list string)) :=
  batch (fun t : list (list Z) * list string * list string * list string =>
           let '(c, r, p, g) := t in
           show_roles (contract_spec (to_chars r) (to_chars p) (to_chars g) c) ++ " = " ++
           show_res show_roles (contract_roles c (to_chars r) (to_chars p) (to_chars g))) inputs.
Close Scope string_scope.
