(* Model of the substructure matcher (C07):
     chython/_functions.py            lazy_product
     chython/algorithms/isomorphism.py  _compile_query, _get_mapping, Isomorphism._get_mapping,
                                        is_substructure, is_equal, __lt__/__le__/__gt__/__ge__, _get_automorphism_mapping

   Python dicts are association lists in insertion order; Python sets are lists used through membership only.
   Atom match (`s_atom == o_atom`) and bond match (`s_bond == o_bond`) are Section variables: the theorems hold for
   every pair of predicates (C08 supplies the real ones).  The ORDER in which mappings are produced is part of the
   model (it is what the correspondence compares); the theorems show that the SET of mappings does not depend on it.

   Deviations that are documented rather than modelled: a MoleculeContainer keeps `_atoms` / `_bonds` consistent
   (same keys, symmetric adjacency).  Where the Python matcher would raise KeyError on an inconsistent TARGET
   (o_bonds[n], o_atoms[o_n] missing) the model treats the candidate as rejected; _compile_query, which is not lazy,
   reports KeyError faithfully. *)
From Coq Require Import ZArith List Bool Lia Permutation.
From Model Require Import PyBase.
Import ListNotations.
Open Scope Z_scope.

(* ================================================================================================ *)
(* lazy_product( *args )                                                                              *)
(* ================================================================================================ *)
Section LazyProduct.
  Context {X : Type}.

  (* per argument: pools[n], what is left of gens[n], empty[n] *)
  Record fac := mkFac { f_pool : list X; f_gen : list X; f_empty : bool }.

  Fixpoint last_opt (l : list X) : option X :=            (* p[-1] *)
    match l with
    | [] => None
    | [x] => Some x
    | _ :: r => last_opt r
    end.

  (* outcome of one pass of `for n, (p, g, e) in enumerate(zip(pools, gens, empty))` *)
  Inductive for_res :=
  | RReturn                                              (* `return`: one of the generators is empty *)
  | RIndexError                                          (* p[-1] on an empty pool (unreachable) *)
  | RBreak (pools : list (list X))                       (* reached == len(args): `break`, leaves the while loop *)
  | RDone (out : list X) (ind : list nat) (fs : list fac) (reached : nat).   (* else-clause of the for loop *)

  Fixpoint lp_for (nargs : nat) (fs : list fac) (reached : nat) : for_res :=
    match fs with
    | [] => RDone [] [] [] reached
    | f :: r =>
        let continue (x : X) (f' : fac) (reached' : nat) :=
          match lp_for nargs r reached' with
          | RDone out ind fs' rr => RDone (x :: out) ((length (f_pool f') - 1)%nat :: ind) (f' :: fs') rr
          | RBreak ps => RBreak (f_pool f' :: ps)
          | RReturn => RReturn
          | RIndexError => RIndexError
          end in
        if f_empty f then
          match last_opt (f_pool f) with
          | Some x => continue x f reached
          | None => RIndexError
          end
        else
          match f_gen f with
          | [] =>                                          (* StopIteration *)
              match last_opt (f_pool f) with
              | None => RReturn                            (* if not p: return *)
              | Some x =>
                  let reached' := S reached in
                  if (reached' =? nargs)%nat then RBreak (map f_pool (f :: r))
                  else continue x (mkFac (f_pool f) [] true) reached'
              end
          | x :: g => continue x (mkFac (f_pool f ++ [x]) g false) reached
          end
    end.

  (* itertools.product over range(len(p)) for p in pools: the rightmost index runs fastest *)
  Fixpoint iproduct (ranges : list (list nat)) : list (list nat) :=
    match ranges with
    | [] => [[]]
    | r :: rs => flat_map (fun i => map (cons i) (iproduct rs)) r
    end.

  (* tuple(p[x] for x, p in zip(ind, pools)) *)
  Fixpoint pick (ind : list nat) (pools : list (list X)) : list X :=
    match ind, pools with
    | i :: ir, p :: pr =>
        match nth_error p i with
        | Some x => x :: pick ir pr
        | None => pick ir pr                               (* IndexError, unreachable: i < len p *)
        end
    | _, _ => []
    end.

  Definition ind_eqb (a b : list nat) : bool := list_eqb Nat.eqb a b.
  Definition ind_mem (a : list nat) (s : list (list nat)) : bool := existsb (ind_eqb a) s.

  Definition lp_product (pools : list (list X)) (indices : list (list nat)) : list (list X) :=
    map (fun ind => pick ind pools)
        (filter (fun ind => negb (ind_mem ind indices)) (iproduct (map (fun p => seq 0 (length p)) pools))).

  (* `while True:` -- fuel is a termination device only (lazy_product_exact shows it never runs out) *)
  Fixpoint lp_while (fuel : nat) (nargs : nat) (fs : list fac) (reached : nat) (indices : list (list nat))
    : list (list X) :=
    match fuel with
    | O => []
    | S k =>
        match lp_for nargs fs reached with
        | RDone out ind fs' r' => out :: lp_while k nargs fs' r' (ind :: indices)   (* yield; indices.add *)
        | RBreak pools => lp_product pools indices
        | RReturn => []
        | RIndexError => []
        end
    end.

  Definition max_len (args : list (list X)) : nat := fold_right Nat.max O (map (@length X) args).

  Definition lazy_product (args : list (list X)) : list (list X) :=
    match args with
    | [a] => map (fun x => [x]) a                          (* len(args) == 1 *)
    | [] => [[]]                                           (* not args: yield () *)
    | _ => lp_while (S (S (max_len args))) (length args) (map (fun a => mkFac [] a false) args) O []
    end.

  (* specification side: the cartesian product in itertools.product order *)
  Fixpoint cartesian (args : list (list X)) : list (list X) :=
    match args with
    | [] => [[]]
    | a :: r => flat_map (fun x => map (cons x) (cartesian r)) a
    end.
End LazyProduct.

(* itertools.permutations(l, r): lexicographic in the positions *)
Fixpoint selects {T : Type} (l : list T) : list (T * list T) :=
  match l with
  | [] => []
  | x :: r => (x, r) :: map (fun yr => (fst yr, x :: snd yr)) (selects r)
  end.
Fixpoint permutations {T : Type} (r : nat) (l : list T) : list (list T) :=
  match r with
  | O => [[]]
  | S k => flat_map (fun xr => map (cons (fst xr)) (permutations k (snd xr))) (selects l)
  end.

(* dict operations on int -> int dictionaries *)
Definition mapping := list (Z * Z).                       (* pattern atom -> target atom, in insertion order *)
Fixpoint dict_set (d : mapping) (k v : Z) : mapping :=    (* d[k] = v *)
  match d with
  | [] => [(k, v)]
  | (k', v') :: r => if k =? k' then (k', v) :: r else (k', v') :: dict_set r k v
  end.
Fixpoint dict_del (d : mapping) (k : Z) : mapping :=      (* del d[k] *)
  match d with
  | [] => []
  | (k', v') :: r => if k =? k' then r else (k', v') :: dict_del r k
  end.
Definition dict_update (d m : mapping) : mapping := fold_left (fun d kv => dict_set d (fst kv) (snd kv)) m d.
(* Isomorphism._get_mapping: mapping = {}; for m in match: mapping.update(m) *)
Definition merge (ms : list mapping) : mapping := fold_left dict_update ms [].
(* _get_automorphism_mapping: mapping = match[0].copy(); for m in match[1:]: mapping.update(m) *)
Definition merge_copy (ms : list mapping) : mapping :=
  match ms with
  | [] => []                                              (* match[0]: IndexError; lazy_product is never called without arguments there *)
  | m :: r => fold_left dict_update r m
  end.
Definition mapping_eqb (a b : mapping) : bool := list_eqb (fun x y => (fst x =? fst y) && (snd x =? snd y)) a b.

(* frozenset(mapping.values()) and its equality *)
Definition image (m : mapping) : list Z := map snd m.
Definition fs_eqb (a b : list Z) : bool := same_keys_z a b.

(* the automorphism filter along the stream of mappings, `seen` shared by the whole call *)
Fixpoint auto_filter (flt : bool) (seen : list (list Z)) (ms : list mapping) : list mapping :=
  match ms with
  | [] => []
  | m :: r =>
      if flt then
        if existsb (fs_eqb (image m)) seen then auto_filter flt seen r
        else m :: auto_filter flt (image m :: seen) r
      else m :: auto_filter flt seen r
  end.

(* `if searching_scope is not None: candidate = searching_scope.intersection(candidate); if not candidate: continue/break`
   None = skip this candidate.  An EMPTY scope intersects to nothing: every candidate is skipped. *)
Definition restrict (scope : option (list Z)) (cand : list Z) : option (list Z) :=
  match scope with
  | Some s =>
      match filter (fun x => zmem x s) cand with
      | [] => None
      | c => Some c
      end
  | None => Some cand
  end.

Section Matcher.
  Variables QA A QB B : Type.
  Variable amatch : QA -> A -> bool.                      (* s_atom == o_atom *)
  Variable bmatch : QB -> B -> bool.                      (* s_bond == o_bond *)

  Definition lentry := (Z * option Z * QA * option QB)%type.      (* (front, back, atom, bond) *)
  Definition closures_t := list (Z * list (Z * QB)).             (* defaultdict(list) *)
  Definition fst4 (e : lentry) : Z := let '(n, _, _, _) := e in n.
  Definition back4 (e : lentry) : option Z := let '(_, b, _, _) := e in b.

  Definition adj_get {W : Type} (bonds : list (Z * list (Z * W))) (n : Z) : list (Z * W) :=
    match zget bonds n with Some l => l | None => [] end.
  Definition bond_get {W : Type} (bonds : list (Z * list (Z * W))) (n m : Z) : option W := zget (adj_get bonds n) m.

  (* ---------------------------------------------------------------------------------------------- *)
  (* _compile_query(atoms, bonds)                                                                     *)
  (* ---------------------------------------------------------------------------------------------- *)
  Definition clo_get (c : closures_t) (n : Z) : list (Z * QB) := adj_get c n.          (* query_closures[n] *)
  Fixpoint clo_append (c : closures_t) (k : Z) (item : Z * QB) : closures_t :=         (* closures[k].append(item) *)
    match c with
    | [] => [(k, [item])]
    | (k', l) :: r => if k =? k' then (k', l ++ [item]) :: r else (k', l) :: clo_append r k item
    end.

  Definition opt_is (o : option Z) (n : Z) : bool := match o with Some b => n =? b | None => false end.

  (* stack = [(n, start, atoms[n], bond) for n, bond in reversed(bonds[start].items())]; [nbs] is already reversed *)
  Fixpoint cq_init (atoms : list (Z * QA)) (start : Z) (nbs : list (Z * QB)) (stack : list lentry) : pyres (list lentry) :=
    match nbs with
    | [] => Ok stack
    | (n, bond) :: r =>
        match zget atoms n with
        | None => Err KeyError
        | Some a => cq_init atoms start r ((n, Some start, a, Some bond) :: stack)
        end
    end.

  (* for n, bond in reversed(bonds[front].items()): ...   ([nbs] is already reversed; head of [stack] = top) *)
  Fixpoint cq_scan (atoms : list (Z * QA)) (front : Z) (back : option Z) (seen : list Z) (nbs : list (Z * QB))
           (stack : list lentry) (clo : closures_t) : pyres (list lentry * closures_t) :=
    match nbs with
    | [] => Ok (stack, clo)
    | (n, bond) :: r =>
        if opt_is back n then cq_scan atoms front back seen r stack clo
        else if zmem n seen then cq_scan atoms front back seen r stack (clo_append clo front (n, bond))
        else match zget atoms n with
             | None => Err KeyError
             | Some a => cq_scan atoms front back seen r ((n, Some front, a, Some bond) :: stack) clo
             end
    end.

  (* while stack: ... ; fuel is a termination device (Err OtherError is never produced: compile_query_total) *)
  Fixpoint cq_dfs (fuel : nat) (atoms : list (Z * QA)) (bonds : list (Z * list (Z * QB)))
           (stack : list lentry) (order : list lentry) (clo : closures_t) (seen : list Z)
    : pyres (list lentry * closures_t * list Z) :=
    match fuel with
    | O => Err OtherError
    | S k =>
        match stack with
        | [] => Ok (order, clo, seen)
        | (front, back, a, b) :: st =>
            if zmem front seen then cq_dfs k atoms bonds st order clo seen
            else
              match zget bonds front with
              | None => Err KeyError
              | Some nbs =>
                  match cq_scan atoms front back seen (rev nbs) st clo with
                  | Err e => Err e
                  | Ok (st', clo') => cq_dfs k atoms bonds st' (order ++ [(front, back, a, b)]) clo' (front :: seen)
                  end
              end
        end
    end.

  Definition edge_count (bonds : list (Z * list (Z * QB))) : nat := length (concat (map snd bonds)).

  (* while len(seen) < len(atoms): start = next(x for x in iter_atoms if x not in seen) ...
     recursion on what is left of iter_atoms *)
  Fixpoint cq_outer (atoms : list (Z * QA)) (bonds : list (Z * list (Z * QB))) (iter : list Z)
           (comps : list (list lentry)) (clo : closures_t) (seen : list Z)
    : pyres (list (list lentry) * closures_t) :=
    if (length seen <? length atoms)%nat then
      match iter with
      | [] => Err StopIteration
      | x :: iter' =>
          if zmem x seen then cq_outer atoms bonds iter' comps clo seen
          else
            match zget bonds x with
            | None => Err KeyError
            | Some nbs =>
                match cq_init atoms x (rev nbs) [] with
                | Err e => Err e
                | Ok stack =>
                    match zget atoms x with
                    | None => Err KeyError
                    | Some a0 =>
                        match cq_dfs (S (edge_count bonds)) atoms bonds stack [(x, None, a0, None)] clo (x :: seen) with
                        | Err e => Err e
                        | Ok (order, clo', seen') => cq_outer atoms bonds iter' (comps ++ [order]) clo' seen'
                        end
                    end
                end
            end
      end
    else Ok (comps, clo).

  Definition compile_query (atoms : list (Z * QA)) (bonds : list (Z * list (Z * QB)))
    : pyres (list (list lentry) * closures_t) :=
    cq_outer atoms bonds (keys atoms) [] [] [].

  (* ---------------------------------------------------------------------------------------------- *)
  (* _get_mapping(linear_query, query_closures, o_atoms, o_bonds, scope)                              *)
  (* ---------------------------------------------------------------------------------------------- *)
  (* the test guarding stack.append((o_n, depth)); [mp] = mapping (it already holds the current atom), [n] = image of back *)
  Definition cand_ok (clo_sn : list (Z * QB)) (o_atoms : list (Z * A)) (o_bonds : list (Z * list (Z * B)))
             (scope : list Z) (mp : mapping) (n : Z) (s_atom : QA) (s_bond : option QB) (o_n : Z) (o_bond : B) : bool :=
    zmem o_n scope && negb (zmem o_n (image mp)) &&
    match s_bond with Some sb => bmatch sb o_bond | None => false end &&
    match zget o_atoms o_n with Some oa => amatch s_atom oa | None => false end &&
    (let obon := adj_get o_bonds o_n in
     let o_closures := filter (fun x => zmem x (image mp) && negb (x =? n)) (keys obon) in
     match fold_right (fun mb acc => match acc, zget mp (fst mb) with
                                     | Some l, Some y => Some (y :: l)
                                     | _, _ => None
                                     end) (Some []) clo_sn with
     | None => false                                       (* mapping[m]: KeyError, unreachable for compiled queries *)
     | Some want =>
         fs_eqb o_closures want &&
         forallb (fun mb => match zget mp (fst mb) with
                            | Some y => match zget obon y with Some ob => bmatch (snd mb) ob | None => false end
                            | None => false
                            end) clo_sn
     end).

  (* everything that popping (n, depth) yields; [current] = linear_query[depth][0], [rest] = linear_query[depth+1:],
     [mp] = the mapping of the atoms before depth.  Candidates are pushed in o_bonds[n] order and popped from the end. *)
  Fixpoint gm_from (clo : closures_t) (o_atoms : list (Z * A)) (o_bonds : list (Z * list (Z * B))) (scope : list Z)
           (rest : list lentry) (current : Z) (mp : mapping) (n : Z) : list mapping :=
    let mp' := mp ++ [(current, n)] in
    match rest with
    | [] => [mp']                                          (* depth == size: yield {**mapping, current: n} *)
    | (s_n, back, s_atom, s_bond) :: rest' =>
        match (if opt_is back current then Some n else match back with Some b => zget mp' b | None => None end) with
        | None => []                                       (* order_depth[back]: KeyError, unreachable *)
        | Some n' =>
            let cands := filter (fun ob => cand_ok (clo_get clo s_n) o_atoms o_bonds scope mp' n' s_atom s_bond (fst ob) (snd ob))
                                (adj_get o_bonds n') in
            flat_map (fun ob => gm_from clo o_atoms o_bonds scope rest' s_n mp' (fst ob)) (rev cands)
        end
    end.

  Definition get_mapping (lq : list lentry) (clo : closures_t) (o_atoms : list (Z * A)) (o_bonds : list (Z * list (Z * B)))
             (scope : list Z) : list mapping :=
    match lq with
    | [] => []                                             (* linear_query[0]: IndexError; never called so *)
    | (s_n, _, s_atom, _) :: rest =>
        let init := filter (fun na => zmem (fst na) scope && amatch s_atom (snd na)) o_atoms in
        flat_map (fun na => gm_from clo o_atoms o_bonds scope rest s_n [] (fst na)) (rev init)
    end.

  (* ---------------------------------------------------------------------------------------------- *)
  (* Isomorphism._get_mapping(other, automorphism_filter, searching_scope)                            *)
  (* [tcomps] = other.connected_components in the order the implementation produced them (set order, an input) *)
  (* ---------------------------------------------------------------------------------------------- *)
  Fixpoint build_mappers (clo : closures_t) (o_atoms : list (Z * A)) (o_bonds : list (Z * list (Z * B)))
           (scope : option (list Z)) (comps : list (list lentry)) (cands : list (list Z)) : option (list (list mapping)) :=
    match comps, cands with
    | c :: cr, cand :: dr =>
        match restrict scope cand with
        | None => None                                     (* break: this assignment of components is skipped *)
        | Some s =>
            match build_mappers clo o_atoms o_bonds scope cr dr with
            | None => None
            | Some ms => Some (get_mapping c clo o_atoms o_bonds s :: ms)
            end
        end
    | _, _ => Some []
    end.

  Definition iso_stream (comps : list (list lentry)) (clo : closures_t) (o_atoms : list (Z * A))
             (o_bonds : list (Z * list (Z * B))) (tcomps : list (list Z)) (scope : option (list Z)) : pyres (list mapping) :=
    match comps with
    | [c] =>
        Ok (flat_map (fun cand => match restrict scope cand with
                                  | None => []
                                  | Some s => get_mapping c clo o_atoms o_bonds s
                                  end) tcomps)
    | _ =>                                                 (* also the pattern without atoms: permutations(.., 0) = [()],
                                                              lazy_product() = [()], mapping = {} *)
        Ok (flat_map (fun cands => match build_mappers clo o_atoms o_bonds scope comps cands with
                                   | None => []
                                   | Some mappers => map merge (lazy_product mappers)
                                   end) (permutations (length comps) tcomps))
    end.

  Definition iso_get_mapping (comps : list (list lentry)) (clo : closures_t) (o_atoms : list (Z * A))
             (o_bonds : list (Z * list (Z * B))) (tcomps : list (list Z)) (flt : bool) (scope : option (list Z))
    : pyres (list mapping) :=
    match iso_stream comps clo o_atoms o_bonds tcomps scope with
    | Err e => Err e
    | Ok s => Ok (auto_filter flt [] s)
    end.

  (* pattern.get_mapping(target, automorphism_filter=flt, searching_scope=scope) without the stereo filter *)
  Definition mol_get_mapping (q_atoms : list (Z * QA)) (q_bonds : list (Z * list (Z * QB)))
             (o_atoms : list (Z * A)) (o_bonds : list (Z * list (Z * B))) (tcomps : list (list Z))
             (flt : bool) (scope : option (list Z)) : pyres (list mapping) :=
    match compile_query q_atoms q_bonds with
    | Err e => Err e
    | Ok (comps, clo) => iso_get_mapping comps clo o_atoms o_bonds tcomps flt scope
    end.

  (* next(self.get_mapping(other, automorphism_filter=False)) succeeds *)
  Definition is_substructure q_atoms q_bonds o_atoms o_bonds tcomps : pyres bool :=
    match mol_get_mapping q_atoms q_bonds o_atoms o_bonds tcomps false None with
    | Err e => Err e
    | Ok [] => Ok false
    | Ok (_ :: _) => Ok true
    end.
  Definition is_equal q_atoms q_bonds o_atoms o_bonds tcomps : pyres bool :=
    if negb (length q_atoms =? length o_atoms)%nat then Ok false
    else is_substructure q_atoms q_bonds o_atoms o_bonds tcomps.
  (* self < other, self <= other (self > other / self >= other are the same with the arguments exchanged) *)
  Definition iso_lt q_atoms q_bonds o_atoms o_bonds tcomps : pyres bool :=
    if (length o_atoms <=? length q_atoms)%nat then Ok false
    else is_substructure q_atoms q_bonds o_atoms o_bonds tcomps.
  Definition iso_le := is_substructure.

  (* ---------------------------------------------------------------------------------------------- *)
  (* specification side                                                                              *)
  (* ---------------------------------------------------------------------------------------------- *)
  (* a dict-of-dicts adjacency that a container can hold: keys = atoms, no duplicate keys, no loops,
     symmetric with the SAME bond in both directions *)
  Definition wf_adj {V W : Type} (atoms : list (Z * V)) (bonds : list (Z * list (Z * W))) : Prop :=
    NoDup (keys atoms) /\ NoDup (keys bonds) /\
    (forall n, In n (keys bonds) <-> In n (keys atoms)) /\
    (forall n, NoDup (keys (adj_get bonds n))) /\
    (forall n m, In m (keys (adj_get bonds n)) -> m <> n /\ In m (keys atoms)) /\
    (forall n m, bond_get bonds n m = bond_get bonds m n).

  (* [rest] continues a linear order whose atoms so far are [pre]: every entry is new, carries its atom, names an
     earlier adjacent atom as `back` with the bond between them (the first entry has none), and closures[x] lists
     exactly the earlier neighbours other than back, each once, with the bond to them *)
  Fixpoint lin_ok (q_atoms : list (Z * QA)) (q_bonds : list (Z * list (Z * QB))) (clo : closures_t)
           (pre : list Z) (rest : list lentry) : Prop :=
    match rest with
    | [] => True
    | (s_n, back, a, b) :: r =>
        ~ In s_n pre /\ zget q_atoms s_n = Some a /\
        match pre with
        | [] => back = None /\ b = None
        | _ => exists bk bd, back = Some bk /\ b = Some bd /\ In bk pre /\ bond_get q_bonds bk s_n = Some bd
        end /\
        NoDup (keys (clo_get clo s_n)) /\
        (forall m bd, In (m, bd) (clo_get clo s_n) <->
                      In m pre /\ back <> Some m /\ bond_get q_bonds s_n m = Some bd) /\
        lin_ok q_atoms q_bonds clo (pre ++ [s_n]) r
    end.

  (* what _compile_query promises *)
  Definition compiled_ok (q_atoms : list (Z * QA)) (q_bonds : list (Z * list (Z * QB)))
             (comps : list (list lentry)) (clo : closures_t) : Prop :=
    Permutation (concat (map (map fst4) comps)) (keys q_atoms) /\       (* every atom in exactly one order, once *)
    (forall c, In c comps -> c <> [] /\ lin_ok q_atoms q_bonds clo [] c) /\
    (forall c n m, In c comps -> In n (map fst4 c) -> In m (keys (adj_get q_bonds n)) -> In m (map fst4 c)).
                                                                                  (* no bond leaves an order *)

  (* f embeds the pattern atoms [comp] (listed in this order) into the target, inside [scope]:
     injective, atoms match, and for every two pattern atoms: bond <-> bond (and they match), no bond <-> no bond *)
  Definition induced_embedding (q_atoms : list (Z * QA)) (q_bonds : list (Z * list (Z * QB)))
             (o_atoms : list (Z * A)) (o_bonds : list (Z * list (Z * B))) (comp : list Z) (scope : list Z)
             (f : mapping) : Prop :=
    map fst f = comp /\ NoDup (image f) /\
    (forall x y, In (x, y) f -> In y scope /\
                 exists qa oa, zget q_atoms x = Some qa /\ zget o_atoms y = Some oa /\ amatch qa oa = true) /\
    (forall x1 y1 x2 y2, In (x1, y1) f -> In (x2, y2) f ->
       match bond_get q_bonds x1 x2, bond_get o_bonds y1 y2 with
       | Some qb, Some ob => bmatch qb ob = true
       | None, None => True
       | _, _ => False
       end).
End Matcher.

Arguments fst4 {QA QB} e.
Arguments back4 {QA QB} e.
Arguments adj_get {W} bonds n.
Arguments bond_get {W} bonds n m.
Arguments wf_adj {V W} atoms bonds.
Arguments compile_query {QA QB} atoms bonds.
Arguments clo_get {QB} c n.
Arguments clo_append {QB} c k item.
Arguments cq_init {QA QB} atoms start nbs stack.
Arguments cq_scan {QA QB} atoms front back seen nbs stack clo.
Arguments cq_dfs {QA QB} fuel atoms bonds stack order clo seen.
Arguments cq_outer {QA QB} atoms bonds iter comps clo seen.
Arguments edge_count {QB} bonds.
Arguments get_mapping {QA A QB B} amatch bmatch lq clo o_atoms o_bonds scope.
Arguments gm_from {QA A QB B} amatch bmatch clo o_atoms o_bonds scope rest current mp n.
Arguments cand_ok {QA A QB B} amatch bmatch clo_sn o_atoms o_bonds scope mp n s_atom s_bond o_n o_bond.
Arguments iso_stream {QA A QB B} amatch bmatch comps clo o_atoms o_bonds tcomps scope.
Arguments iso_get_mapping {QA A QB B} amatch bmatch comps clo o_atoms o_bonds tcomps flt scope.
Arguments mol_get_mapping {QA A QB B} amatch bmatch q_atoms q_bonds o_atoms o_bonds tcomps flt scope.
Arguments is_substructure {QA A QB B} amatch bmatch q_atoms q_bonds o_atoms o_bonds tcomps.
Arguments is_equal {QA A QB B} amatch bmatch q_atoms q_bonds o_atoms o_bonds tcomps.
Arguments iso_lt {QA A QB B} amatch bmatch q_atoms q_bonds o_atoms o_bonds tcomps.
Arguments iso_le {QA A QB B} amatch bmatch q_atoms q_bonds o_atoms o_bonds tcomps.
Arguments lin_ok {QA QB} q_atoms q_bonds clo pre rest.
Arguments compiled_ok {QA QB} q_atoms q_bonds comps clo.
Arguments induced_embedding {QA A QB B} amatch bmatch q_atoms q_bonds o_atoms o_bonds comp scope f.

(* _get_automorphism_mapping(atoms, bonds): atoms = {n: morgan class}, pattern and target are the same graph *)
Fixpoint zdedup (l : list Z) : list Z :=
  match l with
  | [] => []
  | x :: r => if zmem x r then zdedup r else x :: zdedup r
  end.
Definition get_automorphism_mapping {B : Type} (beq : B -> B -> bool) (atoms : list (Z * Z))
           (bonds : list (Z * list (Z * B))) : pyres (list mapping) :=
  if (length atoms =? length (zdedup (map snd atoms)))%nat then Ok []        (* all atoms unique *)
  else
    match compile_query atoms bonds with
    | Err e => Err e
    | Ok (comps, clo) =>
        let mappers := map (fun order => get_mapping Z.eqb beq order clo atoms bonds (map fst4 order)) comps in
        let nonid := filter (fun mp : mapping => existsb (fun kv => negb (fst kv =? snd kv)) mp) in
        match mappers with
        | [m] => Ok (nonid m)      (* the only generator is exhausted by the first loop: lazy_product adds nothing *)
        | _ => Ok (nonid (map merge_copy (lazy_product mappers)))
        end
    end.

(* ================================================================================================ *)
(* instances used by the correspondence runner (harness/checks/C07.py)                                *)
(* ================================================================================================ *)
From Model Require Import Graph.

(* atoms and bonds labelled by integers, matched by equality: _compile_query / _get_mapping called directly *)
Definition zl_entry_eqb (x y : lentry Z Z) : bool :=
  let '(n, b, a, bd) := x in let '(n', b', a', bd') := y in
  (n =? n') && option_eqb Z.eqb b b' && (a =? a') && option_eqb Z.eqb bd bd'.
Definition zclo_eqb (x y : closures_t Z) : bool := list_eqb (pair_eqb Z.eqb (list_eqb (pair_eqb Z.eqb Z.eqb))) x y.
Definition zcompiled_eqb (x y : pyres (list (list (lentry Z Z)) * closures_t Z)) : bool :=
  pyres_eqb (pair_eqb (list_eqb (list_eqb zl_entry_eqb)) zclo_eqb) x y.
Definition maps_eqb : list mapping -> list mapping -> bool := list_eqb mapping_eqb.
Definition zget_mapping := @get_mapping Z Z Z Z Z.eqb Z.eqb.
Definition zmol_get_mapping := @mol_get_mapping Z Z Z Z Z.eqb Z.eqb.

(* the shape of a compiled query, whatever the atom / bond labels are *)
Definition skel {QA QB : Type} (r : pyres (list (list (lentry QA QB)) * closures_t QB))
  : pyres (list (list (Z * option Z)) * list (Z * list Z)) :=
  match r with
  | Err e => Err e
  | Ok (comps, clo) => Ok (map (map (fun e => (fst4 e, back4 e))) comps, map (fun kv => (fst kv, keys (snd kv))) clo)
  end.
Definition skel_eqb (x y : pyres (list (list (Z * option Z)) * list (Z * list Z))) : bool :=
  pyres_eqb (pair_eqb (list_eqb (list_eqb (pair_eqb Z.eqb (option_eqb Z.eqb)))) (list_eqb (pair_eqb Z.eqb (list_eqb Z.eqb)))) x y.

(* plain Element.__eq__ (atomic number, isotope, charge, radical) and Bond.__eq__ (order) *)
Definition elem_eqb (a b : atom) : bool :=
  (a_num a =? a_num b) && option_eqb Z.eqb (a_iso a) (a_iso b) && (a_chg a =? a_chg b) && Bool.eqb (a_rad a) (a_rad b).
Definition order_eqb (a b : bond) : bool := b_ord a =? b_ord b.
Definition mm_get_mapping (q t : mol) := mol_get_mapping elem_eqb order_eqb (m_atoms q) (m_adj q) (m_atoms t) (m_adj t).
Definition mm_is_substructure (q t : mol) := is_substructure elem_eqb order_eqb (m_atoms q) (m_adj q) (m_atoms t) (m_adj t).
Definition mm_is_equal (q t : mol) := is_equal elem_eqb order_eqb (m_atoms q) (m_adj q) (m_atoms t) (m_adj t).
Definition mm_lt (q t : mol) := iso_lt elem_eqb order_eqb (m_atoms q) (m_adj q) (m_atoms t) (m_adj t).

(* query patterns: atoms and bonds are named by integers and matched through a truth table dumped from the
   implementation's own __eq__ (the predicates themselves are C08's business) *)
Definition tab_match (tab : list (Z * Z)) (q a : Z) : bool := existsb (fun p => (fst p =? q) && (snd p =? a)) tab.
Definition tab_get_mapping (atab btab : list (Z * Z)) := @mol_get_mapping Z Z Z Z (tab_match atab) (tab_match btab).

(* ================================================================================================ *)
(* intermediate states of _get_mapping: what the explicit-stack loop pops, in order                    *)
(* ================================================================================================ *)
(* one entry per `n, depth = stack.pop()`: (n, depth, path[:depth]) -- the part of `path` that is still valid (the Python lists are
   cleaned lazily); the recursion tree of gm_from in pre-order is the pop order of the stack *)
Section Trace.
  Variables QA A QB B : Type.
  Variable amatch : QA -> A -> bool.
  Variable bmatch : QB -> B -> bool.

  Fixpoint gm_trace (clo : closures_t QB) (o_atoms : list (Z * A)) (o_bonds : list (Z * list (Z * B))) (scope : list Z)
           (rest : list (lentry QA QB)) (current : Z) (mp : mapping) (n : Z) (depth : Z) : list (Z * Z * list Z) :=
    (n, depth, image mp) ::
    let mp' := mp ++ [(current, n)] in
    match rest with
    | [] => []
    | (s_n, back, s_atom, s_bond) :: rest' =>
        match (if opt_is back current then Some n else match back with Some b => zget mp' b | None => None end) with
        | None => []
        | Some n' =>
            let cands := filter (fun ob => cand_ok amatch bmatch (clo_get clo s_n) o_atoms o_bonds scope mp' n' s_atom s_bond (fst ob) (snd ob))
                                (adj_get o_bonds n') in
            flat_map (fun ob => gm_trace clo o_atoms o_bonds scope rest' s_n mp' (fst ob) (depth + 1)) (rev cands)
        end
    end.

  Definition get_mapping_trace (lq : list (lentry QA QB)) (clo : closures_t QB) (o_atoms : list (Z * A)) (o_bonds : list (Z * list (Z * B)))
             (scope : list Z) : list (Z * Z * list Z) :=
    match lq with
    | [] => []
    | (s_n, _, s_atom, _) :: rest =>
        let init := filter (fun na => zmem (fst na) scope && amatch s_atom (snd na)) o_atoms in
        flat_map (fun na => gm_trace clo o_atoms o_bonds scope rest s_n [] (fst na) 0) (rev init)
    end.
End Trace.
Arguments gm_trace {QA A QB B} amatch bmatch clo o_atoms o_bonds scope rest current mp n depth.
Arguments get_mapping_trace {QA A QB B} amatch bmatch lq clo o_atoms o_bonds scope.
Definition zget_mapping_trace := @get_mapping_trace Z Z Z Z Z.eqb Z.eqb.
Definition trace_eqb (x y : list (Z * Z * list Z)) : bool :=
  list_eqb (fun a b => (fst (fst a) =? fst (fst b)) && (snd (fst a) =? snd (fst b)) && list_eqb Z.eqb (snd a) (snd b)) x y.
