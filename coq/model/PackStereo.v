(* C10: the Python side of MoleculeContainer.pack / unpack around the .pyx codecs (molecule.py, algorithms/stereo.py):
   - the two atom-keyed dicts derived from the stereogenic cumulene paths (_stereo_cis_trans_terminals read by pack,
     _stereo_cis_trans_centers used by unpack), built by assignment: a later path OVERWRITES the entry of a shared atom
   - _cis_trans_count
   - re-attachment of the decoded (n, m, sign) records to bonds after the .pyx decoder returned.
   The path list itself (stereogenic_cumulenes: chains of double bonds with suitable ends) is an INPUT of the model: it
   is a function of the label-free structure, which the round trip preserves. *)
From Coq Require Import ZArith List Bool.
From Model Require Import PyBase Pack PackSpec.
Import ListNotations.
Open Scope Z_scope.

(* path[0], path[-1] and the central pair path[i-1], path[i], i = len(path) // 2 *)
Definition path_ends (p : list Z) : option (Z * Z) := match p with [] => None | x :: _ => Some (x, last p x) end.
Definition path_mid (p : list Z) : option (Z * Z) :=
  let i := Nat.div2 (length p) in
  match i with
  | O => None
  | S j => match nth_error p j, nth_error p i with Some x, Some y => Some (x, y) | _, _ => None end
  end.

(*  for path in self.stereogenic_cumulenes:
        if len(path) % 2: continue
        n, m = path[0], path[-1]; i = len(path) // 2
        terminals[n] = terminals[m] = terminals[path[i]] = terminals[path[i - 1]] = (n, m)  *)
Definition terminals_step (d : list (Z * (Z * Z))) (p : list Z) : list (Z * (Z * Z)) :=
  if Nat.even (length p) then
    match path_ends p, path_mid p with
    | Some (n, m), Some (c1, c2) => dict_set (dict_set (dict_set (dict_set d n (n, m)) m (n, m)) c2 (n, m)) c1 (n, m)
    | _, _ => d
    end
  else d.
Definition terminals_of (paths : list (list Z)) : list (Z * (Z * Z)) := fold_left terminals_step paths [].

(*      terminals[n] = terminals[m] = (path[i - 1], path[i])  *)
Definition centers_step (d : list (Z * (Z * Z))) (p : list Z) : list (Z * (Z * Z)) :=
  if Nat.even (length p) then
    match path_ends p, path_mid p with
    | Some (n, m), Some (c1, c2) => dict_set (dict_set d n (c1, c2)) m (c1, c2)
    | _, _ => d
    end
  else d.
Definition centers_of (paths : list (list Z)) : list (Z * (Z * Z)) := fold_left centers_step paths [].

(* _cis_trans_count = sum(b.stereo is not None for *_, b in self.bonds()); bonds() yields every bond once, from the atom
   that comes first *)
Definition cis_trans_count (atoms : list patom) : Z := Z.of_nat (length (fwd_labelled (mol_fwd [] atoms))).

(* what the .pyx packer reads from the molecule *)
Definition api_pmol (atoms : list patom) (paths : list (list Z)) : pmol :=
  mkPMol atoms (cis_trans_count atoms) (terminals_of paths).

Definition api_pack (atoms : list patom) (paths : list (list Z)) : pyres (list Z) := pack (api_pmol atoms paths).

(* ---------- unpack: labelled adjacency and re-attachment ---------- *)
Definition ladj := list (Z * list (Z * (Z * option bool))).    (* n -> [(m, (order, bond stereo))] *)

Definition ladj_of_unpacked (u : unpacked) : ladj :=
  map (fun e => (fst e, map (fun mo => (fst mo, (snd mo, @None bool))) (snd e))) (up_adj u).

Definition bond_hit (c1 c2 n m : Z) : bool := ((n =? c1) && (m =? c2)) || ((n =? c2) && (m =? c1)).

(* mol.bond(c1, c2)._stereo = s : the Bond object is shared by both directions *)
Definition set_lab (adj : ladj) (c1 c2 : Z) (s : bool) : ladj :=
  map (fun e => (fst e, map (fun x => (fst x, (fst (snd x), if bond_hit c1 c2 (fst e) (fst x) then Some s else snd (snd x))))
                            (snd e))) adj.

Definition has_bond (adj : ladj) (c1 c2 : Z) : bool :=
  match zget adj c1 with
  | Some nb => match zget nb c2 with Some _ => true | None => false end
  | None => false
  end.

(*  for n, m, s in cis_trans:
        if n in mol._stereo_cis_trans_centers:
            c1, c2 = mol._stereo_cis_trans_centers[n]; mol.bond(c1, c2)._stereo = s     (bond() raises BondNotFound(KeyError))  *)
Fixpoint reattach (centers : list (Z * (Z * Z))) (ct : list (Z * Z * bool)) (adj : ladj) : pyres ladj :=
  match ct with
  | [] => Ok adj
  | (n, _, s) :: r =>
      match zget centers n with
      | None => reattach centers r adj
      | Some (c1, c2) => if has_bond adj c1 c2 then reattach centers r (set_lab adj c1 c2 s) else Err KeyError
      end
  end.

(* MoleculeContainer.unpack(data, compressed=False, skip_labels_calculation=True, _return_pack_length=True); [paths] are
   the stereogenic cumulene paths of the decoded molecule *)
Definition api_unpack (paths : list (list Z)) (data : list Z) : pyres (list uatom * ladj * Z) :=
  match getb data 0 with
  | None => Err IndexError
  | Some v =>
      if negb ((v =? 0) || (v =? 2)) then Err ValueError
      else match unpack data with
           | Err e => Err e
           | Ok u => match reattach (centers_of paths) (up_ct u) (ladj_of_unpacked u) with
                     | Err e => Err e
                     | Ok adj => Ok (up_atoms u, adj, up_size u)
                     end
           end
  end.

(* the labelled adjacency of the original molecule *)
Definition ladj_of_atoms (atoms : list patom) : ladj := map (fun a => (pa_n a, pa_nbrs a)) atoms.

(* ---------- the condition under which the records name the right bonds ---------- *)
(* for every labelled bond, met first from atom n towards m: the terminals entry of n exists and the centers entry of its
   first component is this bond *)
Definition ct_consistent_b (atoms : list patom) (paths : list (list Z)) : bool :=
  forallb (fun nx => match nb_st (snd nx) with
                     | None => true
                     | Some _ => match zget (terminals_of paths) (fst nx) with
                                 | None => false
                                 | Some (tn, _) => match zget (centers_of paths) tn with
                                                   | None => false
                                                   | Some (c1, c2) => bond_hit c1 c2 (fst nx) (nb_m (snd nx))
                                                   end
                                 end
                     end) (mol_fwd [] atoms).

(* both directions of a bond carry the same label (one Bond object) *)
Definition labels_sym_b (atoms : list patom) : bool :=
  forallb (fun a => forallb (fun x => match find_atom atoms (nb_m x) with
                                      | Some b => match zget (pa_nbrs b) (pa_n a) with
                                                  | Some (_, l) => option_eqb Bool.eqb l (nb_st x)
                                                  | None => false
                                                  end
                                      | None => false
                                      end) (pa_nbrs a)) atoms.

(* the finding: C/S(C)(=C(/F)Cl)=C(F)Cl -- two stereogenic double bonds 4=2 and 7=2 share the sulfur atom 2, which
   comes before atom 4; the label is on 2=4 *)
Definition ct_shared_atoms : list patom :=
  [mkPAtom 1 6 None None (Some 3) 0 false [0; 0; 0; 0] [(2, (1, None))];
   mkPAtom 2 16 None None None 0 false [0; 0; 0; 0] [(1, (1, None)); (3, (1, None)); (4, (2, Some false)); (7, (2, None))];
   mkPAtom 3 6 None None (Some 3) 0 false [0; 0; 0; 0] [(2, (1, None))];
   mkPAtom 4 6 None None (Some 0) 0 false [0; 0; 0; 0] [(2, (2, Some false)); (5, (1, None)); (6, (1, None))];
   mkPAtom 5 9 None None (Some 0) 0 false [0; 0; 0; 0] [(4, (1, None))];
   mkPAtom 6 17 None None (Some 0) 0 false [0; 0; 0; 0] [(4, (1, None))];
   mkPAtom 7 6 None None (Some 0) 0 false [0; 0; 0; 0] [(2, (2, None)); (8, (1, None)); (9, (1, None))];
   mkPAtom 8 9 None None (Some 0) 0 false [0; 0; 0; 0] [(7, (1, None))];
   mkPAtom 9 17 None None (Some 0) 0 false [0; 0; 0; 0] [(7, (1, None))]].
Definition ct_shared_paths : list (list Z) := [[4; 2]; [7; 2]].
