(* Model of LinearFingerprint.linear_hash_smiles (chython/algorithms/fingerprints/linear.py) (C17, extension 3).

     out = defaultdict(set)
     for frg, chains in self._fragments(min_radius, max_radius).items():
         chain = chains[0]
         smiles = ''.join([format_atom(chain[0])] + [format_bond(x, y) + format_atom(y) for x, y in zip(chain, chain[1:])])
         for cnt in range(min(len(chains), number_bit_pairs)):
             out[hash(( *frg, cnt))].add(smiles)
     return {k: sorted(v) for k, v in out.items()}

   Not modelled, taken as INPUTS (observed on the implementation by the correspondence check):
     - chs: the iteration order of the set returned by _chains (CPython set order), which fixes the order in which the
       lists of _fragments are filled and therefore chains[0];
     - fa n = self._format_atom(n, None, stereo=False), fb n m = self._format_bond(n, m, None, stereo=False, aromatic=False):
       the SMILES writer's spelling of one atom / one bond.
   The value of a key is a set of strings, modelled as a duplicate-free list in insertion order (the final sorted() of
   a set is a function of the set; the comparison with the implementation is as sets). *)
From Coq Require Import ZArith List Bool String.
From Model Require Import PyBase Graph PyHash Fingerprint.
Import ListNotations.
Open Scope Z_scope.

Section Spelling.
  Variable fa : Z -> string.
  Variable fb : Z -> Z -> string.

  Fixpoint spell_tail (x : Z) (r : list Z) : string :=
    match r with
    | [] => EmptyString
    | y :: r' => append (fb x y) (append (fa y) (spell_tail y r'))
    end.
  Definition spell (c : path) : string :=
    match c with [] => EmptyString | x :: r => append (fa x) (spell_tail x r) end.

  (* out[k].add(s) on a defaultdict(set) *)
  Fixpoint sdict_add (d : list (Z * list string)) (k : Z) (s : string) : list (Z * list string) :=
    match d with
    | [] => [(k, [s])]
    | (k', vs) :: r => if k =? k' then (k', if smem s vs then vs else vs ++ [s]) :: r else (k', vs) :: sdict_add r k s
    end.
  Definition sdict_add_all (d : list (Z * list string)) (k : Z) (ss : list string) : list (Z * list string) :=
    fold_left (fun d s => sdict_add d k s) ss d.

  Variable h : list Z -> Z.
  Variable nbp : Z.

  (* one fragment: the spellings attached to each of its hashes *)
  Definition entry_hashes (e : list Z * list path) : list Z :=
    map (fun cnt => h (fst e ++ [cnt])) (zrange 0 (Z.min (len_z (snd e)) (cap nbp))).

  (* the code: the spelling of chains[0] only *)
  Definition lhs_entry (d : list (Z * list string)) (e : list Z * list path) : list (Z * list string) :=
    let smi := spell (hd [] (snd e)) in
    fold_left (fun d k => sdict_add d k smi) (entry_hashes e) d.
  Definition lhs_of (frs : list (list Z * list path)) : list (Z * list string) := fold_left lhs_entry frs [].

  (* the suggested fix: the spellings of ALL chains of the fragment, both directions when the key is a palindrome *)
  Definition all_spellings (e : list Z * list path) : list string :=
    map spell (snd e) ++ (if list_eqb Z.eqb (fst e) (rev (fst e)) then map (fun c => spell (rev c)) (snd e) else []).
  Definition lhs_entry_fixed (d : list (Z * list string)) (e : list Z * list path) : list (Z * list string) :=
    fold_left (fun d k => sdict_add_all d k (all_spellings e)) (entry_hashes e) d.
  Definition lhs_of_fixed (frs : list (list Z * list path)) : list (Z * list string) := fold_left lhs_entry_fixed frs [].
End Spelling.

(* number_bit_pairs = 0 means "no cap" exactly as in linear_hash_set (cap) *)
Definition linear_hash_smiles_with (fa : Z -> string) (fb : Z -> Z -> string) (h : list Z -> Z)
    (idd : list (Z * Z)) (g : mol) (chs : list path) (nbp : Z) : list (Z * list string) :=
  lhs_of fa fb h nbp (fragments_of (ident idd) (bond_order g) chs).
Definition linear_hash_smiles_fixed_with (fa : Z -> string) (fb : Z -> Z -> string) (h : list Z -> Z)
    (idd : list (Z * Z)) (g : mol) (chs : list path) (nbp : Z) : list (Z * list string) :=
  lhs_of_fixed fa fb h nbp (fragments_of (ident idd) (bond_order g) chs).

(* lookup: out.get(k, empty set) *)
Fixpoint sget (d : list (Z * list string)) (k : Z) : list string :=
  match d with
  | [] => []
  | (k', vs) :: r => if k =? k' then vs else sget r k
  end.

(* spelling tables observed on the implementation, as functions *)
Definition fa_of (t : list (Z * string)) (n : Z) : string := match zget t n with Some s => s | None => EmptyString end.
Definition fb_of (t : list (Z * list (Z * string))) (n m : Z) : string :=
  match zget t n with Some l => fa_of l m | None => EmptyString end.
