(* C15 -- str() of a condensed graph: Smiles._smiles (chython/algorithms/smiles.py) run on a CGRContainer with
   CGRSmiles._smiles_order (Morgan.atoms_order), CGRSmiles._format_atom / _format_bond and no CX part.
   The traversal itself (start atom, BFS labels, DFS with ring closures, flattening, closure numbers, emission) is the
   model of C02, Model.Writer, used unchanged: it only looks at the adjacency, at the weights and at int(bond) of the bond to
   the parent, so the condensed graph is handed to it as the skeleton molecule [enc h c] whose bond "orders" are
   int(DynamicBond) = hash((order or 0, p_order or 0)).  Only `component` is restated here with the two token functions as
   parameters (Writer.component fixes them to the molecule's).  Definitions only; proofs in Proofs.CgrWriterProofs. *)
From Coq Require Import ZArith List String Bool.
From Model Require Import PyBase Graph Morgan Writer Compose CgrMorgan.
Import ListNotations.
Open Scope Z_scope.

(* ---------- Writer.component / components / smiles_tokens with the token functions as parameters ---------- *)
Section GenericTokens.
  Variable g : mol.
  Variable w tb : Z -> Z.
  Variable o : opts.
  Variable fat : Z -> pyres string.            (* _format_atom(n, adjacency): CGRSmiles ignores the adjacency *)
  Variable fa : Z -> Z -> pyres string.        (* _format_bond(n, m, adjacency) *)

  Definition gcomponent (all : list Z) (st : wstate) : pyres wstate :=
    match traverse g w tb o all st with
    | Err e => Err e
    | Ok t =>
      let d := tr_dfs t in
      match flatten g t with
      | Err e => Err e
      | Ok smi =>
        let ro := ring_positions (ds_tokens d) smi 0 in
        match number_atoms (ds_tokens d) ro ro (ws_casted st) (ws_heap st) with
        | Err e => Err e
        | Ok (casted, heap) =>
          let '(tokens, visited) := order_neighbours smi casted (ds_edges d) (ds_tokens d) (ds_visited d) in
          match Writer.emit o fat fa smi tokens casted (ws_vb st) with
          | Err e => Err e
          | Ok (out, ord, vb) =>
            let rest := filter (fun n => negb (zhas visited n)) (ws_atoms st) in
            Ok (mkW rest (tr_seen t) (ds_cycle d) casted heap
                    (ws_out st ++ out ++ match rest with [] => [] | _ => [ODot] end)
                    (ws_order st ++ ord) vb)
          end
        end
      end
    end.

  Fixpoint gcomponents (fuel : nat) (all : list Z) (st : wstate) : pyres wstate :=
    match fuel with
    | O => Err OtherError
    | S f => match gcomponent all st with
             | Err e => Err e
             | Ok st' => match ws_atoms st' with
                         | [] => Ok st'
                         | _ => gcomponents f all st'
                         end
             end
    end.

  (* ''.join(smiles), order;  `smiles, order = self._smiles(...)` on an empty container unpacks [] : ValueError *)
  Definition gsmiles_text : pyres (string * list Z) :=
    match ids g with
    | [] => Err ValueError
    | _ => match gcomponents (S (n_atoms g)) (ids g) (init_state g) with
           | Err e => Err e
           | Ok st => Ok (spell (ws_out st), ws_order st)
           end
    end.
End GenericTokens.

(* ---------- the condensed graph as input of the traversal ---------- *)
Section CgrWriter.
  Variable h : list Z -> Z.
  Definition enc (c : cgr) : mol :=
    mkMol (map (fun na => (fst na, mkAtom (d_num (snd na)) None 0 false None None)) (c_atoms c))
          (map (fun nl => (fst nl, map (fun mb => (fst mb, mkBond (dbond_int h (snd mb)) None)) (snd nl))) (c_adj c)).

  (* organic_set of chython/algorithms/smiles.py (compared with the source on every run: Gen.CgrTables) *)
  Definition cgr_organic : list string := ["C"; "N"; "O"; "P"; "S"; "F"; "Cl"; "Br"; "I"; "B"]%string.
  Definition some_ok (x : option string) : pyres string := match x with Some s => Ok s | None => Err KeyError end.
  (* CGRSmiles._format_atom: atomic_symbol from the element table (Gen.Elements), organic_set as in the molecule writer,
     str(isotope) when the isotope is truthy; KeyError for a charge pair outside dyn_charge_str *)
  Definition cgr_fat (c : cgr) (n : Z) : pyres string :=
    match catom c n with
    | None => Err KeyError
    | Some a =>
        match symbol_of_num (d_num a) with
        | None => Err KeyError
        | Some sym =>
            some_ok (cgr_atom_str sym (smem sym cgr_organic)
                                  (match d_iso a with Some i => if i =? 0 then None else Some (str_Z i) | None => None end) a)
        end
    end.
  (* CGRSmiles._format_bond *)
  Definition cgr_fa (c : cgr) (n m : Z) : pyres string :=
    match cbond c n m with None => Err KeyError | Some b => some_ok (cgr_bond_str b) end.

  (* Smiles._smiles(weights) + join, on a condensed graph, for given weights and tie-break priorities *)
  Definition cgr_smiles_text (c : cgr) (w tb : Z -> Z) : pyres (string * list Z) :=
    gsmiles_text (enc c) w tb default_opts (cgr_fat c) (cgr_fa c).
  (* str(cgr): the weights are Morgan.atoms_order; tb stands for CPython's set iteration order *)
  Definition cgr_str (c : cgr) (tb : Z -> Z) : pyres (string * list Z) :=
    match cgr_atoms_order h c with
    | Ok l => cgr_smiles_text c (lbl l) tb
    | Err e => Err e
    end.
End CgrWriter.
