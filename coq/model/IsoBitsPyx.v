(* C09 extension 3 -- the loop of chython/algorithms/_isomorphism.pyx:get_mapping with its two scratch arrays made explicit:
     matched  : bint[atoms_count]                 (memset 0; set when an atom is appended to path, cleared on a dead end)
     closures : unsigned long long[atoms_count]   (memset 0; filled for one candidate, read, and nulled again)
   Model.IsoBits.mask_search represents `matched` by membership in the path and `closures` by a fresh lookup per candidate
   (closures_at); here both are C arrays (lists with in-place writes) threaded through the loop exactly as the .pyx does, and
   proofs/IsoBitsPyxProofs.v shows that this changes nothing (pyx_search = mask_search).  Definitions only. *)
From Coq Require Import ZArith List Bool Lia.
From Model Require Import PyBase PeriodicTable IsoBits.
Import ListNotations.
Open Scope Z_scope.

(* C arrays: a read outside the allocation yields the default (the C code never does it on well-formed buffers), a write outside
   is dropped *)
Fixpoint aset_nat {A} (l : list A) (i : nat) (v : A) : list A :=
  match l, i with
  | [], _ => []
  | _ :: r, O => v :: r
  | x :: r, S k => x :: aset_nat r k v
  end.
Definition aset {A} (l : list A) (i : Z) (v : A) : list A := if i <? 0 then l else aset_nat l (Z.to_nat i) v.
Definition aget {A} (l : list A) (i : Z) (d : A) : A := znth l i d.

Section PyxLoop.
  Variable qu : query_t.
  Variable mo : molecule_t.
  Variable scope : list bool.

  Definition natoms : nat := List.length (mo_atoms mo).
  Definition last_depth : nat := Nat.pred (List.length (qu_atoms qu)).

  (* `if path_size != depth: for i in range(depth, path_size): matched[path[i]] = False` then `matched[n] = True` *)
  Definition unmark (matched : list bool) (path : list Z) (depth : nat) : list bool :=
    fold_left (fun mt x => aset mt x false) (skipn depth path) matched.

  (* the closure part of one candidate m (entered when q_atom.closure != 0): fill, count, compare, null *)
  Definition fill_closures (mb : list bond_t) (matched : list bool) (base : Z) (closures : list Z) : Z * list Z :=
    fold_left (fun st j => if negb (bt_index j =? base) && aget matched (bt_index j) false
                           then (fst st + 1, aset (snd st) (bt_index j) (bt_bond j)) else st) mb (0, closures).
  Definition null_closures (mb : list bond_t) (closures : list Z) : list Z :=
    fold_left (fun cl j => aset cl (bt_index j) 0) mb closures.

  (* one candidate of the neighbour loop: does it get pushed, and the closures array afterwards *)
  Definition pyx_cand (front : nat) (path : list Z) (matched : list bool) (base : Z) (i_bond : bond_t) (closures : list Z)
    : bool * list Z :=
    let qa := q_atom qu (Z.of_nat front) in
    let m := bt_index i_bond in
    let mb := m_bonds_of mo m in
    if znth scope m false && negb (aget matched m false) &&
       mask_match_next (qa_mask qa) (bt_bond i_bond) (ma_bits (m_atom mo m)) then
      if negb (qa_closure qa =? 0) then
        let '(counter, cl1) := fill_closures mb matched base closures in
        let ok := (counter =? qa_closure qa) &&
                  forallb (fun jq => closure_ok (bt_bond jq) (aget cl1 (znth path (bt_index jq) 0) 0))
                          (slice (qa_from qa) (qa_to qa) (qu_bonds qu)) in
        (ok, null_closures mb cl1)
      else (negb (existsb (fun j => negb (bt_index j =? base) && aget matched (bt_index j) false) mb), closures)
    else (false, closures).

  (* the neighbour loop: candidates in order, the closures array threaded through *)
  Fixpoint pyx_scan (front : nat) (path : list Z) (matched : list bool) (base : Z) (nb : list bond_t) (closures : list Z)
    : list Z * list Z :=
    match nb with
    | [] => ([], closures)
    | i_bond :: r =>
        let '(ok, cl') := pyx_cand front path matched base i_bond closures in
        let '(cs, cl'') := pyx_scan front path matched base r cl' in
        (if ok then bt_index i_bond :: cs else cs, cl'')
    end.

  (* one iteration state, for the trace correspondence: (popped atom, depth, path after the step, matched atoms, stack size) *)
  Definition trace_t := (Z * nat * list Z * list Z * nat)%type.
  Definition marked (matched : list bool) : list Z :=
    map fst (filter (fun p => snd p) (combine (zrange 0 (zlen matched)) matched)).

  Fixpoint pyx_dfs (fuel : nat) (stack : list (Z * nat)) (path : list Z) (matched : list bool) (closures : list Z)
           (acc : list (list Z)) (tr : list trace_t) : option (list (list Z) * list trace_t * list Z) :=
    match fuel with
    | O => None
    | S f =>
        match stack with
        | [] => Some (rev acc, rev tr, closures)
        | (n, depth) :: st =>
            if Nat.eqb depth last_depth then
              pyx_dfs f st path matched closures ((firstn depth path ++ [n]) :: acc)
                      ((n, depth, path, marked matched, List.length st) :: tr)
            else
              let matched1 := aset (unmark matched path depth) n true in
              let path' := firstn depth path ++ [n] in
              let front := S depth in
              let qa := q_atom qu (Z.of_nat front) in
              let base := if negb (qa_back qa =? Z.of_nat depth) then znth path' (qa_back qa) 0 else n in
              let '(cs, closures') := pyx_scan front path' matched1 base (m_bonds_of mo base) closures in
              let st' := rev (map (fun c => (c, front)) cs) ++ st in
              pyx_dfs f st' path' matched1 closures' acc ((n, depth, path, marked matched, List.length st) :: tr)
        end
    end.

  Definition pyx_run (fuel : nat) : option (list (list Z) * list trace_t * list Z) :=
    pyx_dfs fuel (init_stack (zlen (mo_atoms mo)) (mask_first qu mo scope)) []
            (repeat false natoms) (repeat 0 natoms) [] [].
  Definition pyx_search (fuel : nat) : option (list (list Z)) :=
    option_map (fun r => fst (fst r)) (pyx_run fuel).
End PyxLoop.

(* bond records of the molecule buffer point to atoms of the buffer (what _cython_compiled_structure writes) *)
Definition mo_ok (mo : molecule_t) : Prop := Forall (fun j => 0 <= bt_index j < zlen (mo_atoms mo)) (mo_bonds mo).
Definition mo_okb (mo : molecule_t) : bool := forallb (fun j => (0 <=? bt_index j) && (bt_index j <? zlen (mo_atoms mo))) (mo_bonds mo).
