(* C03: the neighbour-order table of a syntax tree, read off the preorder events without the parser machine.
   For every atom the list of its partners in the order the text introduces them: the parent (when bonded), one entry per
   ring digit written after the atom (the partner of the digit: its open partner `opener` if it closes, else the atom of the next
   occurrence of the digit `closer`, None when there is none), the bonded children.  Keys in order of first mention. *)
From Coq Require Import ZArith List String Ascii Bool.
From Model Require Import PyBase Tokenize Parser SmilesAst SmilesGraph.
Import ListNotations.
Open Scope Z_scope.

(* the atom of the next occurrence of ring digit k *)
Fixpoint closer (rest : list ev) (k : Z) : option Z :=
  match rest with
  | [] => None
  | ER y _ k' :: r => if k' =? k then Some y else closer r k
  | _ :: r => closer r k
  end.

Definition bonded (hist : list ev) (b : option token) : bool := negb ((n_atoms hist =? 0) || is_dot b).

(* what event e (events before it: hist, after it: rest) adds to the neighbour list of atom n *)
Definition slots (hist : list ev) (e : ev) (rest : list ev) (n : Z) : list (option Z) :=
  match e with
  | EA par b _ _ =>
      if bonded hist b then (if n =? par then [Some (n_atoms hist)] else []) ++ (if n =? n_atoms hist then [Some par] else []) else []
  | ER y _ k =>
      if n =? y then [match opener hist k with Some (x, _) => Some x | None => closer rest k end] else []
  end.
(* events `a` with the events `f` known to follow them *)
Fixpoint nf (hist a f : list ev) (n : Z) : list (option Z) :=
  match a with [] => [] | e :: r => slots hist e (r ++ f) n ++ nf (hist ++ [e]) r f n end.
Definition ev_nbrs (E : list ev) (n : Z) : list (option Z) := nf [] E [] n.

(* atoms in order of first mention in the table *)
Definition touches (hist : list ev) (e : ev) : list Z :=
  match e with EA par b _ _ => if bonded hist b then [par; n_atoms hist] else [] | ER y _ _ => [y] end.
Fixpoint touch_from (hist a : list ev) : list Z := match a with [] => [] | e :: r => touches hist e ++ touch_from (hist ++ [e]) r end.
Definition add_key (acc : list Z) (x : Z) : list Z := if zmem x acc then acc else acc ++ [x].
Definition ev_keys (E : list ev) : list Z := fold_left add_key (touch_from [] E) [].

Definition ev_order (E : list ev) : odict := map (fun n => (n, ev_nbrs E n)) (ev_keys E).
Definition denote_order (t : tree) : odict := ev_order (flat t 0 None 0).

(* ---- text form (correspondence) *)
Open Scope string_scope.
Definition show_order (o : odict) : string :=
  show_list (fun kv => show_z (fst kv) ++ ":[" ++ String.concat "." (map (show_opt show_z) (snd kv)) ++ "]") o.
Definition b_order (inputs : list tree) := batch (fun t => show_order (denote_order t)) inputs.
Close Scope string_scope.
