(* C14 third wave -- AcidBase._neutralize / neutralize (chython/algorithms/tautomers/acid_base.py), keep_charge=True and False:
   protons are MOVED between donor and acceptor sites.  Inputs of the model (not modelled): the donor / acceptor atoms the
   stripped acid / base patterns match, and -- for unbalanced salts -- the combination of sites of the larger side that
   itertools.combinations over a Python set yields first (`chosen`). *)
From Coq Require Import ZArith List String Bool.
From Model Require Import PyBase Graph PeriodicTable Standardize.
Import ListNotations.
Open Scope Z_scope.

(* a._implicit_hydrogens += d; a._charge += d *)
Definition shift_proton (d : Z) (a : atom) : atom :=
  mkAtom (a_num a) (a_iso a) (a_chg a + d) (a_rad a) (option_map (fun h => h + d) (a_h a)) (a_stereo a).
Definition shift_all (d : Z) (g : mol) (ns : list Z) : mol := fold_left (fun g n => upd_atom g n (shift_proton d)) ns g.
(* donors lose a proton, acceptors gain one *)
Definition move_protons (g : mol) (minus plus : list Z) : mol := shift_all 1 (shift_all (-1) g minus) plus.

(* next(self._neutralize(keep_charge)): None = StopIteration (nothing to do) *)
Definition neutralize_model (keep_charge : bool) (g : mol) (donors acceptors chosen : list Z) : option mol :=
  if keep_charge then
    match donors, acceptors with
    | [], _ | _, [] => None                                  (* neutralization impossible *)
    | _, _ =>
        if (List.length acceptors <? List.length donors)%nat then Some (move_protons g chosen acceptors)       (* combinations(donors, len(acceptors)) *)
        else if (List.length donors <? List.length acceptors)%nat then Some (move_protons g donors chosen)     (* combinations(acceptors, len(donors)) *)
        else Some (move_protons g donors acceptors)
    end
  else match donors, acceptors with
       | [], [] => None
       | _, _ => Some (move_protons g donors acceptors)
       end.

(* correspondence: self._atoms = mol._atoms; bonds untouched *)
Definition neutralize_ok (keep_charge : bool) (g0 : mol) (donors acceptors chosen : list Z) (res : option mol) : bool :=
  match neutralize_model keep_charge g0 donors acceptors chosen, res with
  | Some g', Some g1 => mol_eqb g' g1
  | None, None => true
  | _, _ => false
  end.
