(* C10: the version 0 layout (legacy packs; the repository has no version 0 writer, so the layout is declarative only).
   It differs from version 2 in the version byte and in the bond order block: 5 orders per 2 bytes -- one zero bit, then
   five 3-bit fields; the last group is padded with zero fields. *)
From Coq Require Import ZArith List Bool.
From Model Require Import PyBase Pack PackSpec.
Import ListNotations.
Open Scope Z_scope.

Definition v0_group_bits (a b c d e : Z) : list bool := false :: bits3 a ++ bits3 b ++ bits3 c ++ bits3 d ++ bits3 e.
Definition v0_group_bytes (g : Z * Z * Z * Z * Z) : list Z :=
  let '(a, b, c, d, e) := g in bytes_of_bits (v0_group_bits a b c d e).
Definition v0_group_orders (g : Z * Z * Z * Z * Z) : list Z := let '(a, b, c, d, e) := g in [a; b; c; d; e].
Definition v0_group_ok (g : Z * Z * Z * Z * Z) : Prop :=
  let '(a, b, c, d, e) := g in 0 <= a < 8 /\ 0 <= b < 8 /\ 0 <= c < 8 /\ 0 <= d < 8 /\ 0 <= e < 8.

(* order codes in groups of five, the last group zero padded *)
Fixpoint groups5 (os : list Z) : list (Z * Z * Z * Z * Z) :=
  match os with
  | [] => []
  | [a] => [(a, 0, 0, 0, 0)]
  | [a; b] => [(a, b, 0, 0, 0)]
  | [a; b; c] => [(a, b, c, 0, 0)]
  | [a; b; c; d] => [(a, b, c, d, 0)]
  | a :: b :: c :: d :: e :: r => (a, b, c, d, e) :: groups5 r
  end.

Definition v0_order_bits (os : list Z) : list bool :=
  flat_map (fun g => let '(a, b, c, d, e) := g in v0_group_bits a b c d e) (groups5 os).

(* the whole version 0 pack as one bit stream: as layout_v2 with version byte 0 and the version 0 order block *)
Definition layout_v0 (m : pmol) : list bool :=
  let atoms := pm_atoms m in
  let f := mol_fwd [] atoms in
  bits_of 8 0 ++ bits_of 12 (Z.of_nat (length atoms)) ++ bits_of 12 (pm_ct_count m) ++
  flat_map atom_bits atoms ++
  flat_map (bits_of 12) (mol_conns atoms) ++
  v0_order_bits (fwd_orders f) ++
  flat_map ct_bits (fwd_ct (pm_terminals m) f).
