(* Semantic primitives for the TRANSLATED numbering code of chython/files/_mapping.py (tools/gen_c03map.py -> Gen.MappingBody).
   The locals of the numbering loops: the list being built (`remapped` / `_remap`), the set `used`, the counter `length`
   (itertools.count: n_next is the value the next call of next(length) returns).  An atom's map `m` is an integer, None counted as 0
   (x.get('parsed_mapping') is None or an int; the code only tests `not m` / membership / appends it). *)
From Coq Require Import ZArith List Bool.
From Model Require Import PyBase.
Import ListNotations.
Open Scope Z_scope.

Record nstate := mkN { n_out : list Z; n_used : list Z; n_next : Z }.
(* <list>.append(next(length)) *)
Definition n_append_next (st : nstate) : nstate := mkN (n_out st ++ [n_next st]) (n_used st) (n_next st + 1).
(* <list>.append(m) *)
Definition n_append (st : nstate) (m : Z) : nstate := mkN (n_out st ++ [m]) (n_used st) (n_next st).
(* used.add(m) *)
Definition n_use (st : nstate) (m : Z) : nstate := mkN (n_out st) (m :: n_used st) (n_next st).
(* for m in <maps>: <step> *)
Fixpoint nfold (f : nstate -> Z -> pyres nstate) (st : nstate) (l : list Z) : pyres nstate :=
  match l with
  | [] => Ok st
  | m :: r => match f st m with Ok st' => nfold f st' r | Err e => Err e end
  end.
(* max(<generator>) : ValueError on an empty sequence *)
Definition py_max (l : list Z) : pyres Z :=
  match l with [] => Err ValueError | x :: r => Ok (fold_left Z.max r x) end.
Definition nbind {A B} (r : pyres A) (f : A -> pyres B) : pyres B := match r with Ok v => f v | Err e => Err e end.
(* max(<list>, default=d) *)
Definition py_max_default (l : list Z) (d : Z) : Z := match l with [] => d | x :: r => fold_left Z.max r x end.
