(* C10: runtime of the generated ReactionContainer.pack body (coq/gen/PackRxnGen.v) *)
From Coq Require Import ZArith List Bool.
From Model Require Import PyBase Pack PackTop.
Import ListNotations.
Open Scope Z_scope.

(* bytearray((..)): ValueError unless every element is in range(256) *)
Definition py_bytearray (l : list Z) : pyres (list Z) :=
  if forallb (fun x => (0 <=? x) && (x <=? 255)) l then Ok l else Err ValueError.
(* a generator of calls consumed in order: the first exception propagates *)
Fixpoint py_map_m {A B : Type} (f : A -> pyres B) (l : list A) : pyres (list B) :=
  match l with
  | [] => Ok []
  | x :: r => match f x with
              | Err e => Err e
              | Ok y => match py_map_m f r with Err e => Err e | Ok ys => Ok (y :: ys) end
              end
  end.
