(* C09 -- the guard of QueryIsomorphism.get_mapping since d9d8bf3: two statements.
     if _cython and any(a.implicit_hydrogens is None for _, a in other.atoms()): _cython = False
     if _cython and (any(r > 65 for _, a in other.atoms() for r in a.ring_sizes) or
                     any(r > 65 for _, a in self.atoms() if not isinstance(a, AnyMetal) for r in a.ring_sizes)): _cython = False
   The second one looks at the WHOLE query (all components), so the choice of the path is a function of the flag, the query and the
   molecule.  Definitions only. *)
From Coq Require Import ZArith List Bool.
From Model Require Import PyBase PeriodicTable IsoBits IsoBitsExt.
From Model Require Iso.
Import ListNotations.
Open Scope Z_scope.

Definition is_metal_q (q : qatom) : bool := match q with QMetal _ _ => true | _ => false end.
(* a.ring_sizes of a query atom that has the attribute *)
Definition qa_rings (q : qatom) : list Z :=
  match q with QElem _ _ x => x_rings x | QAny x => x_rings x | QList _ x => x_rings x | QMetal _ _ => [] end.

Definition big_ring_mol (rm : list ratom) : bool :=
  existsb (fun a => existsb (fun r => 65 <? r) (la_rings (ra_atom a))) rm.
Definition big_ring_query (comps : list (list rqent)) : bool :=
  existsb (fun rq => existsb (fun e => negb (is_metal_q (rq_atom e)) && existsb (fun r => 65 <? r) (qa_rings (rq_atom e))) rq) comps.

(* is the bit-mask matcher used for the call `query.get_mapping(other, _cython=cython)` *)
Definition uses_mask_path2 (cython : bool) (comps : list (list rqent)) (rm : list ratom) : bool :=
  cython && negb (has_unknown_h rm) && negb (big_ring_mol rm || big_ring_query comps).

(* the public call since d9d8bf3: the wrapper of Model.IsoBitsExt under the flag the two guard statements leave *)
Definition public_get_mapping2 (stereo_ok : Iso.mapping -> bool) (cython : bool) (comps : list (list rqent)) (rm : list ratom)
           (tcomps : list (list Z)) (flt : bool) (scope : option (list Z)) (fuel : nat) : list Iso.mapping :=
  public_get_mapping stereo_ok (uses_mask_path2 cython comps rm) comps rm tcomps flt scope fuel.

(* ring sizes above 65 replaced by 65: "x is well formed up to the upper bound of the ring sizes" is stated as "cap x is well formed" *)
Definition cap_rings (l : list Z) : list Z := map (fun r => Z.min r 65) l.
Definition cap_atom (a : latom) : latom :=
  mkLA (la_num a) (la_iso a) (la_chg a) (la_rad a) (la_nb a) (la_hyb a) (la_h a) (la_het a) (cap_rings (la_rings a)).
Definition cap_mol (rm : list ratom) : list ratom := map (fun a => mkRA (ra_num a) (cap_atom (ra_atom a)) (ra_nbrs a)) rm.
Definition cap_x (x : qx) : qx := mkQX (x_chg x) (x_rad x) (x_nb x) (x_hyb x) (x_h x) (x_het x) (cap_rings (x_rings x)).
Definition cap_q (q : qatom) : qatom :=
  match q with QElem n i x => QElem n i (cap_x x) | QAny x => QAny (cap_x x) | QList l x => QList l (cap_x x) | QMetal a b => QMetal a b end.
Definition cap_comps (comps : list (list rqent)) : list (list rqent) :=
  map (map (fun e => mkRQ (rq_num e) (rq_back e) (cap_q (rq_atom e)) (rq_bond e) (rq_clos e))) comps.
