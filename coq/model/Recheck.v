(* C03 extension: the hydrogen recheck / radical decision tree of chython/files/_convert.py : create_molecule (the loop
   `for n, a in atoms.items()` after calc_labels, and the ignore_carbon_radicals pass), on top of Model.Valence (C04, read-only:
   calc_implicit, check_implicit, calc_labels_atom over the element tables of Gen.Elements), and smiles() with it.

   smiles() calls create_molecule with keep_radicals=False; the other switches are parameters (rflags).
   For every atom, in insertion order and independently of the other atoms' outcome (calc_implicit / check_implicit read only the
   atom's own charge / radical flag and the neighbours' elements and bond orders):
     recheck_atom fl g n parsed_h : the final (implicit_hydrogens, is_radical), whether the atom was "radicalized", and the
                                     entry of chython_implicit_mismatch - or the ValueError raised when `ignore` is off.
   read_full = Reader.read followed by the recheck of every molecule built. *)
From Coq Require Import ZArith List String Ascii Bool.
From Model Require Import PyBase Graph Valence Tokenize Parser Reader.
From Gen Require Import Elements.
Import ListNotations.
Open Scope Z_scope.

Record rflags := mkFlags {
  f_ignore : bool;                     (* ignore *)
  f_keep_implicit : bool;              (* keep_implicit *)
  f_ignore_aromatic_radicals : bool;   (* ignore_aromatic_radicals *)
  f_ignore_carbon_radicals : bool      (* ignore_carbon_radicals *)
}.

Record aout := mkOut {
  o_h : option Z;              (* atom.implicit_hydrogens at the end *)
  o_rad : bool;                (* atom.is_radical at the end *)
  o_radicalized : bool;        (* n was appended to `radicalized` *)
  o_mismatch : option Z        (* implicit_mismatch[n] *)
}.

(* the molecule create_molecule has built before the recheck: elements, isotopes, charges, CX radical flags, bonds *)
Definition atom_of_rec (x : atomtok * bool) : option atom :=
  match find_element (at_el (fst x)) with
  | Some e => Some (mkAtom (e_num e) (at_iso (fst x)) (at_chg (fst x)) (snd x) (at_h (fst x)) None)
  | None => None
  end.
Fixpoint atoms_of_rec (l : list (Z * (atomtok * bool))) : option (list (Z * atom)) :=
  match l with
  | [] => Some []
  | (n, x) :: r => match atom_of_rec x, atoms_of_rec r with Some a, Some r' => Some ((n, a) :: r') | _, _ => None end
  end.
Definition mol_of_molrec (m : molrec) : option mol :=
  match atoms_of_rec (mr_atoms m) with
  | Some ats => Some (mkMol ats (map (fun na : Z * (atomtok * bool) =>
                                       (fst na, map (fun mo : Z * Z => (fst mo, mkBond (snd mo) None)) (adj_of (mr_bonds m) (fst na)))) (mr_atoms m)))
  | None => None
  end.

Definition with_rad (g : mol) (n : Z) (r : bool) : mol :=
  mkMol (map (fun na => if fst na =? n then (fst na, mkAtom (a_num (snd na)) (a_iso (snd na)) (a_chg (snd na)) r (a_h (snd na)) (a_stereo (snd na)))
                        else na) (m_atoms g))
        (m_adj g).
(* sum(b != 8 for b in bonds[n].values()) *)
Definition non8_count (g : mol) (n : Z) : Z := Z.of_nat (List.length (filter (fun mb : Z * bond => negb (b_ord (snd mb) =? 8)) (nbrs g n))).
(* a in (B, C, N, P) *)
Definition is_bcnp (num : Z) : bool := zmem num [5; 6; 7; 15].

Definition bindr {A B} (r : pyres A) (k : A -> pyres B) : pyres B := match r with Ok a => k a | Err e => Err e end.

Definition recheck_atom (fl : rflags) (g : mol) (n : Z) (parsed : option Z) : pyres aout :=
  match atom_of g n with
  | None => Err KeyError
  | Some a =>
    let rad := a_rad a in
    match parsed with
    | None =>                                                   (* if a.implicit_hydrogens is None: g.calc_implicit(n) *)
        bindr (calc_implicit g n) (fun c => Ok (mkOut c rad false None))
    | Some h =>
      if f_keep_implicit fl then Ok (mkOut (Some h) rad false None)
      else
        bindr (calc_implicit g n) (fun calc =>
        bindr (calc_labels_atom g n) (fun lab =>
        let arom := l_hybridization lab =? 4 in
        let mismatch (c : option Z) (r : bool) : pyres aout :=          (* elif ignore: ... else: raise ValueError *)
            if f_ignore fl then Ok (mkOut c r false (Some h)) else Err ValueError in
        let lone_arom := (h =? 0) && (a_chg a =? 0) && negb rad && is_bcnp (a_num a) && (non8_count g n =? 2) in
        match calc with
        | None =>                                               (* atom has invalid valence or aromatic ring *)
            if arom then
              if negb (f_ignore_aromatic_radicals fl) && lone_arom then Ok (mkOut (Some h) true true None)
              else Ok (mkOut (Some h) rad false None)
            else if negb rad then
              bindr (check_implicit (with_rad g n true) n h) (fun ok =>
              if ok then Ok (mkOut (Some h) true true None) else mismatch None false)
            else Ok (mkOut None rad false None)
        | Some c =>
            if h =? c then Ok (mkOut (Some c) rad false None)
            else if arom then
              if lone_arom then Ok (mkOut (Some 0) true true None) else mismatch (Some c) rad
            else
              bindr (check_implicit g n h) (fun ok =>
              if ok then Ok (mkOut (Some h) rad false None)
              else if negb rad then
                bindr (check_implicit (with_rad g n true) n h) (fun ok2 =>
                if ok2 then Ok (mkOut (Some h) true true None) else mismatch (Some c) false)
              else mismatch (Some c) rad)
        end))
    end
  end.

(* if ignore_carbon_radicals: for n in radicalized: if atoms[n] == C: is_radical = False; implicit_hydrogens += 1 *)
Definition carbon_pass (fl : rflags) (g : mol) (n : Z) (o : aout) : aout :=
  if f_ignore_carbon_radicals fl && o_radicalized o && (match atom_of g n with Some a => a_num a =? 6 | None => false end)
  then mkOut (option_map (fun h => h + 1) (o_h o)) false true (o_mismatch o) else o.

Fixpoint recheck_loop (fl : rflags) (g : mol) (l : list (Z * atom)) : pyres (list (Z * aout)) :=
  match l with
  | [] => Ok []
  | (n, a) :: r =>
      match recheck_atom fl g n (a_h a) with
      | Err e => Err e
      | Ok o => match recheck_loop fl g r with Ok r' => Ok ((n, carbon_pass fl g n o) :: r') | Err e => Err e end
      end
  end.

Definition recheck_mol (fl : rflags) (m : molrec) : pyres (list (Z * aout)) :=
  match mol_of_molrec m with
  | None => Err OtherError                    (* every atom of a built molecule has a tabulated element *)
  | Some g => recheck_loop fl g (m_atoms g)
  end.

(* smiles(): structure as Reader.read, then the recheck of every molecule in creation order (reactants, products, reagents) *)
Inductive fresult := FMol (m : molrec) (h : list (Z * aout)) | FRxn (reactants reagents products : list (molrec * list (Z * aout))).

Fixpoint recheck_all (fl : rflags) (ms : list molrec) : pyres (list (molrec * list (Z * aout))) :=
  match ms with
  | [] => Ok []
  | m :: r => match recheck_mol fl m with
              | Err e => Err e
              | Ok h => match recheck_all fl r with Ok r' => Ok ((m, h) :: r') | Err e => Err e end
              end
  end.

Definition read_full (fl : rflags) (remap : bool) (s : string) : pyres fresult :=
  match read (f_ignore fl) remap s with
  | Err e => Err e
  | Ok (RMol m) => match recheck_mol fl m with Ok h => Ok (FMol m h) | Err e => Err e end
  | Ok (RRxn rc rg pr) =>
      match recheck_all fl rc with Err e => Err e | Ok a =>
      match recheck_all fl pr with Err e => Err e | Ok c =>
      match recheck_all fl rg with Err e => Err e | Ok b => Ok (FRxn a b c) end end end
  end.

(* ------------------------------------------------------------------------------------------------ text form (correspondence) *)
Open Scope string_scope.
(* showr: chython_radicalized_atoms is written to the meta only when ignore_carbon_radicals is off *)
Definition show_out (showr : bool) (no : Z * aout) : string :=
  show_z (fst no) ++ ":" ++ show_opt show_z (o_h (snd no)) ++ (if o_rad (snd no) then "*" else "") ++
  (if showr && o_radicalized (snd no) then "r" else "") ++ (match o_mismatch (snd no) with Some h => "m" ++ show_z h | None => "" end).
Definition show_fmol (showr : bool) (x : molrec * list (Z * aout)) : string :=
  show_molrec (fst x) ++ " # " ++ String.concat "," (map (show_out showr) (snd x)).
Definition show_fresult (showr : bool) (r : fresult) : string :=
  match r with
  | FMol m h => "M " ++ show_fmol showr (m, h)
  | FRxn a b c => "R " ++ String.concat " + " (map (show_fmol showr) a) ++ " / " ++ String.concat " + " (map (show_fmol showr) b) ++ " / " ++
                  String.concat " + " (map (show_fmol showr) c)
  end.
Definition b_readh (ignore keep_implicit iar icr remap : bool) (inputs : list string) :=
  batch (fun s => show_res (show_fresult (negb icr)) (read_full (mkFlags ignore keep_implicit iar icr) remap s)) inputs.
Close Scope string_scope.
