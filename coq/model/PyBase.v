(* Python-semantics helpers shared by the models: association lists as insertion-ordered dicts. *)
From Coq Require Import ZArith List String Bool Lia.
Import ListNotations.
Open Scope Z_scope.

Definition keys {K V : Type} (d : list (K * V)) : list K := map fst d.
Definition zmem (x : Z) (l : list Z) : bool := existsb (Z.eqb x) l.
Definition smem (x : string) (l : list string) : bool := existsb (String.eqb x) l.

Fixpoint zget {V : Type} (d : list (Z * V)) (k : Z) : option V :=
  match d with
  | [] => None
  | (k', v) :: r => if Z.eqb k k' then Some v else zget r k
  end.

(* dict(...) built from a sequence of pairs: the LAST binding of a key wins *)
Fixpoint zget_last {V : Type} (d : list (Z * V)) (k : Z) : option V :=
  match d with
  | [] => None
  | (k', v) :: r => match zget_last r k with
                    | Some w => Some w
                    | None => if Z.eqb k k' then Some v else None
                    end
  end.

Definition subset_z (a b : list Z) : bool := forallb (fun x => zmem x b) a.
Definition same_keys_z (a b : list Z) : bool := subset_z a b && subset_z b a.

Fixpoint nodup_z (l : list Z) : bool :=
  match l with
  | [] => true
  | x :: r => negb (zmem x r) && nodup_z r
  end.

Fixpoint nodup_s (l : list string) : bool :=
  match l with
  | [] => true
  | x :: r => negb (smem x r) && nodup_s r
  end.

Definition znth {A : Type} (l : list A) (i : Z) (d : A) : A :=
  if i <? 0 then d else nth (Z.to_nat i) l d.

Fixpoint zrange_from (start : Z) (n : nat) : list Z :=
  match n with O => [] | S k => start :: zrange_from (start + 1) k end.
(* range(a, b) *)
Definition zrange (a b : Z) : list Z := zrange_from a (Z.to_nat (b - a)).

Lemma zmem_In x l : zmem x l = true <-> In x l.
Proof.
  unfold zmem. rewrite existsb_exists. split.
  - intros [y [Hy He]]. apply Z.eqb_eq in He. subst. exact Hy.
  - intros H. exists x. split; [exact H | apply Z.eqb_refl].
Qed.

Lemma zrange_from_In s n x : In x (zrange_from s n) <-> s <= x < s + Z.of_nat n.
Proof.
  revert s. induction n as [|n IH]; intros s; cbn [zrange_from In].
  - lia.
  - rewrite IH. lia.
Qed.

Lemma zrange_In a b x : In x (zrange a b) <-> a <= x < b.
Proof. unfold zrange. rewrite zrange_from_In. lia. Qed.

(* ---- Python results: a value or one of the exceptions the modelled code can raise ---- *)
Inductive pyexn := KeyError | ValueError | IndexError | TypeError | StopIteration | AttributeError
                 | IncorrectSmiles | IncorrectSmarts | ValenceError | OtherError.
Inductive pyres (A : Type) := Ok (a : A) | Err (e : pyexn).
Arguments Ok {A} a.
Arguments Err {A} e.

Definition pyexn_eqb (a b : pyexn) : bool :=
  match a, b with
  | KeyError, KeyError | ValueError, ValueError | IndexError, IndexError | TypeError, TypeError
  | StopIteration, StopIteration | AttributeError, AttributeError | IncorrectSmiles, IncorrectSmiles
  | IncorrectSmarts, IncorrectSmarts | ValenceError, ValenceError | OtherError, OtherError => true
  | _, _ => false
  end.
Definition pyres_eqb {A} (eq : A -> A -> bool) (x y : pyres A) : bool :=
  match x, y with Ok a, Ok b => eq a b | Err a, Err b => pyexn_eqb a b | _, _ => false end.

(* tuple.index / list.index: position of the first occurrence; None stands for ValueError *)
Fixpoint index_from (x : Z) (l : list Z) (i : Z) : option Z :=
  match l with
  | [] => None
  | y :: r => if Z.eqb x y then Some i else index_from x r (i + 1)
  end.
Definition index_of (l : list Z) (x : Z) : option Z := index_from x l 0.

Fixpoint list_eqb {A} (eq : A -> A -> bool) (a b : list A) : bool :=
  match a, b with
  | [], [] => true
  | x :: r, y :: s => eq x y && list_eqb eq r s
  | _, _ => false
  end.
Definition option_eqb {A} (eq : A -> A -> bool) (a b : option A) : bool :=
  match a, b with Some x, Some y => eq x y | None, None => true | _, _ => false end.

(* indices of the failing cases of a correspondence batch *)
Definition failing (cases : list (nat * bool)) : list nat :=
  map fst (filter (fun c => negb (snd c)) cases).
