(* Model of the stereo post-filter of QueryIsomorphism.get_mapping (chython/algorithms/isomorphism.py, the loop after
   `for mapping in self._get_mapping(...)`), C07 extension.  The sign translation functions are C12's (Model.Stereo).

   Inputs that are OBSERVED on the target (cached properties of the molecule, C12/C06 territory), not recomputed:
   stereogenic_tetrahedrons, stereogenic_allenes, _stereo_allenes_terminals, stereogenic_cis_trans,
   _stereo_cis_trans_terminals, _stereo_cis_trans_centers, the stereo labels of atoms and bonds, which atoms are hydrogens.
   A `next(...)` that finds nothing inside the generator surfaces as RuntimeError (PEP 479): OtherError here. *)
From Coq Require Import ZArith List Bool.
From Model Require Import PyBase Stereo Iso.
Import ListNotations.
Open Scope Z_scope.

Definition env4 := (Z * Z * option Z * option Z)%type.

Record starget := mkSTarget {
  st_atom_stereo : list (Z * option bool);          (* other.atom(m).stereo, every atom *)
  st_bond_stereo : list (Z * list (Z * option bool));(* other.bond(n, m).stereo, adjacency shape *)
  st_H : list Z;                                     (* atoms equal to H *)
  st_th : list (Z * list Z);                         (* stereogenic_tetrahedrons *)
  st_al_term : list (Z * (Z * Z));                   (* _stereo_allenes_terminals *)
  st_al : list (Z * env4);                           (* stereogenic_allenes *)
  st_ct_term : list (Z * (Z * Z));                   (* _stereo_cis_trans_terminals *)
  st_ct : list (Z * list (Z * env4));                (* stereogenic_cis_trans[(n, m)] as n -> m -> env *)
  st_ct_centers : list (Z * (Z * Z))                 (* _stereo_cis_trans_centers *)
}.

Record squery := mkSQuery {
  sq_atoms : list (Z * option bool);                 (* for n, a in self.atoms(): a.stereo (None also when not an ExtendedQuery) *)
  sq_adj : list (Z * list Z);                        (* self._bonds[n], neighbour order *)
  sq_bonds : list (Z * Z * option bool)              (* for n, m, b in self.bonds(): b.stereo *)
}.

Definition isH (t : starget) (x : Z) : bool := zmem x (st_H t).

(* reverse = {m: n for n, m in mapping.items()} : the last pair with that image wins *)
Definition rev_get (mp : mapping) (y : Z) : option Z :=
  fold_left (fun acc kv => if snd kv =? y then Some (fst kv) else acc) mp None.
(* reverse.get(x) for x that may be None *)
Definition rev_get_opt (mp : mapping) (y : option Z) : option Z := match y with Some v => rev_get mp v | None => None end.

(* [mapping[x] for x in self._bonds[n]] *)
Fixpoint map_images (mp : mapping) (xs : list Z) : pyres (list Z) :=
  match xs with
  | [] => Ok []
  | x :: r => match zget mp x, map_images mp r with
              | Some y, Ok l => Ok (y :: l)
              | None, _ => Err KeyError
              | _, Err e => Err e
              end
  end.

(* mapping[next(x for x in self._bonds[t] if x in env)] *)
Definition first_in_env (q : squery) (mp : mapping) (t : Z) (env : list (option Z)) : pyres Z :=
  match zget (sq_adj q) t with
  | None => Err KeyError
  | Some nbs =>
      match find (fun x => existsb (fun e => match e with Some v => x =? v | None => false end) env) nbs with
      | None => Err OtherError                           (* StopIteration inside a generator -> RuntimeError *)
      | Some x => match zget mp x with Some y => Ok y | None => Err KeyError end
      end
  end.

(* the (n1, m1) pair handed to _translate_allene_sign / _translate_cis_trans_sign *)
Definition opposite_pair (q : squery) (mp : mapping) (ot1 ot2 : Z) (e : env4) : pyres (Z * Z) :=
  let '(on1, om1, on2, om2) := e in
  match rev_get mp ot1, rev_get mp ot2 with
  | Some t1, Some t2 =>
      let env := [rev_get mp on1; rev_get mp om1; rev_get_opt mp on2; rev_get_opt mp om2] in
      match first_in_env q mp t1 env with
      | Err x => Err x
      | Ok n1 => match first_in_env q mp t2 env with
                 | Err x => Err x
                 | Ok m1 => Ok (n1, m1)
                 end
      end
  | _, _ => Err KeyError
  end.

(* one stereo-labelled query atom: Ok true = passes, Ok false = `break  # reject mapping` *)
Definition atom_check (t : starget) (q : squery) (mp : mapping) (n : Z) (qs : bool) : pyres bool :=
  match zget mp n with
  | None => Err KeyError
  | Some m =>
      match zget (st_atom_stereo t) m with
      | None => Err KeyError
      | Some None => Ok false                            (* stereo in query should match only stereo atom *)
      | Some (Some ts) =>
          match zget (st_th t) m with
          | Some order =>
              match zget (sq_adj q) n with
              | None => Err KeyError
              | Some nbs =>
                  match map_images mp nbs with
                  | Err e => Err e
                  | Ok env => match translate_th (isH t) order env ts with
                              | Err e => Err e
                              | Ok v => Ok (Bool.eqb v qs)
                              end
                  end
              end
          | None =>                                      (* allene case *)
              match zget (st_al_term t) m, zget (st_al t) m with
              | Some (ot1, ot2), Some e =>
                  match opposite_pair q mp ot1 ot2 e with
                  | Err x => Err x
                  | Ok (n1, m1) => match translate_al (isH t) e n1 m1 ts with
                                   | Err x => Err x
                                   | Ok v => Ok (Bool.eqb v qs)
                                   end
                  end
              | _, _ => Err KeyError
              end
          end
      end
  end.

(* one stereo-labelled query bond *)
Definition bond_check (t : starget) (q : squery) (mp : mapping) (n m : Z) (qs : bool) : pyres bool :=
  match zget mp n, zget mp m with
  | Some on, Some om =>
      match zget (adj_get (st_bond_stereo t) on) om with
      | None => Err KeyError
      | Some None => Ok false                            (* chiral query bond matches only chiral molecule bond *)
      | Some (Some _) =>
          match zget (st_ct_term t) on with
          | None => Err KeyError
          | Some (ot1, ot2) =>
              match zget (adj_get (st_ct t) ot1) ot2 with
              | None => Err KeyError
              | Some e =>
                  match opposite_pair q mp ot1 ot2 e with
                  | Err x => Err x
                  | Ok (n1, m1) =>
                      (* other._translate_cis_trans_sign(ot1, ot2, n1, m1): the key (ot1, ot2) exists; s = label of the central bond *)
                      match zget (st_ct_centers t) ot1 with
                      | None => Err KeyError
                      | Some (i, j) =>
                          match zget (adj_get (st_bond_stereo t) i) j with
                          | Some (Some s) =>
                              match translate_ct (isH t) (Some e) None n1 m1 s with
                              | Err x => Err x
                              | Ok v => Ok (Bool.eqb v qs)
                              end
                          | _ => Err KeyError
                          end
                      end
                  end
              end
          end
      end
  | _, _ => Err KeyError
  end.

(* for n, a in self.atoms(): ... break / else: for n, m, b in self.bonds(): ... break / else: yield *)
Fixpoint atoms_pass (t : starget) (q : squery) (mp : mapping) (l : list (Z * option bool)) : pyres bool :=
  match l with
  | [] => Ok true
  | (n, None) :: r => atoms_pass t q mp r
  | (n, Some qs) :: r => match atom_check t q mp n qs with
                         | Err e => Err e
                         | Ok false => Ok false
                         | Ok true => atoms_pass t q mp r
                         end
  end.
Fixpoint bonds_pass (t : starget) (q : squery) (mp : mapping) (l : list (Z * Z * option bool)) : pyres bool :=
  match l with
  | [] => Ok true
  | (n, m, None) :: r => bonds_pass t q mp r
  | (n, m, Some qs) :: r => match bond_check t q mp n m qs with
                            | Err e => Err e
                            | Ok false => Ok false
                            | Ok true => bonds_pass t q mp r
                            end
  end.
Definition qstereo_ok (t : starget) (q : squery) (mp : mapping) : pyres bool :=
  match atoms_pass t q mp (sq_atoms q) with
  | Err e => Err e
  | Ok false => Ok false
  | Ok true => bonds_pass t q mp (sq_bonds q)
  end.

(* the generator: mappings are yielded until an exception escapes *)
Fixpoint qstereo_filter (t : starget) (q : squery) (ms : list mapping) : list mapping * option pyexn :=
  match ms with
  | [] => ([], None)
  | mp :: r => match qstereo_ok t q mp with
               | Err e => ([], Some e)
               | Ok false => qstereo_filter t q r
               | Ok true => let '(l, e) := qstereo_filter t q r in (mp :: l, e)
               end
  end.

(* comparison used by the correspondence *)
Definition sres_eqb (x y : list mapping * option pyexn) : bool :=
  maps_eqb (fst x) (fst y) && option_eqb pyexn_eqb (snd x) (snd y).

(* ---------------------------------------------------------------------------------------------------------------
   MoleculeIsomorphism.get_mapping(other, automorphism_filter, match_stereo=True): control flow.
   For every mapping of self._get_mapping(other, automorphism_filter=True, ...):
       sub = other.substructure(mapping.values()); fm = self.get_fast_mapping(sub)
       if not fm: continue
       yield fm
       if not automorphism_filter: for auto in sub.get_automorphism_mapping(): yield {n: auto[m] for n, m in fm.items()}
   OBSERVED per mapping (not modelled here): fm -- get_fast_mapping compares canonical stereo SMILES (C01) -- and the
   substructure's _chiral_morgan classes and bonds, from which the automorphisms are COMPUTED by Iso.get_automorphism_mapping.
   --------------------------------------------------------------------------------------------------------------- *)
Fixpoint compose_fm (fm auto : mapping) : pyres mapping :=       (* {n: auto[m] for n, m in fm.items()} *)
  match fm with
  | [] => Ok []
  | (n, m) :: r => match zget auto m, compose_fm r auto with
                   | Some y, Ok l => Ok ((n, y) :: l)
                   | None, _ => Err KeyError
                   | _, Err e => Err e
                   end
  end.

Fixpoint all_ok {T : Type} (l : list (pyres T)) : pyres (list T) :=
  match l with
  | [] => Ok []
  | Ok x :: r => match all_ok r with Ok xs => Ok (x :: xs) | Err e => Err e end
  | Err e :: _ => Err e
  end.

Definition ms_one {B : Type} (beq : B -> B -> bool) (flt : bool) (fm : option mapping)
           (sub_classes : list (Z * Z)) (sub_bonds : list (Z * list (Z * B))) : pyres (list mapping) :=
  match fm with
  | None => Ok []                                          (* get_fast_mapping returned None *)
  | Some [] => Ok []                                       (* an empty dict is falsy too *)
  | Some f =>
      if flt then Ok [f]
      else match get_automorphism_mapping beq sub_classes sub_bonds with
           | Err e => Err e
           | Ok autos => match all_ok (map (compose_fm f) autos) with
                         | Ok l => Ok (f :: l)
                         | Err e => Err e
                         end
           end
  end.

Definition match_stereo_stream {B : Type} (beq : B -> B -> bool) (flt : bool)
           (obs : list (option mapping * list (Z * Z) * list (Z * list (Z * B)))) : pyres (list mapping) :=
  match all_ok (map (fun o => let '(fm, cl, bd) := o in ms_one beq flt fm cl bd) obs) with
  | Ok ls => Ok (concat ls)
  | Err e => Err e
  end.

(* the whole call  pattern.get_mapping(target, automorphism_filter=flt, searching_scope=scope, match_stereo=True):
   the search runs with the image-set filter ON whatever flt is (`automorphism_filter or match_stereo`); what substructure() /
   get_fast_mapping() / _chiral_morgan answer for a found embedding is looked up in [oracle] (observed, keyed by the embedding) *)
Definition ms_obs (B : Type) := (option mapping * list (Z * Z) * list (Z * list (Z * B)))%type.
Fixpoint oracle_get {B : Type} (oracle : list (mapping * ms_obs B)) (mp : mapping) : pyres (ms_obs B) :=
  match oracle with
  | [] => Err OtherError                                   (* not observed: the correspondence would report it *)
  | (k, v) :: r => if mapping_eqb k mp then Ok v else oracle_get r mp
  end.

Definition get_mapping_match_stereo {QA A QB B B' : Type} (amatch : QA -> A -> bool) (bmatch : QB -> B -> bool) (beq : B' -> B' -> bool)
           (q_atoms : list (Z * QA)) (q_bonds : list (Z * list (Z * QB))) (o_atoms : list (Z * A)) (o_bonds : list (Z * list (Z * B)))
           (tcomps : list (list Z)) (flt : bool) (scope : option (list Z)) (oracle : list (mapping * ms_obs B')) : pyres (list mapping) :=
  match mol_get_mapping amatch bmatch q_atoms q_bonds o_atoms o_bonds tcomps true scope with
  | Err e => Err e
  | Ok ms => match all_ok (map (oracle_get oracle) ms) with
             | Err e => Err e
             | Ok obs => match_stereo_stream beq flt obs
             end
  end.

From Model Require Import Graph.
Definition mm_get_mapping_match_stereo (q t : mol) :=
  get_mapping_match_stereo elem_eqb order_eqb Z.eqb (m_atoms q) (m_adj q) (m_atoms t) (m_adj t).
