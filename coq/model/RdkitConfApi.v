(* C20 -- the meaning given to the RDKit Conformer API forms in the conformer part of to_rdkit_molecule (translated by
   tools/gen_rdkit_conf.py into Gen.RdkitConf): a Conformer is (Is3D, positions by atom index);
     Conformer()                    no positions, 3D
     SetAtomPosition(idx, p)        grows the conformer to idx + 1 positions (new ones (0, 0, 0)) and stores p at idx
     Set3D(b)                       sets the flag
     mol.AddConformer(conf, ..)     RuntimeError unless the conformer has one position per atom of the molecule *)
From Coq Require Import ZArith List String Bool.
From Model Require Import PyBase Rdkit RdkitApi.
Import ListNotations.
Open Scope Z_scope.

Definition rd_Conformer : conformer := (true, []).
Definition rd_SetAtomPosition (c : conformer) (i : Z) (p : pos3) : pyres conformer := Ok (fst c, set_pos (snd c) (Z.to_nat i) p).
Definition rd_Set3D (c : conformer) (b : bool) : pyres conformer := Ok (b, snd c).
Definition rd_AddConformer (natoms : nat) (c : conformer) : pyres conformer :=
  if Nat.eqb (List.length (snd c)) natoms then Ok c else Err OtherError.

(* a Python `for` loop whose body can raise: the state is threaded through the iterations *)
Fixpoint foldM {A S : Type} (f : S -> A -> pyres S) (l : list A) (s : S) : pyres S :=
  match l with
  | [] => Ok s
  | x :: r => pbind (f s x) (foldM f r)
  end.
