(* C19 extension round 3: the memoisation layer WITH PARTIAL FLUSHES.

   MoleculeContainer.flush_cache(keep_sssr=..., keep_components=...) does not clear the instance __dict__: it keeps the
   entries of a fixed key list (ring perception / components) when the caller knows that its edit did not touch what they
   depend on:
        backup = {k: v for k, v in self.__dict__.items() if k in KEPT}      self.__dict__ = backup
   ~30 call sites in the standardisation / aromaticity / stereo code use it.  The model below adds this operation to the
   memo model of Model.Determinism; Proofs.DeterminismKeepProofs proves that it is transparent EXACTLY under the side
   condition the comment in the source states ("good to keep if no new bonds or bonds deletions ..."): every kept
   attribute has the same value before and after the edit.  The defects found by this property in /repo were all
   violations of that side condition (delete_atom/delete_bond, rolled back transactions, explicify_hydrogens).

   The key lists and the cross-stored keys are regenerated from the source (tools/gen_cachekeys.py -> Gen.CacheKeys). *)
From Coq Require Import ZArith List String Bool.
From Model Require Import Determinism.
Import ListNotations.
Open Scope list_scope.

Section MemoKeep.
  Context {S K V : Type}.
  Variable keqb : K -> K -> bool.
  Variable derive : K -> S -> V.

  (* self.__dict__ = {k: v for k, v in self.__dict__.items() if k in keep} *)
  Definition restrict (keep : list K) (c : list (K * V)) : list (K * V) :=
    filter (fun kv => existsb (keqb (fst kv)) keep) c.

  Inductive kop :=
  | KRead (k : K)
  | KReadStoring (k : K) (also : list K)          (* str(mol) stores smiles_atoms_order, ... *)
  | KMutateKeep (f : S -> S) (keep : list K)      (* an edit followed by flush_cache(keep...) ; keep = [] is the full flush *)
  | KFlushKeep (keep : list K).                   (* flush_cache(keep...) alone *)

  Fixpoint run_keep (s : S) (c : list (K * V)) (ops : list kop) : list V :=
    match ops with
    | [] => []
    | KRead k :: r => let '(v, c') := read keqb derive s c k in v :: run_keep s c' r
    | KReadStoring k also :: r =>
        let '(v, c') := read keqb derive s c k in
        let c'' := match clookup keqb c k with Some _ => c' | None => store_all derive s c' also end in
        v :: run_keep s c'' r
    | KMutateKeep f keep :: r => run_keep (f s) (restrict keep c) r
    | KFlushKeep keep :: r => run_keep s (restrict keep c) r
    end.

  Fixpoint run_uncached_keep (s : S) (ops : list kop) : list V :=
    match ops with
    | [] => []
    | KRead k :: r | KReadStoring k _ :: r => derive k s :: run_uncached_keep s r
    | KMutateKeep f _ :: r => run_uncached_keep (f s) r
    | KFlushKeep _ :: r => run_uncached_keep s r
    end.

  (* the side condition of every partial flush of a history: what is kept does not change *)
  Fixpoint keeps_sound (s : S) (ops : list kop) : Prop :=
    match ops with
    | [] => True
    | KRead _ :: r | KReadStoring _ _ :: r | KFlushKeep _ :: r => keeps_sound s r
    | KMutateKeep f keep :: r => (forall k, In k keep -> derive k (f s) = derive k s) /\ keeps_sound (f s) r
    end.
End MemoKeep.
Arguments KRead {S K} k.
Arguments KReadStoring {S K} k also.
Arguments KMutateKeep {S K} f keep.
Arguments KFlushKeep {S K} keep.

(* ---- what the hand-written models / the check assume about the source; compared with Gen.CacheKeys by theorems ---- *)
Open Scope string_scope.
(* keys kept by flush_cache(keep_sssr=True) and copied by copy(keep_sssr=True) *)
Definition sssr_family : list string := ["sssr"; "atoms_rings"; "atoms_rings_sizes"; "not_special_connectivity"; "rings_count"].
Definition components_family : list string := ["connected_components"].
(* (method of Smiles, key it writes into self.__dict__ besides its own memo entry) *)
Definition cross_stored : list (string * string) :=
  [("__str__", "smiles_atoms_order"); ("__format__", "__cached_method___str__"); ("__format__", "__cached_method___str__");
   ("__format__", "smiles_atoms_order"); ("smiles_atoms_order", "__cached_method___str__")].
Close Scope string_scope.
Open Scope Z_scope.
(* constants of the ring-size mask of isomorphism.py as used by Model.Determinism.ring_mask_step / ring_mask *)
Definition ring_size_limit : Z := 65.
Definition ring_free_mask : Z := 9223372036854775808.
Definition ring_mask_step_gen (limit base : Z) (v4 r : Z) : Z := if r >? limit then v4 else Z.lor v4 (Z.shiftl 1 (base - r)).
