(* Model of the stereo REGISTRIES of chython/algorithms/stereo.py (C12 extension): the cached properties
     tetrahedrons, cumulenes, stereogenic_tetrahedrons, stereogenic_cumulenes, stereogenic_allenes,
     stereogenic_cis_trans, _stereo_allenes_terminals, _stereo_allenes_centers,
     _stereo_cis_trans_centers / _terminals / _counterpart
   as functions of the molecule graph (Model.Graph.mol: _atoms / _bonds as insertion-ordered association lists).
   Python dicts are association lists in insertion order; a later assignment to an existing key keeps the position of
   the key and replaces the value (dset).  The only set whose iteration order could matter is adj[n] of `cumulenes`
   (set.pop()): every pop of the code acts on a set with exactly one element (the model pops the first element and the
   correspondence compares the result on every molecule; [pops_single] below records the fact as an executable
   predicate that is part of the correspondence). *)
From Coq Require Import ZArith List Bool.
From Model Require Import PyBase Graph PeriodicTable Stereo.
From Gen Require Import Elements.
Import ListNotations.
Open Scope Z_scope.

Definition zlen {A} (l : list A) : Z := Z.of_nat (List.length l).

(* element properties read from the generated periodic table *)
Definition el_single (num : Z) : bool := match from_number num with Some e => e_single e | None => false end.
Definition el_double (num : Z) : bool := match from_number num with Some e => e_double e | None => false end.

(* the registries are parametric in the two element predicates, so that the theorems hold for any table *)
Section Registry.
  Variable fs : Z -> bool.    (* atomic number -> is_forming_single_bonds *)
  Variable fd : Z -> bool.    (* atomic number -> is_forming_double_bonds *)

  Definition anum (g : mol) (n : Z) : Z := match atom_of g n with Some a => a_num a | None => 0 end.
  Definition is_h (g : mol) (n : Z) : bool := anum g n =? 1.

  (* ---- tetrahedrons: carbon, no charge, no radical, single bonds only, at most 4 of them ---- *)
  Definition is_tetra (g : mol) (na : Z * atom) : bool :=
    let a := snd na in
    (a_num a =? 6) && (a_chg a =? 0) && negb (a_rad a) &&
    forallb (fun mb => b_ord (snd mb) =? 1) (nbrs g (fst na)) &&
    negb (4 <? zlen (nbrs g (fst na))).
  Definition tetrahedrons (g : mol) : list Z := map fst (filter (is_tetra g) (m_atoms g)).

  (* ---- stereogenic_tetrahedrons: no metal neighbour, 3 or 4 non-hydrogen neighbours, in _bonds order ---- *)
  Definition th_env (g : mol) (n : Z) : list Z := filter (fun x => negb (is_h g x)) (nbr_ids g n).
  Definition sg_th_entry (g : mol) (n : Z) : list (Z * list Z) :=
    if existsb (fun x => negb (fs (anum g x))) (nbr_ids g n) then []
    else let env := th_env g n in
         if (zlen env =? 3) || (zlen env =? 4) then [(n, env)] else [].
  Definition sg_tetrahedrons (g : mol) : list (Z * list Z) := flat_map (sg_th_entry g) (tetrahedrons g).

  (* ---- cumulenes ---- *)
  Definition adjT := list (Z * list Z).
  Definition aget (adj : adjT) (n : Z) : list Z := match zget adj n with Some l => l | None => [] end.
  Fixpoint aset (adj : adjT) (n : Z) (l : list Z) : adjT :=
    match adj with
    | [] => []
    | (k, v) :: r => if n =? k then (k, l) :: r else (k, v) :: aset r n l
    end.
  (* set.discard *)
  Definition zdiscard (x : Z) (l : list Z) : list Z := filter (fun y => negb (y =? x)) l.
  (* list.remove: first occurrence *)
  Fixpoint remove1 (x : Z) (l : list Z) : list Z :=
    match l with [] => [] | y :: r => if y =? x then r else y :: remove1 x r end.

  (* double-bond adjacency: one key per atom that can form double bonds (adj[n] is touched for each of them) *)
  Definition dbl_adj (g : mol) : adjT :=
    flat_map (fun na =>
      if fd (a_num (snd na)) then
        [(fst na, map fst (filter (fun mb => (b_ord (snd mb) =? 2) && fd (anum g (fst mb))) (nbrs g (fst na))))]
      else []) (m_atoms g).
  Definition terminals_of (adj : adjT) : list Z := map fst (filter (fun kv => zlen (snd kv) =? 1) adj).

  Fixpoint pairs (p : list Z) : list (list Z) :=
    match p with
    | x :: ((y :: _) as r) => [x; y] :: pairs r
    | _ => []
    end.

  (* the inner `while m not in terminals` loop; rpath is the path reversed (head = m) *)
  Fixpoint walk (fuel : nat) (g : mol) (adj : adjT) (terms : list Z) (n m : Z) (rpath : list Z)
    : pyres (adjT * list Z * list (list Z)) :=
    if zmem m terms then
      match aget adj m with
      | [] => Err KeyError
      | _ :: rest => Ok (aset adj m rest, remove1 m terms, [rev rpath])
      end
    else
      match fuel with
      | O => Err OtherError
      | S k =>
          if 2 <? zlen (nbrs g m) then Ok (adj, terms, pairs (rev rpath))
          else match zdiscard n (aget adj m) with
               | [] => Err KeyError
               | m' :: rest => walk k g (aset adj m rest) terms m m' (m' :: rpath)
               end
      end.

  Fixpoint cum_loop (fuel : nat) (g : mol) (adj : adjT) (terms : list Z) (acc : list (list Z)) : pyres (list (list Z)) :=
    match terms with
    | [] => Ok acc
    | n :: terms' =>
        match fuel with
        | O => Err OtherError
        | S k =>
            match aget adj n with
            | [] => Err KeyError
            | m :: rest =>
                match walk (S (List.length (m_atoms g))) g (aset adj n rest) terms' n m [m; n] with
                | Err e => Err e
                | Ok (adj', terms'', out) => cum_loop k g adj' terms'' (acc ++ out)
                end
            end
        end
    end.

  Definition cumulenes (g : mol) : pyres (list (list Z)) :=
    let adj := dbl_adj g in
    let terms := terminals_of adj in
    cum_loop (S (List.length terms)) g adj terms [].

  (* every set.pop() of the run acts on a one-element set: executable, part of the correspondence *)
  Fixpoint walk_single (fuel : nat) (g : mol) (adj : adjT) (terms : list Z) (n m : Z) : bool :=
    if zmem m terms then zlen (aget adj m) =? 1
    else match fuel with
         | O => false
         | S k =>
             if 2 <? zlen (nbrs g m) then true
             else match zdiscard n (aget adj m) with
                  | [m'] => walk_single k g (aset adj m []) terms m m'
                  | _ => false
                  end
         end.
  Fixpoint loop_single (fuel : nat) (g : mol) (adj : adjT) (terms : list Z) : bool :=
    match terms with
    | [] => true
    | n :: terms' =>
        match fuel with
        | O => false
        | S k =>
            match aget adj n with
            | [m] =>
                walk_single (S (List.length (m_atoms g))) g (aset adj n []) terms' n m &&
                match walk (S (List.length (m_atoms g))) g (aset adj n []) terms' n m [m; n] with
                | Ok (adj', terms'', _) => loop_single k g adj' terms''
                | Err _ => false
                end
            | _ => false
            end
        end
    end.
  Definition pops_single (g : mol) : bool :=
    let adj := dbl_adj g in loop_single (S (List.length (terminals_of adj))) g adj (terminals_of adj).

  (* ---- stereogenic_cumulenes ---- *)
  Definition env4 := (Z * Z * option Z * option Z)%type.
  Definition first_z (l : list Z) : Z := hd 0 l.
  Definition last_z (l : list Z) : Z := last l 0.
  Definition second_z (l : list Z) : Z := hd 0 (tl l).            (* path[1] *)
  Definition penult_z (l : list Z) : Z := second_z (rev l).        (* path[-2] *)

  (* any(b == 3 or not atoms[m].is_forming_single_bonds and b != 8 for m, b in env.items() if m != skip) *)
  Definition end_blocked (g : mol) (t skip : Z) : bool :=
    existsb (fun mb => negb (fst mb =? skip) &&
                       ((b_ord (snd mb) =? 3) || (negb (fs (anum g (fst mb))) && negb (b_ord (snd mb) =? 8))))
            (nbrs g t).
  (* [x for x, b in env.items() if x != skip and atoms[x] != H and b != 8] *)
  Definition end_subst (g : mol) (t skip : Z) : list Z :=
    map fst (filter (fun mb => negb (fst mb =? skip) && negb (is_h g (fst mb)) && negb (b_ord (snd mb) =? 8)) (nbrs g t)).
  (* fix 2e29c31: any(b == 2 for m, b in env.items() if m != skip): one more double bond at the end atom *)
  Definition end_more_double (g : mol) (t skip : Z) : bool :=
    existsb (fun mb => negb (fst mb =? skip) && (b_ord (snd mb) =? 2)) (nbrs g t).
  (* fix 2e29c31: sum(b != 8 for b in env.values()) > 3: hypervalent (non-planar) end atom *)
  Definition end_crowded (g : mol) (t : Z) : bool :=
    3 <? zlen (filter (fun mb => negb (b_ord (snd mb) =? 8)) (nbrs g t)).
  Definition second_of (l : list Z) : option Z :=
    if zlen l =? 2 then match l with [_; y] => Some y | _ => None end else None.

  (* path[0], path[1], path[-1], path[-2]: every path has at least two atoms *)
  Definition sg_cum_entry (g : mol) (path : list Z) : list (list Z * env4) :=
    match path, rev path with
    | t1 :: n1 :: _, t2 :: m1 :: _ =>
        if end_blocked g t1 n1 then []
        else if end_blocked g t2 m1 then []
        else if end_more_double g t1 n1 || end_more_double g t2 m1 then []
        else if end_crowded g t1 || end_crowded g t2 then []
        else match end_subst g t1 n1, end_subst g t2 m1 with
             | a :: ra, c :: rc => [(path, (a, c, second_of (a :: ra), second_of (c :: rc)))]
             | _, _ => []
             end
    | _, _ => []
    end.
  Definition sg_cumulenes_of (g : mol) (paths : list (list Z)) : list (list Z * env4) := flat_map (sg_cum_entry g) paths.
  Definition sg_cumulenes (g : mol) : pyres (list (list Z * env4)) :=
    match cumulenes g with Ok ps => Ok (sg_cumulenes_of g ps) | Err e => Err e end.

  Definition odd_len (p : list Z) : bool := Nat.odd (List.length p).
  Definition centre_of (p : list Z) : Z := nth (Nat.div2 (List.length p)) p 0.          (* path[len(path) // 2] *)
  Definition centre_lo (p : list Z) : Z := nth (Nat.pred (Nat.div2 (List.length p))) p 0. (* path[len(path) // 2 - 1] *)

  (* dict assignment d[k] = v *)
  Fixpoint dset {V} (d : list (Z * V)) (k : Z) (v : V) : list (Z * V) :=
    match d with
    | [] => [(k, v)]
    | (k', v') :: r => if k =? k' then (k', v) :: r else (k', v') :: dset r k v
    end.
  Definition zz_eqb (a b : Z * Z) : bool := (fst a =? fst b) && (snd a =? snd b).
  Fixpoint dset2 {V} (d : list (Z * Z * V)) (k : Z * Z) (v : V) : list (Z * Z * V) :=
    match d with
    | [] => [(k, v)]
    | (k', v') :: r => if zz_eqb k k' then (k', v) :: r else (k', v') :: dset2 r k v
    end.

  (* stereogenic_allenes: {path[len // 2]: env for odd paths} *)
  Definition sg_allenes_of (sc : list (list Z * env4)) : list (Z * env4) :=
    fold_left (fun d pe => if odd_len (fst pe) then dset d (centre_of (fst pe)) (snd pe) else d) sc [].
  (* stereogenic_cis_trans: {(path[0], path[-1]): env for even paths} *)
  Definition sg_cis_trans_of (sc : list (list Z * env4)) : list (Z * Z * env4) :=
    fold_left (fun d pe => if odd_len (fst pe) then d else dset2 d (first_z (fst pe), last_z (fst pe)) (snd pe)) sc [].
  (* _stereo_allenes_terminals: {centre: (path[0], path[-1])} *)
  Definition allenes_terminals_of (sc : list (list Z * env4)) : list (Z * (Z * Z)) :=
    fold_left (fun d pe => if odd_len (fst pe) then dset d (centre_of (fst pe)) (first_z (fst pe), last_z (fst pe)) else d) sc [].
  (* _stereo_allenes_centers: terminals[n] = terminals[m] = c *)
  Definition allenes_centers_of (at_ : list (Z * (Z * Z))) : list (Z * Z) :=
    fold_left (fun d cnm => dset (dset d (fst (snd cnm)) (fst cnm)) (snd (snd cnm)) (fst cnm)) at_ [].
  (* _stereo_cis_trans_centers: terminals[n] = terminals[m] = (path[i - 1], path[i]) *)
  Definition ct_centers_of (sc : list (list Z * env4)) : list (Z * (Z * Z)) :=
    fold_left (fun d pe => let p := fst pe in
                 if odd_len p then d
                 else dset (dset d (first_z p) (centre_lo p, centre_of p)) (last_z p) (centre_lo p, centre_of p)) sc [].
  (* _stereo_cis_trans_terminals: terminals[n] = terminals[m] = terminals[path[i]] = terminals[path[i - 1]] = (n, m) *)
  Definition ct_terminals_of (sc : list (list Z * env4)) : list (Z * (Z * Z)) :=
    fold_left (fun d pe => let p := fst pe in
                 if odd_len p then d
                 else let v := (first_z p, last_z p) in
                      dset (dset (dset (dset d (first_z p) v) (last_z p) v) (centre_of p) v) (centre_lo p) v) sc [].
  (* _stereo_cis_trans_counterpart *)
  Definition ct_counterpart_of (sc : list (list Z * env4)) : list (Z * Z) :=
    fold_left (fun d pe => let p := fst pe in
                 if odd_len p then d else dset (dset d (first_z p) (last_z p)) (last_z p) (first_z p)) sc [].

  (* all registries of one molecule at once *)
  Record registries := mkReg {
    r_tetrahedrons : list Z;
    r_cumulenes : list (list Z);
    r_sg_th : list (Z * list Z);
    r_sg_cum : list (list Z * env4);
    r_sg_al : list (Z * env4);
    r_sg_ct : list (Z * Z * env4);
    r_al_terminals : list (Z * (Z * Z));
    r_al_centers : list (Z * Z);
    r_ct_centers : list (Z * (Z * Z));
    r_ct_terminals : list (Z * (Z * Z));
    r_ct_counterpart : list (Z * Z)
  }.
  Definition registries_of (g : mol) : pyres registries :=
    match cumulenes g with
    | Err e => Err e
    | Ok ps =>
        let sc := sg_cumulenes_of g ps in
        Ok (mkReg (tetrahedrons g) ps (sg_tetrahedrons g) sc (sg_allenes_of sc) (sg_cis_trans_of sc)
                  (allenes_terminals_of sc) (allenes_centers_of (allenes_terminals_of sc))
                  (ct_centers_of sc) (ct_terminals_of sc) (ct_counterpart_of sc))
    end.
End Registry.

(* the registries of the real periodic table *)
Definition registries_real (g : mol) : pyres registries := registries_of el_single el_double g.

(* ---- renumbering (Graph.remap with an injective map): dict comprehensions keep the insertion orders ---- *)
Definition rn_adj (s : Z -> Z) (adj : list (Z * list (Z * bond))) : list (Z * list (Z * bond)) :=
  map (fun nl => (s (fst nl), map (fun mb => (s (fst mb), snd mb)) (snd nl))) adj.
Definition rn_mol (s : Z -> Z) (g : mol) : mol :=
  mkMol (map (fun na => (s (fst na), snd na)) (m_atoms g)) (rn_adj s (m_adj g)).
Definition rn_env (s : Z -> Z) (e : env4) : env4 :=
  let '(a, b, c, d) := e in (s a, s b, option_map s c, option_map s d).
Definition rn_zz (s : Z -> Z) (p : Z * Z) : Z * Z := (s (fst p), s (snd p)).
Definition rn_reg (s : Z -> Z) (r : registries) : registries :=
  mkReg (map s (r_tetrahedrons r)) (map (map s) (r_cumulenes r))
        (map (fun ne => (s (fst ne), map s (snd ne))) (r_sg_th r))
        (map (fun pe => (map s (fst pe), rn_env s (snd pe))) (r_sg_cum r))
        (map (fun ce => (s (fst ce), rn_env s (snd ce))) (r_sg_al r))
        (map (fun ke => (rn_zz s (fst ke), rn_env s (snd ke))) (r_sg_ct r))
        (map (fun ct => (s (fst ct), rn_zz s (snd ct))) (r_al_terminals r))
        (map (fun tc => (s (fst tc), s (snd tc))) (r_al_centers r))
        (map (fun ct => (s (fst ct), rn_zz s (snd ct))) (r_ct_centers r))
        (map (fun ct => (s (fst ct), rn_zz s (snd ct))) (r_ct_terminals r))
        (map (fun tc => (s (fst tc), s (snd tc))) (r_ct_counterpart r)).

(* ---- boolean equality of registries (for the correspondence) ---- *)
Definition env_eqb (a b : env4) : bool :=
  let '(a0, a1, a2, a3) := a in let '(b0, b1, b2, b3) := b in
  (a0 =? b0) && (a1 =? b1) && option_eqb Z.eqb a2 b2 && option_eqb Z.eqb a3 b3.
Definition zzp_eqb (a b : Z * (Z * Z)) : bool := (fst a =? fst b) && zz_eqb (snd a) (snd b).
Definition reg_eqb (a b : registries) : bool :=
  list_eqb Z.eqb (r_tetrahedrons a) (r_tetrahedrons b) &&
  list_eqb (list_eqb Z.eqb) (r_cumulenes a) (r_cumulenes b) &&
  list_eqb (fun x y => (fst x =? fst y) && list_eqb Z.eqb (snd x) (snd y)) (r_sg_th a) (r_sg_th b) &&
  list_eqb (fun x y => list_eqb Z.eqb (fst x) (fst y) && env_eqb (snd x) (snd y)) (r_sg_cum a) (r_sg_cum b) &&
  list_eqb (fun x y => (fst x =? fst y) && env_eqb (snd x) (snd y)) (r_sg_al a) (r_sg_al b) &&
  list_eqb (fun x y => zz_eqb (fst x) (fst y) && env_eqb (snd x) (snd y)) (r_sg_ct a) (r_sg_ct b) &&
  list_eqb zzp_eqb (r_al_terminals a) (r_al_terminals b) &&
  list_eqb zz_eqb (r_al_centers a) (r_al_centers b) &&
  list_eqb zzp_eqb (r_ct_centers a) (r_ct_centers b) &&
  list_eqb zzp_eqb (r_ct_terminals a) (r_ct_terminals b) &&
  list_eqb zz_eqb (r_ct_counterpart a) (r_ct_counterpart b).
