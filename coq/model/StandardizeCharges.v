(* C14 -- hand-written model of the heterocycle part of Standardize.standardize_charges
   (chython/algorithms/standardize/molecule.py): the loop over fixed_rules, the loop over morgan_rules and the
   assignment of the recorded pairs by canonical order.  The loop BODIES are also translated from the source on every
   run (Gen.C14Charges, tools/gen_c14charges.py); proofs/StandardizeChargesProofs.v proves generated = this model.

   Inputs of the model (not modelled): what q.get_mapping(self, automorphism_filter=False) yields for every rule of the two
   tables, in order (lists of mappings aligned with the tables), and self.atoms_order after the charges were reset
   (`order`).  NOT modelled: thiele() (prepare_molecule), the ferrocene block, flush_cache / fix_stereo at the end. *)
From Coq Require Import ZArith List Bool.
From Model Require Import PyBase Graph Standardize StandardizeChargesBase.
From Gen Require Import StdRules.
Import ListNotations.
Open Scope Z_scope.

(* if len(bonds[a]) == 2:  if not atoms[a].implicit_hydrogens: continue
   elif all(x == 4 for x in bonds[a].values()): continue
   -- `a` is not a pyrrole-like atom: neither two neighbours and a hydrogen nor a third, non-aromatic substituent *)
Definition not_pyrrole_like (g : mol) (a : Z) : bool := if deg g a =? 2 then h_falsy g a else all_orders g a 4.

(* the part of both loop bodies before the patch: None = `continue`, Some (seen', atom_1, atom_2) = go on *)
Definition accept (mp : mapping) (st : cstate) : pyres (cstate * option (Z * Z)) :=
  let mt := match_set mp in
  if inter_count mt (cs_seen st) >? 2 then Ok (st, None)             (* matched more than 2 atoms seen before *)
  else
    let st1 := mkCS (cs_mol st) (seen_update (cs_seen st) mt) (cs_changed st) (cs_pairs st) in
    match zget mp 1, zget mp 2 with
    | Some a1, Some a2 =>
        if not_pyrrole_like (cs_mol st) a1 then Ok (st1, None)
        else if not_pyrrole_like (cs_mol st) a2 then Ok (st1, None)
        else Ok (st1, Some (a1, a2))
    | _, _ => Err KeyError
    end.

(* fixed rules: atoms[3 if fix else 1]._charge = 0; atoms[2]._charge = 1; both appended to changed *)
Definition fixed_step (fx : bool) (mp : mapping) (st : cstate) : pyres cstate :=
  match accept mp st with
  | Err e => Err e
  | Ok (st1, None) => Ok st1
  | Ok (st1, Some (a1, a2)) =>
      let dis := if fx then zget mp 3 else Some a1 in
      match dis with
      | None => Err KeyError
      | Some d => Ok (mkCS (set_charge (set_charge (cs_mol st1) d 0) a2 1) (cs_seen st1) (cs_changed st1 ++ [d; a2]) (cs_pairs st1))
      end
  end.

(* morgan rules: atoms[3 if fix else 1]._charge = 0 (atom 3 appended to changed); the pair is recorded *)
Definition morgan_step (fx : bool) (mp : mapping) (st : cstate) : pyres cstate :=
  match accept mp st with
  | Err e => Err e
  | Ok (st1, None) => Ok st1
  | Ok (st1, Some (a1, a2)) =>
      if fx
      then match zget mp 3 with
           | None => Err KeyError
           | Some a3 => Ok (mkCS (set_charge (cs_mol st1) a3 0) (cs_seen st1) (cs_changed st1 ++ [a3]) (cs_pairs st1 ++ [(a1, a2, fx)]))
           end
      else Ok (mkCS (set_charge (cs_mol st1) a1 0) (cs_seen st1) (cs_changed st1) (cs_pairs st1 ++ [(a1, a2, fx)]))
  end.

(* for atom_1, atom_2, fix in pairs: the atom that comes first in the canonical order gets the charge *)
Definition morgan_assign (order : Z -> Z) (p : Z * Z * bool) (st : cstate) : pyres cstate :=
  let '(a1, a2, fx) := p in
  if order a1 >? order a2
  then Ok (mkCS (set_charge (cs_mol st) a2 1) (cs_seen st) (cs_changed st ++ (if fx then [a2] else [a2; a1])) (cs_pairs st))
  else Ok (mkCS (set_charge (cs_mol st) a1 1) (cs_seen st) (cs_changed st ++ (if fx then [a1] else [])) (cs_pairs st)).

(* ---- the loops ---- *)
Fixpoint run_steps {A} (step : A -> cstate -> pyres cstate) (xs : list A) (st : cstate) : pyres cstate :=
  match xs with
  | [] => Ok st
  | x :: rest => match step x st with Ok st1 => run_steps step rest st1 | Err e => Err e end
  end.

(* for q, fix in <table>: for mapping in q.get_mapping(...): step.   yielded : one list of mappings per rule of the table *)
Fixpoint run_table (step : bool -> mapping -> cstate -> pyres cstate) (table : list crule) (yielded : list (list mapping)) (st : cstate)
  : pyres cstate :=
  match table, yielded with
  | c :: table', ms :: yielded' =>
      match run_steps (step (c_fix c)) ms st with Ok st1 => run_table step table' yielded' st1 | Err e => Err e end
  | _, _ => Ok st
  end.

(* seen = set(); fixed loop; pairs = []; morgan loop; if pairs: assignment *)
Definition charges_with (fstep mstep : bool -> mapping -> cstate -> pyres cstate) (assign : (Z -> Z) -> Z * Z * bool -> cstate -> pyres cstate)
           (ftable mtable : list crule) (yf ym : list (list mapping)) (order : Z -> Z) (g : mol) : pyres cstate :=
  match run_table fstep ftable yf (mkCS g [] [] []) with
  | Err e => Err e
  | Ok st1 =>
      match run_table mstep mtable ym st1 with
      | Err e => Err e
      | Ok st2 => run_steps (assign order) (cs_pairs st2) st2
      end
  end.

Definition standardize_charges_model := charges_with fixed_step morgan_step morgan_assign fixed_rules morgan_rules.
