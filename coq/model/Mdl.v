(* C11 -- model of the MDL readers / writers of chython/files:
     mdl/write.py  MOLWrite._write_molecule, EMOLWrite._write_molecule
     mdl/mol.py    parse_mol_v2000          mdl/emol.py  parse_mol_v3000, split
     mdl/rxn.py    parse_rxn_v2000          mdl/erxn.py  parse_rxn_v3000
     SDFrw.py      SDFRead (_read_block, _read_mol, _read_metadata, read_metadata, read_structure), SDFWrite/ESDFWrite.write
     RDFrw.py      RDFRead (_read_block, _read_metadata, read_metadata, read_structure), RDFWrite/ERDFWrite.write
     mdl/read.py   MDLRead.__iter__ (skip on ValueError, stop on EOFError, anything else propagates)
   Text is `list ascii` (ASCII only); a file is the list of its lines as Python's file iteration yields them
   (terminator "\n" kept).  Coordinates: the written field is an opaque text (float FORMATTING is not modelled),
   the reader's float() is modelled (decimal syntax -> exact decimal value).
   Dict displays (charge maps, escape maps) come from Gen.MdlTables, regenerated from the source on every run. *)
From Coq Require Import ZArith List String Ascii Bool Lia.
From Model Require Import PyBase.
From Gen Require Import MdlTables.
Import ListNotations.
Open Scope Z_scope.
(* String is imported for literals only: list operations are the ones of List *)
Local Notation length := List.length.
Local Notation concat := List.concat.

(* ------------------------------------------------------------------------------------------------ *)
(** * Python str operations on ASCII text *)

Definition str := list ascii.
Definition L (s : string) : str := list_ascii_of_string s.
Definition code (c : ascii) : Z := Z.of_N (N_of_ascii c).
Definition chr (n : Z) : ascii := ascii_of_N (Z.to_N n).
Definition LN (l : list Z) : str := map chr l.       (* text given by character codes (harness) *)
Definition str_eqb : str -> str -> bool := list_eqb Ascii.eqb.
Definition nl : ascii := "010"%char.
Definition sp : ascii := " "%char.
Definition add_nl (s : str) : str := s ++ [nl].

(* str.isspace() per character, ASCII: \t \n \v \f \r  \x1c-\x1f  space  (str.strip(), str.split()) *)
Definition is_space (c : ascii) : bool :=
  let n := code c in ((9 <=? n) && (n <=? 13)) || ((28 <=? n) && (n <=? 31)) || (n =? 32).
(* Py_ISSPACE: what int() and float() skip: \t \n \v \f \r space *)
Definition is_cspace (c : ascii) : bool :=
  let n := code c in ((9 <=? n) && (n <=? 13)) || (n =? 32).

Fixpoint lstrip_by (f : ascii -> bool) (s : str) : str :=
  match s with
  | c :: r => if f c then lstrip_by f r else s
  | [] => []
  end.
Definition rstrip_by (f : ascii -> bool) (s : str) : str := rev (lstrip_by f (rev s)).
Definition strip_by (f : ascii -> bool) (s : str) : str := rstrip_by f (lstrip_by f s).
Definition lstrip := lstrip_by is_space.
Definition rstrip := rstrip_by is_space.
Definition strip := strip_by is_space.
Definition amem (c : ascii) (set : str) : bool := existsb (Ascii.eqb c) set.
(* s.lstrip(chars): strips the longest prefix made of characters of the SET chars *)
Definition lstrip_set (set : str) (s : str) : str := lstrip_by (fun c => amem c set) s.

Fixpoint startswith (p s : str) : bool :=
  match p, s with
  | [], _ => true
  | a :: p', b :: s' => Ascii.eqb a b && startswith p' s'
  | _ :: _, [] => false
  end.
Definition endswith (p s : str) : bool := startswith (rev p) (rev s).
(* s[a:b] for 0 <= a, 0 <= b (clamped like Python) *)
Definition slice (a b : nat) (s : str) : str := firstn (b - a) (skipn a s).
Definition slice_from (a : nat) (s : str) : str := skipn a s.
(* list slicing data[a:b] / data[a:] *)
Definition lslice {A} (a b : nat) (l : list A) : list A := firstn (b - a) (skipn a l).

(* `sub in s` *)
Fixpoint contains (sub s : str) : bool :=
  startswith sub s || match s with [] => false | _ :: r => contains sub r end.

(* s.replace(old, new), old non-empty: leftmost, non-overlapping *)
Fixpoint replace_fuel (fuel : nat) (old new s : str) : str :=
  match fuel with
  | O => s
  | S f =>
    match s with
    | [] => []
    | c :: r => if startswith old s then new ++ replace_fuel f old new (skipn (length old) s)
                else c :: replace_fuel f old new r
    end
  end.
Definition replace (old new s : str) : str :=
  match old with [] => s (* not used with an empty pattern *) | _ => replace_fuel (S (length s)) old new s end.

Definition lower_c (c : ascii) : ascii := let n := code c in if (65 <=? n) && (n <=? 90) then chr (n + 32) else c.
Definition lower (s : str) : str := map lower_c s.

Definition ljust (w : nat) (s : str) : str := s ++ repeat sp (w - length s).
Definition rjust (w : nat) (s : str) : str := repeat sp (w - length s) ++ s.

Fixpoint join (sep : str) (l : list str) : str :=
  match l with
  | [] => []
  | [x] => x
  | x :: r => x ++ sep ++ join sep r
  end.

(* s.split() : maximal runs of non-whitespace *)
Fixpoint split_ws_aux (s : str) (cur : str) : list str :=
  match s with
  | [] => match cur with [] => [] | _ => [rev cur] end
  | c :: r => if is_space c then match cur with [] => split_ws_aux r [] | _ => rev cur :: split_ws_aux r [] end
              else split_ws_aux r (c :: cur)
  end.
Definition split_ws (s : str) : list str := split_ws_aux s [].

(* s.split(c) for a one-character separator: every occurrence splits *)
Fixpoint split_char_aux (c : ascii) (s : str) (cur : str) : list str :=
  match s with
  | [] => [rev cur]
  | d :: r => if Ascii.eqb d c then rev cur :: split_char_aux c r [] else split_char_aux c r (d :: cur)
  end.
Definition split_char (c : ascii) (s : str) : list str := split_char_aux c s [].

(* s.split(c, 1): None when c does not occur (the result then has one element) *)
Fixpoint split1_aux (c : ascii) (s : str) (cur : str) : option (str * str) :=
  match s with
  | [] => None
  | d :: r => if Ascii.eqb d c then Some (rev cur, r) else split1_aux c r (d :: cur)
  end.
Definition split1 (c : ascii) (s : str) : option (str * str) := split1_aux c s [].

(* iteration over a text file / StringIO: lines keep their "\n"; the last line may lack it *)
Fixpoint readlines_aux (s : str) (cur : str) : list str :=
  match s with
  | [] => match cur with [] => [] | _ => [rev cur] end
  | c :: r => if Ascii.eqb c nl then rev (c :: cur) :: readlines_aux r [] else readlines_aux r (c :: cur)
  end.
Definition readlines (s : str) : list str := readlines_aux s [].
Definition text_of_lines (ls : list str) : str := concat (map add_nl ls).

(* dict lookups over the generated tables: the last binding of a key wins *)
Fixpoint sget_last {V} (d : list (string * V)) (k : str) : option V :=
  match d with
  | [] => None
  | (k', v) :: r => match sget_last r k with
                    | Some w => Some w
                    | None => if str_eqb k (L k') then Some v else None
                    end
  end.

(* ------------------------------------------------------------------------------------------------ *)
(** * Numbers: str(n) / format(n, 'wd') and int(s), float(s) *)

Definition digit_chr (d : Z) : ascii := chr (48 + d).
Fixpoint digits_of (fuel : nat) (n : Z) (acc : str) : str :=
  match fuel with
  | O => acc
  | S f => let acc' := digit_chr (n mod 10) :: acc in
           if n <? 10 then acc' else digits_of f (n / 10) acc'
  end.
Definition nat_digits (n : Z) : str := digits_of (S (Z.to_nat (Z.log2 n))) n [].
(* str(n) == f'{n}' == f'{n:d}' *)
Definition zstr (n : Z) : str := if n <? 0 then "-"%char :: nat_digits (- n) else nat_digits n.
(* f'{n:wd}' *)
Definition fmt_d (w : nat) (n : Z) : str := rjust w (zstr n).
(* f'{s:ws}' *)
Definition fmt_s (w : nat) (s : str) : str := ljust w s.

Definition digit_val (c : ascii) : option Z :=
  let n := code c in if (48 <=? n) && (n <=? 57) then Some (n - 48) else None.
(* digits with single underscores between them; after_digit = the previous character was a digit *)
Fixpoint int_digits (s : str) (acc : Z) (after_digit : bool) : option Z :=
  match s with
  | [] => if after_digit then Some acc else None
  | c :: r => match digit_val c with
              | Some d => int_digits r (acc * 10 + d) true
              | None => if Ascii.eqb c "_"%char && after_digit then int_digits r acc false else None
              end
  end.
(* int(s) for ASCII text: ValueError unless [ws] [+-] digits(_digits)* [ws] *)
Definition int_signed (t : str) : option Z :=
  match t with
  | "-"%char :: d => option_map Z.opp (int_digits d 0 false)
  | "+"%char :: d => int_digits d 0 false
  | _ => int_digits t 0 false
  end.
Definition py_int (s : str) : pyres Z :=
  match int_signed (strip_by is_cspace s) with Some v => Ok v | None => Err ValueError end.

(* float(s): the value of a decimal literal is kept exactly as mantissa * 10^exponent *)
Inductive fval := FDec (m e : Z) | FInf (neg : bool) | FNan.
(* digit run with single underscores; returns (value, number of digits, rest); None if it does not start with a digit
   or an underscore is misplaced *)
Fixpoint digit_run (s : str) (acc : Z) (cnt : Z) (after_digit : bool) : option (Z * Z * str) :=
  match s with
  | [] => if after_digit then Some (acc, cnt, []) else None
  | c :: r => match digit_val c with
              | Some d => digit_run r (acc * 10 + d) (cnt + 1) true
              | None => if Ascii.eqb c "_"%char then (if after_digit then digit_run r acc cnt false else None)
                        else if after_digit then Some (acc, cnt, s) else None
              end
  end.
Definition starts_digit (s : str) : bool := match s with c :: _ => match digit_val c with Some _ => true | None => false end | [] => false end.
Definition float_exp (s : str) (m e : Z) : option fval :=
  match s with
  | [] => Some (FDec m e)
  | c :: r =>
    if Ascii.eqb (lower_c c) "e"%char then
      let '(neg, r') := match r with "-"%char :: q => (true, q) | "+"%char :: q => (false, q) | _ => (false, r) end in
      if starts_digit r' then
        match digit_run r' 0 0 false with
        | Some (x, _, []) => Some (FDec m (e + (if neg then - x else x)))
        | _ => None
        end
      else None
    else None
  end.
Definition float_unsigned (s : str) : option fval :=
  let ls := lower s in
  if str_eqb ls (L "inf") || str_eqb ls (L "infinity") then Some (FInf false)
  else if str_eqb ls (L "nan") then Some FNan
  else if starts_digit s then
    match digit_run s 0 0 false with
    | Some (ip, _, "."%char :: r) =>
        if starts_digit r then
          match digit_run r ip 0 false with
          | Some (m, k, r') => float_exp r' m (- k)
          | None => None
          end
        else float_exp r ip 0
    | Some (ip, _, r) => float_exp r ip 0
    | None => None
    end
  else match s with
       | "."%char :: r => if starts_digit r then
                            match digit_run r 0 0 false with
                            | Some (m, k, r') => float_exp r' m (- k)
                            | None => None
                            end
                          else None
       | _ => None
       end.
Definition py_float (s : str) : pyres fval :=
  let t := strip_by is_cspace s in
  let r := match t with
           | "-"%char :: d => match float_unsigned d with
                              | Some (FDec m e) => Some (FDec (- m) e)
                              | Some (FInf _) => Some (FInf true)
                              | x => x
                              end
           | "+"%char :: d => float_unsigned d
           | _ => float_unsigned t
           end in
  match r with Some v => Ok v | None => Err ValueError end.
(* equality of values (the harness gives the implementation's float as an exact decimal) *)
Definition fval_eqb (a b : fval) : bool :=
  match a, b with
  | FDec m e, FDec m' e' => let lo := Z.min e e' in (m * 10 ^ (e - lo) =? m' * 10 ^ (e' - lo))
  | FInf x, FInf y => Bool.eqb x y
  | FNan, FNan => true
  | _, _ => false
  end.

(* ------------------------------------------------------------------------------------------------ *)
(** * Small monadic helpers *)

Definition bind {A B} (x : pyres A) (f : A -> pyres B) : pyres B := match x with Ok a => f a | Err e => Err e end.
Notation "'do' x <- e ; k" := (bind e (fun x => k)) (at level 200, x pattern, e at level 100, k at level 200, right associativity).
Fixpoint mapM {A B} (f : A -> pyres B) (l : list A) : pyres (list B) :=
  match l with
  | [] => Ok []
  | x :: r => do y <- f x; do ys <- mapM f r; Ok (y :: ys)
  end.
Fixpoint foldM {A S} (f : S -> A -> pyres S) (l : list A) (s : S) : pyres S :=
  match l with
  | [] => Ok s
  | x :: r => do s' <- f s x; foldM f r s'
  end.
Definition of_opt {A} (e : pyexn) (o : option A) : pyres A := match o with Some a => Ok a | None => Err e end.

Fixpoint update_nth {A} (n : nat) (f : A -> A) (l : list A) : list A :=
  match n, l with
  | _, [] => []
  | O, x :: r => f x :: r
  | S k, x :: r => x :: update_nth k f r
  end.
Definition nat_range (n : nat) : list nat := seq 0 n.

(* ------------------------------------------------------------------------------------------------ *)
(** * What the writers are given *)

(* one atom as MOLWrite / EMOLWrite see it: number in the container, symbol, the three FORMATTED coordinate fields
   (f'{x:10.4f}' resp. f'{x:.4f}'; formatting itself is outside the model), charge, isotope (None or int), radical *)
Record watom := mk_watom { wa_num : Z; wa_sym : str; wa_x : str; wa_y : str; wa_z : str;
                           wa_chg : Z; wa_iso : option Z; wa_rad : bool }.
(* name, atoms in container order, _wedge_map [(n, m, sign)], bonds() [(n, m, order)] *)
Record wmol := mk_wmol { wm_name : str; wm_atoms : list watom; wm_wedge : list (Z * Z * Z); wm_bonds : list (Z * Z * Z) }.

Definition iso_truthy (i : option Z) : bool := match i with Some v => negb (v =? 0) | None => false end.
Definition iso_val (i : option Z) : Z := match i with Some v => v | None => 0 end.

(* bonds[n][m].order *)
Fixpoint bond_order (bonds : list (Z * Z * Z)) (n m : Z) : pyres Z :=
  match bonds with
  | [] => Err KeyError
  | (a, b, o) :: r => if ((a =? n) && (b =? m)) || ((a =? m) && (b =? n)) then Ok o else bond_order r n m
  end.
(* {m: n for n, m in enumerate(g, start=1)} *)
Definition index_map (atoms : list watom) : list (Z * Z) := combine (map wa_num atoms) (zrange_from 1 (length atoms)).
Definition idx (im : list (Z * Z)) (n : Z) : pyres Z := of_opt KeyError (zget_last im n).
(* m in wedge[n] *)
Definition in_wedge (wedge : list (Z * Z * Z)) (n m : Z) : bool :=
  existsb (fun w => let '(a, b, _) := w in ((a =? n) && (b =? m)) || ((a =? m) && (b =? n))) wedge.

(* ------------------------------------------------------------------------------------------------ *)
(** * MOLWrite._write_molecule (V2000).  Result: the lines written, without their "\n" *)

Definition w_charge (c : Z) : pyres str := of_opt KeyError (option_map L (zget_last w_charge_map c)).

Definition v2_counts_line (na nb : Z) : str :=
  fmt_d 3 na ++ fmt_d 3 nb ++ L "  0  0  0  0            999 V2000".
Definition v2_atom_line (mapping : bool) (a : watom) : pyres str :=
  do c <- w_charge (wa_chg a);
  let m := if mapping then wa_num a else 0 in
  Ok (wa_x a ++ wa_y a ++ wa_z a ++ [sp] ++ fmt_s 3 (wa_sym a) ++ L " 0" ++ c ++ L "  0  0  0  0  0  0  0" ++ fmt_d 3 m ++ L "  0  0").
Definition v2_bond_line (i j o : Z) (st : str) : str :=
  fmt_d 3 i ++ fmt_d 3 j ++ L "  " ++ zstr o ++ L "  " ++ st ++ L "  0  0  0".
Definition v2_wedge_line (im : list (Z * Z)) (bonds : list (Z * Z * Z)) (w : Z * Z * Z) : pyres str :=
  let '(n, m, s) := w in
  do i <- idx im n; do j <- idx im m; do o <- bond_order bonds n m;
  Ok (v2_bond_line i j o (if s =? 1 then L "1" else L "6")).
Definition v2_plain_line (im : list (Z * Z)) (b : Z * Z * Z) : pyres str :=
  let '(n, m, o) := b in
  do i <- idx im n; do j <- idx im m;
  Ok (v2_bond_line i j o (L "0")).
Definition v2_prop_lines (n : Z) (a : watom) : list str :=
  (if iso_truthy (wa_iso a) then [L "M  ISO  1 " ++ fmt_d 3 n ++ [sp] ++ fmt_d 3 (iso_val (wa_iso a))] else []) ++
  (if wa_rad a then [L "M  RAD  1 " ++ fmt_d 3 n ++ L "   2"] else []) ++
  (if (wa_chg a =? -4) || (wa_chg a =? 4) then [L "M  CHG  1 " ++ fmt_d 3 n ++ [sp] ++ fmt_d 3 (wa_chg a)] else []).
Definition plain_bonds (g : wmol) : list (Z * Z * Z) :=
  filter (fun b => let '(n, m, _) := b in negb (in_wedge (wm_wedge g) n m)) (wm_bonds g).

Definition write_mol_v2000 (mapping : bool) (g : wmol) : pyres (list str) :=
  match wm_atoms g with
  | [] => Err ValueError                                   (* max() of an empty container *)
  | _ =>
    if existsb (fun a => 999 <? wa_num a) (wm_atoms g) then Err ValueError else
    let im := index_map (wm_atoms g) in
    let header := [wm_name g; []; []; v2_counts_line (Z.of_nat (length (wm_atoms g))) (Z.of_nat (length (wm_bonds g)))] in
    do al <- mapM (v2_atom_line mapping) (wm_atoms g);
    do wl <- mapM (v2_wedge_line im (wm_bonds g)) (wm_wedge g);
    do bl <- mapM (v2_plain_line im) (plain_bonds g);
    let pl := concat (map (fun na => v2_prop_lines (fst na) (snd na)) (combine (zrange_from 1 (length (wm_atoms g))) (wm_atoms g))) in
    Ok (header ++ al ++ wl ++ bl ++ pl ++ [L "M  END"])
  end.

(* ------------------------------------------------------------------------------------------------ *)
(** * parse_mol_v2000 *)

(* one parsed atom (the dict the parsers build): 'is_radical' is a key that may be absent in V2000 (absent = false),
   'implicit_hydrogens' is only set from MRV_IMPLICIT_H S-groups *)
Record patom := mk_patom { pa_elem : str; pa_chg : Z; pa_iso : option Z; pa_map : Z;
                           pa_x : fval; pa_y : fval; pa_z : fval; pa_delta : option Z; pa_rad : bool; pa_hyd : option Z }.
Record parsed := mk_parsed { p_title : option str; p_atoms : list patom; p_bonds : list (Z * Z * Z);
                             p_stereo : list (Z * Z * Z); p_log : list str }.

Definition set_chg v (a : patom) := mk_patom (pa_elem a) v (pa_iso a) (pa_map a) (pa_x a) (pa_y a) (pa_z a) (pa_delta a) (pa_rad a) (pa_hyd a).
(* M  ISO supersedes the mass difference of the atom block: atom['isotope'] = v; atom['delta_isotope'] = None *)
Definition set_iso v (a : patom) := mk_patom (pa_elem a) (pa_chg a) (Some v) (pa_map a) (pa_x a) (pa_y a) (pa_z a) None (pa_rad a) (pa_hyd a).
Definition set_rad (a : patom) := mk_patom (pa_elem a) (pa_chg a) (pa_iso a) (pa_map a) (pa_x a) (pa_y a) (pa_z a) (pa_delta a) true (pa_hyd a).
Definition set_hyd v (a : patom) := mk_patom (pa_elem a) (pa_chg a) (pa_iso a) (pa_map a) (pa_x a) (pa_y a) (pa_z a) (pa_delta a) (pa_rad a) (Some v).

Definition r_charge (s : str) : pyres Z := of_opt ValueError (sget_last r_charge_map s).   (* KeyError -> InvalidCharge *)
Definition title_of (s : str) : option str := match strip s with [] => None | t => Some t end.

Definition v2_parse_atom (line : str) : pyres patom :=
  do charge <- r_charge (slice 36 39 line);
  let element := strip (slice 31 34 line) in
  let isotope := slice 34 36 line in
  do eid <- (if contains element (L "AL") then Err ValueError
             else if str_eqb element (L "D") then
               (if negb (str_eqb isotope (L " 0")) then Err ValueError else Ok (L "H", Some 2, None))
             else if negb (str_eqb isotope (L " 0")) then (do d <- py_int isotope; Ok (element, None, Some d))
             else Ok (element, None, None));
  let '(element, iso, delta) := eid in
  let mapping := slice 60 63 line in
  do pm <- (match mapping with [] => Ok 0 | _ => py_int mapping end);
  do x <- py_float (slice 0 10 line);
  do y <- py_float (slice 10 20 line);
  do z <- py_float (slice 20 30 line);
  Ok (mk_patom element charge iso pm x y z delta false None).

Definition msg (prefix : string) (line : str) : str := L prefix ++ line.

(* one bond line: (bond, stereo entries, log entries) *)
Definition v2_parse_bond (line : str) : pyres ((Z * Z * Z) * list (Z * Z * Z) * list str) :=
  do a1 <- py_int (slice 0 3 line);
  do a2 <- py_int (slice 3 6 line);
  let a1 := a1 - 1 in let a2 := a2 - 1 in
  let s := slice 9 12 line in
  let '(st, lg) := if str_eqb s (L "  1") then ([(a1, a2, 1)], [])
                   else if str_eqb s (L "  6") then ([(a1, a2, -1)], [])
                   else if negb (str_eqb s (L "  0")) then ([], [msg "unsupported or invalid stereo: " line])
                   else ([], []) in
  do b <- py_int (slice 6 9 line);
  let '(b, lg2) := if b =? 9 then (8, [msg "coordinate bond replaced with special: " line]) else (b, []) in
  Ok ((a1, a2, b), st, lg ++ lg2).

(* S-group bookkeeping of the property block: dat[i] = {'type'?, 'atoms'?, 'value'?} in insertion order *)
Record sgroup := mk_sg { sg_type : option str; sg_atoms : option (list Z); sg_value : option str }.
Definition sg_empty := mk_sg None None None.
Fixpoint dat_set (dat : list (Z * sgroup)) (k : Z) (v : sgroup) : list (Z * sgroup) :=
  match dat with
  | [] => [(k, v)]
  | (k', v') :: r => if k =? k' then (k', v) :: r else (k', v') :: dat_set r k v
  end.
Definition dat_upd (dat : list (Z * sgroup)) (k : Z) (f : sgroup -> sgroup) : list (Z * sgroup) :=
  match zget dat k with Some v => dat_set dat k (f v) | None => dat end.

Record v2state := mk_st { st_atoms : list patom; st_dat : list (Z * sgroup); st_log : list str; st_done : bool }.

Definition last_or {A} (l : list A) (d : A) : A := last l d.

(* the body of `for line in data[4 + atoms_count + bonds_count:]` *)
Definition v2_prop_line (st : v2state) (line : str) : pyres v2state :=
  if st_done st then Ok st else
  if startswith (L "M  END") line then Ok (mk_st (st_atoms st) (st_dat st) (st_log st) true)
  else if startswith (L "M  ALS") line then Err ValueError
  else if startswith (L "M  ISO") line || startswith (L "M  RAD") line || startswith (L "M  CHG") line then
    do attr <- of_opt KeyError (sget_last ctf_data [nth 3 line sp]);           (* _ctf_data[line[3]] *)
    do setter <- (if String.eqb attr "is_radical" then Ok (fun _ : Z => set_rad)
                  else if String.eqb attr "charge" then Ok set_chg
                  else if String.eqb attr "isotope" then Ok set_iso
                  else Err OtherError);                                          (* another attribute: not modelled *)
    do cnt <- py_int (slice 6 9 line);
    do atoms <- foldM (fun atoms i =>
                         let i8 := (i * 8)%nat in
                         do atom <- py_int (slice (10 + i8) (13 + i8) line);
                         if (atom =? 0) || (Z.of_nat (length atoms) <? atom) then Err ValueError   (* InvalidV2000 *)
                         else if atom <? 0 then
                           (* atoms[atom - 1] with a negative index: Python indexes from the end; IndexError when out of range *)
                           (let k := Z.of_nat (length atoms) + (atom - 1) in
                            if k <? 0 then Err IndexError
                            else do v <- py_int (slice (14 + i8) (17 + i8) line);
                                 Ok (update_nth (Z.to_nat k) (setter v) atoms))
                         else do v <- py_int (slice (14 + i8) (17 + i8) line);
                              Ok (update_nth (Z.to_nat (atom - 1)) (setter v) atoms))
                      (nat_range (Z.to_nat cnt)) (st_atoms st);
    Ok (mk_st atoms (st_dat st) (st_log st) false)
  else if startswith (L "M  STY") line then
    do cnt <- py_int (slice 6 9 line);
    do dat <- foldM (fun dat i =>
                       let i8 := (i * 8)%nat in
                       let stt := slice (14 + i8) (17 + i8) line in
                       if str_eqb stt (L "DAT") then (do k <- py_int (slice (10 + i8) (13 + i8) line); Ok (dat_set dat k sg_empty))
                       else if str_eqb stt (L "SUP") then
                         (do k <- py_int (slice (10 + i8) (13 + i8) line); Ok (dat_set dat k (mk_sg (Some (L "MDL_SUP")) None None)))
                       else Ok dat)
                    (nat_range (Z.to_nat cnt)) (st_dat st);
    Ok (mk_st (st_atoms st) dat (st_log st) false)
  else if startswith (L "M  SAL") line then
    do i <- py_int (slice 7 10 line);
    match zget (st_dat st) i with
    | None => Ok st
    | Some _ =>
      do cnt <- py_int (slice 10 13 line);
      do ats <- mapM (fun j => do v <- py_int (slice (14 + 4 * j) (17 + 4 * j) line); Ok (v - 1)) (nat_range (Z.to_nat cnt));
      Ok (mk_st (st_atoms st) (dat_upd (st_dat st) i (fun g => mk_sg (sg_type g) (Some ats) (sg_value g))) (st_log st) false)
    end
  else if startswith (L "M  SDT") line then
    do i <- py_int (slice 7 10 line);
    match zget (st_dat st) i with
    | None => Ok st
    | Some _ =>
      let t := lower (last_or (split_ws line) []) in
      Ok (mk_st (st_atoms st) (dat_upd (st_dat st) i (fun g => mk_sg (Some t) (sg_atoms g) (sg_value g))) (st_log st) false)
    end
  else if startswith (L "M  SED") line then
    do i <- py_int (slice 7 10 line);
    match zget (st_dat st) i with
    | None => Ok st
    | Some _ =>
      let v := lower (replace (L "/") [] (strip (slice_from 10 line))) in
      Ok (mk_st (st_atoms st) (dat_upd (st_dat st) i (fun g => mk_sg (sg_type g) (sg_atoms g) (Some v))) (st_log st) false)
    end
  else if startswith (L "M  SMT") line then
    do i <- py_int (slice 7 10 line);
    match zget (st_dat st) i with
    | None => Ok st
    | Some _ =>
      let v := strip (slice_from 10 line) in
      Ok (mk_st (st_atoms st) (dat_upd (st_dat st) i (fun g => mk_sg (sg_type g) (sg_atoms g) (Some v))) (st_log st) false)
    end
  else if negb (startswith (L "M  SDD") line) then
    Ok (mk_st (st_atoms st) (st_dat st) (st_log st ++ [msg "ignored line: " line]) false)
  else Ok st.

(* `for x in dat.values()` after the property block *)
Definition v2_apply_sgroup (al : list patom * list str) (x : sgroup) : pyres (list patom * list str) :=
  let '(atoms, log) := al in
  match sg_type x with
  | None => Err ValueError                                              (* KeyError -> InvalidV2000 *)
  | Some t =>
    if str_eqb t (L "mrv_implicit_h") then
      match sg_atoms x, sg_value x with
      | Some ats, Some value =>
        match ats with
        | [a0] =>
          if (a0 =? -1) || (match value with [] => true | _ => false end) then Err ValueError
          else
            do h <- py_int (slice_from 6 value);
            let k := if a0 <? 0 then Z.of_nat (length atoms) + a0 else a0 in
            if (k <? 0) || (Z.of_nat (length atoms) <=? k) then Err IndexError
            else Ok (update_nth (Z.to_nat k) (set_hyd h) atoms, log)
        | _ => Err ValueError
        end
      | _, _ => Err ValueError                                          (* KeyError -> InvalidV2000 *)
      end
    else Ok (atoms, log ++ [L "ignored data"])
  end.

Definition parse_mol_v2000 (data : list str) : pyres parsed :=
  do line <- of_opt IndexError (nth_error data 3);
  do atoms_count <- py_int (slice 0 3 line);
  do bonds_count <- py_int (slice 3 6 line);
  if atoms_count =? 0 then Err ValueError else                           (* EmptyMolecule *)
  do line0 <- of_opt IndexError (nth_error data 0);
  let title := title_of line0 in
  (* negative counts: Python slices data[4:4+n] with n < 0 count from the end; only non-negative counts are modelled
     (a negative count is reported as OtherError so that the correspondence skips it) *)
  if (atoms_count <? 0) || (bonds_count <? 0) then Err OtherError else
  let na := Z.to_nat atoms_count in let nb := Z.to_nat bonds_count in
  do atoms <- mapM v2_parse_atom (lslice 4 (4 + na) data);
  do bs <- mapM v2_parse_bond (lslice (4 + na) (4 + na + nb) data);
  let bonds := map (fun x => fst (fst x)) bs in
  let stereo := concat (map (fun x => snd (fst x)) bs) in
  let log := concat (map snd bs) in
  do st <- foldM v2_prop_line (skipn (4 + na + nb) data) (mk_st atoms [] log false);
  do al <- foldM v2_apply_sgroup (map snd (st_dat st)) (st_atoms st, st_log st);
  Ok (mk_parsed title (fst al) bonds stereo (snd al)).

(* ------------------------------------------------------------------------------------------------ *)
(** * EMOLWrite._write_molecule (V3000 CTAB).  Lines without their "\n" *)

Definition v3_atom_line (mapping : bool) (n : Z) (a : watom) : str :=
  let c := if wa_chg a =? 0 then [] else L " CHG=" ++ zstr (wa_chg a) in
  let r := if wa_rad a then L " RAD=2" else [] in
  let i := if iso_truthy (wa_iso a) then L " MASS=" ++ zstr (iso_val (wa_iso a)) else [] in
  let m := if mapping then wa_num a else 0 in
  L "M  V30 " ++ zstr n ++ [sp] ++ wa_sym a ++ [sp] ++ wa_x a ++ [sp] ++ wa_y a ++ [sp] ++ wa_z a ++ [sp] ++ zstr m ++ c ++ r ++ i.
Definition v3_bond_line (i o a b : Z) (cfg : str) : str :=
  L "M  V30 " ++ zstr i ++ [sp] ++ zstr o ++ [sp] ++ zstr a ++ [sp] ++ zstr b ++ cfg.
Definition v3_wedge_line (im : list (Z * Z)) (bonds : list (Z * Z * Z)) (iw : Z * (Z * Z * Z)) : pyres str :=
  let '(i, (n, m, s)) := iw in
  do o <- bond_order bonds n m; do a <- idx im n; do b <- idx im m;
  Ok (v3_bond_line i o a b (L " CFG=" ++ (if s =? 1 then L "1" else L "3"))).
Definition v3_plain_line (im : list (Z * Z)) (ib : Z * (Z * Z * Z)) : pyres str :=
  let '(i, (n, m, o)) := ib in
  do a <- idx im n; do b <- idx im m;
  Ok (v3_bond_line i o a b []).
Definition enum_from {A} (start : Z) (l : list A) : list (Z * A) := combine (zrange_from start (length l)) l.

Definition write_ctab_v3000 (mapping : bool) (g : wmol) : pyres (list str) :=
  let im := index_map (wm_atoms g) in
  let na := Z.of_nat (length (wm_atoms g)) in
  let head := [L "M  V30 BEGIN CTAB";
               L "M  V30 COUNTS " ++ zstr na ++ [sp] ++ zstr (Z.of_nat (length (wm_bonds g))) ++ L " 0 0 0";
               L "M  V30 BEGIN ATOM"] in
  let al := map (fun na => v3_atom_line mapping (fst na) (snd na)) (enum_from 1 (wm_atoms g)) in
  do wl <- mapM (v3_wedge_line im (wm_bonds g)) (enum_from 1 (wm_wedge g));
  do bl <- mapM (v3_plain_line im) (enum_from (1 + Z.of_nat (length (wm_wedge g))) (plain_bonds g));
  Ok (head ++ al ++ [L "M  V30 END ATOM"; L "M  V30 BEGIN BOND"] ++ wl ++ bl ++ [L "M  V30 END BOND"; L "M  V30 END CTAB"]).

Definition v3_header (name : str) : list str := [name; []; []; L "  0  0  0     0  0            999 V3000"].
(* the MOL part of ESDFWrite.write / ERDFWrite.write for a molecule *)
Definition write_mol_v3000 (mapping : bool) (g : wmol) : pyres (list str) :=
  do c <- write_ctab_v3000 mapping g; Ok (v3_header (wm_name g) ++ c ++ [L "M  END"]).

(* ------------------------------------------------------------------------------------------------ *)
(** * parse_mol_v3000 *)

(* emol.split: tokens separated by spaces; (...) and "..." groups are kept together *)
Fixpoint split3_aux (s : str) (collect : list str) (tmp : str) (until : option ascii) : list str :=
  match s with
  | [] => match tmp with [] => collect | _ => collect ++ [rev tmp] end
  | c :: r =>
    match until with
    | Some u => split3_aux r collect (c :: tmp) (if Ascii.eqb c u then None else until)
    | None =>
      if Ascii.eqb c "("%char then split3_aux r collect (c :: tmp) (Some ")"%char)
      else if Ascii.eqb c """"%char then split3_aux r collect (c :: tmp) (Some """"%char)
      else if Ascii.eqb c sp then match tmp with [] => split3_aux r collect [] None | _ => split3_aux r (collect ++ [rev tmp]) [] None end
      else split3_aux r collect (c :: tmp) None
    end
  end.
Definition split3 (line : str) : list str := split3_aux line [] [] None.

(* the continuation-joining loop *)
Fixpoint v3_join (lines : list str) (keep : str) : list str :=
  match lines with
  | [] => []
  | line :: r =>
    if endswith [("-")%char; nl] line then
      let body := firstn (length line - 2 - 7) (skipn 7 line) in
      v3_join r (match keep with [] => lstrip body | _ => keep ++ body end)
    else
      let body := skipn 7 line in
      match keep with
      | [] => strip body :: v3_join r []
      | _ => (keep ++ rstrip body) :: v3_join r []
      end
  end.

Record parsed3 := mk_parsed3 { p3 : parsed; p3_meta : list (str * str) }.

Fixpoint sassoc_last {V} (d : list (str * V)) (k : str) : option V :=
  match d with
  | [] => None
  | (k', v) :: r => match sassoc_last r k with Some w => Some w | None => if str_eqb k k' then Some v else None end
  end.
Definition str_mem (x : str) (l : list str) : bool := existsb (str_eqb x) l.
Fixpoint sdict_set {V} (d : list (str * V)) (k : str) (v : V) : list (str * V) :=
  match d with
  | [] => [(k, v)]
  | (k', v') :: r => if str_eqb k k' then (k', v) :: r else (k', v') :: sdict_set r k v
  end.

Record v3atoms := mk_v3a { v3_atoms : list patom; v3_map : list (str * Z); v3_stars : list str }.

Definition v3_parse_atom (st : v3atoms) (line : str) : pyres v3atoms :=
  match split3 line with
  | n :: a :: x :: y :: z :: m :: kvs =>
    if startswith (L "[") a || startswith (L "NOT") a then Err ValueError
    else if str_eqb a (L "*") then Ok (mk_v3a (v3_atoms st) (v3_map st) (v3_stars st ++ [n]))
    else if str_eqb a (L "R#") then Err ValueError
    else
      do icr <- foldM (fun (icr : option Z * Z * bool) kv =>
                         let '(i, c, r) := icr in
                         match split1 "="%char kv with
                         | None => Err ValueError
                         | Some (k, v) =>
                           if str_eqb k (L "CHG") then (do c' <- py_int v; Ok (i, c', r))
                           else if str_eqb k (L "MASS") then (do i' <- py_int v; Ok (Some i', c, r))
                           else if str_eqb k (L "RAD") then Ok (i, c, true)
                           else Ok icr
                         end) kvs (None, 0, false);
      let '(i, c, r) := icr in
      do ai <- (if str_eqb a (L "D") then (if iso_truthy i then Err ValueError else Ok (L "H", Some 2)) else Ok (a, i));
      let '(a, i) := ai in
      do fx <- py_float x; do fy <- py_float y; do fz <- py_float z; do pm <- py_int m;
      Ok (mk_v3a (v3_atoms st ++ [mk_patom a c i pm fx fy fz None r None])
                 (v3_map st ++ [(n, Z.of_nat (length (v3_atoms st)))]) (v3_stars st))
  | _ => Err ValueError
  end.

Record v3bonds := mk_v3b { v3_bonds : list (Z * Z * Z); v3_stereo : list (Z * Z * Z); v3_log : list str }.

Definition amap (st : v3atoms) (k : str) (e : pyexn) : pyres Z := of_opt e (sassoc_last (v3_map st) k).

Definition v3_parse_bond (ats : v3atoms) (st : v3bonds) (line : str) : pyres v3bonds :=
  match split3 line with
  | _ :: t :: a1 :: a2 :: kvs =>
    let s1 := str_mem a1 (v3_stars ats) in
    let s2 := str_mem a2 (v3_stars ats) in
    if s1 && s2 then Ok (mk_v3b (v3_bonds st) (v3_stereo st) (v3_log st ++ [L "invalid bond ignored: star-point to star-point"]))
    else
      do sb <- (if s1 then (do s <- amap ats a2 ValueError; Ok (Some s, v3_bonds st, v3_log st))
                else if s2 then (do s <- amap ats a1 ValueError; Ok (Some s, v3_bonds st, v3_log st))
                else
                  do t <- py_int t;
                  let '(t, lg) := if (t =? 9) || (t =? 10) then (8, [L "coordinate bond replaced to special"]) else (t, []) in
                  do i1 <- amap ats a1 ValueError; do i2 <- amap ats a2 ValueError;
                  Ok (None, v3_bonds st ++ [(i1, i2, t)], v3_log st ++ lg));
      let '(star, bonds, log) := sb in
      do sel <- foldM (fun (sel : list (Z * Z * Z) * option (list str) * list str) kv =>
                         let '(stereo, endpoints, log) := sel in
                         match split_char "="%char kv with
                         | [k; v] =>
                           if str_eqb k (L "CFG") then
                             if str_eqb v (L "1") then (do i1 <- amap ats a1 KeyError; do i2 <- amap ats a2 KeyError; Ok (stereo ++ [(i1, i2, 1)], endpoints, log))
                             else if str_eqb v (L "3") then (do i1 <- amap ats a1 KeyError; do i2 <- amap ats a2 KeyError; Ok (stereo ++ [(i1, i2, -1)], endpoints, log))
                             else Ok (stereo, endpoints, log ++ [L "invalid or unsupported stereo"])
                           else if str_eqb k (L "ENDPTS") then
                             let ep := split_ws (firstn (length v - 1 - 1) (skipn 1 v)) in
                             match ep with
                             | [] => Err IndexError
                             | e0 :: _ => do c <- py_int e0;
                                          if negb (Z.of_nat (length ep) =? c + 1) then Err ValueError else Ok (stereo, Some ep, log)
                             end
                           else Ok sel
                         | _ => Err ValueError
                         end) kvs (v3_stereo st, None, log);
      let '(stereo, endpoints, log) := sel in
      match star with
      | None => Ok (mk_v3b bonds stereo log)
      | Some s =>
        match endpoints with
        | Some (_ :: eps) =>
          do bonds' <- foldM (fun bs m => do i <- amap ats m ValueError; Ok (bs ++ [(s, i, 8)])) eps bonds;
          Ok (mk_v3b bonds' stereo log)
        | _ => Ok (mk_v3b bonds stereo (log ++ [L "Bond ignored. Star atom not allowed as endpoint"]))
        end
      end
  | _ => Err ValueError
  end.

Definition strip_quotes (s : str) : str := strip_by (fun c => Ascii.eqb c """"%char) s.

(* the S-group loop: state = (atoms, log, mode) with mode 0 = drop, 1 = inside SGROUP, 2 = finished *)
Definition v3_sgroup_line (ats : v3atoms) (st : list patom * list str * nat) (line : str) : pyres (list patom * list str * nat) :=
  let '(atoms, log, mode) := st in
  match mode with
  | 2%nat => Ok st
  | _ =>
    if startswith (L "END CTAB") line then Ok (atoms, log, 2%nat)
    else match mode with
    | 0%nat => if startswith (L "BEGIN SGROUP") line then Ok (atoms, log, 1%nat) else Ok st
    | _ =>
      if startswith (L "END SGROUP") line then Ok (atoms, log, 2%nat) else
      match split3 line with
      | _ :: ty :: i :: kvs =>
        if startswith (L "DAT") ty then
          do afd <- foldM (fun (afd : option (list Z) * option str * option str) kv =>
                             let '(a, f, d) := afd in
                             match split1 "="%char kv with
                             | None => Err ValueError
                             | Some (k, v) =>
                               do af <- (if str_eqb k (L "ATOMS") then
                                           (do l <- mapM (fun x => amap ats x KeyError)
                                                         (filter (fun x => negb (str_mem x (v3_stars ats)))
                                                                 (tl (split_ws (firstn (length v - 1 - 1) (skipn 1 v)))));
                                            Ok (Some l, f))
                                         else if str_eqb k (L "FIELDNAME") then Ok (a, Some (strip_quotes v))
                                         else Ok (a, f));
                               let '(a, f) := af in
                               Ok (a, f, if str_eqb k (L "FIELDDATA") then Some (strip_quotes v) else d)
                             end) kvs (None, None, None);
          match afd with
          | (Some (a0 :: _), Some (fc :: fr), Some (dc :: dr)) =>
            if str_eqb (fc :: fr) (L "MRV_IMPLICIT_H") then
              do h <- py_int (slice_from 6 (dc :: dr));
              if (a0 <? 0) || (Z.of_nat (length atoms) <=? a0) then Err IndexError
              else Ok (update_nth (Z.to_nat a0) (set_hyd h) atoms, log, 1%nat)
            else Ok (atoms, log ++ [L "ignored SGROUP DAT"], 1%nat)
          | _ => Ok st
          end
        else if startswith (L "SRU") ty then Err ValueError
        else Ok st
      | _ => Err ValueError
      end
    end
  end.

Definition parse_ctab_v3000 (title : option str) (data : list str) : pyres parsed3 :=
  do l1 <- of_opt IndexError (nth_error data 1);
  match split_ws (slice_from 13 l1) with
  | ac :: bc :: kvs =>
    do atom_count <- py_int ac;
    if atom_count =? 0 then Err ValueError else                         (* EmptyMolecule *)
    do bonds_count <- py_int bc;
    let meta := fold_left (fun meta kv => match split1 "="%char kv with
                                          | Some (k :: kr, v :: vr) => sdict_set meta (k :: kr) (v :: vr)
                                          | _ => meta end) kvs [] in
    if (atom_count <? 0) || (bonds_count <? 0) then Err OtherError else (* negative counts: not modelled *)
    let na := Z.to_nat atom_count in let nb := Z.to_nat bonds_count in
    let data := v3_join (skipn 3 data) [] in
    do ats <- foldM v3_parse_atom (firstn na data) (mk_v3a [] [] []);
    do bs <- foldM (v3_parse_bond ats) (lslice (2 + na) (2 + na + nb) data) (mk_v3b [] [] []);
    do sg <- foldM (v3_sgroup_line ats) (skipn (3 + na + nb) data) (v3_atoms ats, v3_log bs, 0%nat);
    let '(atoms, log, _) := sg in
    Ok (mk_parsed3 (mk_parsed title atoms (v3_bonds bs) (v3_stereo bs) log) meta)
  | _ => Err ValueError                                                  (* not enough values to unpack *)
  end.

Definition parse_mol_v3000 (data : list str) : pyres parsed3 :=
  do l0 <- of_opt IndexError (nth_error data 0);
  parse_ctab_v3000 (title_of l0) (skipn 4 data).

(* ------------------------------------------------------------------------------------------------ *)
(** * parse_rxn_v2000 / parse_rxn_v3000 (ignore=True) *)

Record rparsed := mk_rparsed { r_reactants : list parsed3; r_products : list parsed3; r_reagents : list parsed3;
                               r_title : option str; r_nlog : nat }.

(* next(n for n, x in enumerate(data[from:], from + shift) if x.startswith(p)) *)
Fixpoint find_line (p : str) (l : list str) (i : nat) : option nat :=
  match l with
  | [] => None
  | x :: r => if startswith p x then Some i else find_line p r (S i)
  end.
Definition is_value_error (e : pyexn) : bool :=
  match e with ValueError | IncorrectSmiles | IncorrectSmarts => true | _ => false end.

Record rxnstate := mk_rs { rs_start : nat; rs_mols : list parsed3; rs_rc : Z; rs_pc : Z; rs_gc : Z; rs_log : nat }.

(* one round of `for n in range(0, reagents_count)` with ignore=True (the readers' default): every ValueError of the
   molecule parser (EmptyMolecule included) is logged and the counters are decremented.
   rs_start holds Python's `start` + bias (V2000 starts from -1: bias 1). *)
Definition rxn_loop (pm : list str -> pyres parsed3) (marker : str) (off1 off2 bias : nat) (data : list str)
                    (st : rxnstate) (_ : nat) : pyres rxnstate :=
  do start <- of_opt ValueError (find_line marker (skipn (rs_start st + off1) data) (rs_start st + off2));   (* InvalidV2000 *)
  match pm (skipn start data) with
  | Ok m => Ok (mk_rs (start + bias) (rs_mols st ++ [m]) (rs_rc st) (rs_pc st) (rs_gc st) (rs_log st))
  | Err e =>
    if is_value_error e then
      let lm := Z.of_nat (length (rs_mols st)) in
      if lm <? rs_rc st then Ok (mk_rs (start + bias) (rs_mols st) (rs_rc st - 1) (rs_pc st - 1) (rs_gc st - 1) (S (rs_log st)))
      else if lm <? rs_pc st then Ok (mk_rs (start + bias) (rs_mols st) (rs_rc st) (rs_pc st - 1) (rs_gc st - 1) (S (rs_log st)))
      else Ok (mk_rs (start + bias) (rs_mols st) (rs_rc st) (rs_pc st) (rs_gc st - 1) (S (rs_log st)))
    else Err e
  end.

Definition rxn_result (title : option str) (st : rxnstate) : pyres rparsed :=
  if (rs_rc st <? 0) || (rs_pc st <? rs_rc st) then Err OtherError     (* negative slice bounds: not modelled *)
  else
    let rc := Z.to_nat (rs_rc st) in let pc := Z.to_nat (rs_pc st) in
    Ok (mk_rparsed (firstn rc (rs_mols st)) (lslice rc pc (rs_mols st)) (skipn pc (rs_mols st)) title (rs_log st)).

Definition lift2 (r : pyres parsed) : pyres parsed3 := do p <- r; Ok (mk_parsed3 p []).

Definition parse_rxn_v2000 (data : list str) : pyres rparsed :=
  do line <- of_opt IndexError (nth_error data 4);
  do rc <- py_int (slice 0 3 line);
  do pc <- py_int (slice 3 6 line);
  do gc <- (match rstrip (slice_from 6 line) with [] => Ok 0 | t => py_int t end);
  let pc := pc + rc in let gc := gc + pc in
  if gc =? 0 then Err ValueError else                                   (* EmptyReaction *)
  do l1 <- of_opt IndexError (nth_error data 1);
  if (rc <? 0) || (pc <? rc) || (gc <? pc) then Err OtherError else     (* negative counts: not modelled *)
  do st <- foldM (rxn_loop (fun d => lift2 (parse_mol_v2000 d)) (L "$MOL") 4 5 1 data)
                 (nat_range (Z.to_nat gc)) (mk_rs 0 [] rc pc gc 0);
  rxn_result (title_of l1) st.

Definition parse_rxn_v3000 (data : list str) : pyres rparsed :=
  do line <- of_opt IndexError (nth_error data 4);
  let tmp := split_ws (slice_from 13 line) in
  do t0 <- of_opt IndexError (nth_error tmp 0);
  do rc <- py_int t0;
  do t1 <- of_opt IndexError (nth_error tmp 1);
  do pc <- py_int t1;
  do gc <- (match tmp with [_; _; t2] => py_int t2 | _ => Ok 0 end);
  let pc := pc + rc in let gc := gc + pc in
  if gc =? 0 then Err ValueError else
  do l1 <- of_opt IndexError (nth_error data 1);
  if (rc <? 0) || (pc <? rc) || (gc <? pc) then Err OtherError else
  do st <- foldM (rxn_loop (parse_ctab_v3000 None) (L "M  V30 BEGIN CTAB") 5 5 0 data)
                 (nat_range (Z.to_nat gc)) (mk_rs 1 [] rc pc gc 0);
  rxn_result (title_of l1) st.

(* ------------------------------------------------------------------------------------------------ *)
(** * Metadata blocks *)

Definition fold_replace (m : list (string * string)) (k : str) : str :=
  fold_left (fun k es => replace (L (fst es)) (L (snd es)) k) m k.

(* SDFWrite.write / ESDFWrite.write after the MOL block: text (values may hold several lines) *)
Definition sdf_meta_text (esc : list (string * string)) (meta : list (str * str)) : str :=
  concat (map (fun kv => L ">  <" ++ fold_replace esc (fst kv) ++ L ">" ++ [nl] ++ snd kv ++ [nl; nl]) meta).
(* RDFWrite.write / ERDFWrite.write after the structure *)
Definition rdf_meta_text (meta : list (str * str)) : str :=
  concat (map (fun kv => L "$DTYPE " ++ fst kv ++ [nl] ++ L "$DATUM " ++ snd kv ++ [nl]) meta).

(* re.match(meta_pattern, line) with meta_pattern = ^>([^<]+)<([^>]+)>([^><]* )$ (no blank in the source): the three groups.  The classes force where each group ends, so the
   match is deterministic: group 1 runs to the first '<', group 2 to the next '>', group 3 is the whole rest (a final
   "\n" belongs to the class [^><], so `$` is reached at the very end) and must be free of '<' and '>' *)
Fixpoint take_until (c : ascii) (s : str) (acc : str) : option (str * str) :=
  match s with
  | [] => None
  | d :: r => if Ascii.eqb d c then Some (rev acc, r) else take_until c r (d :: acc)
  end.
Definition meta_match (line : str) : option (str * str * str) :=
  match line with
  | ">"%char :: r =>
    match take_until "<"%char r [] with
    | Some (g1c :: g1r, r2) =>
      match take_until ">"%char r2 [] with
      | Some (g2c :: g2r, r3) =>
        if existsb (fun c => Ascii.eqb c "<"%char || Ascii.eqb c ">"%char) r3 then None
        else Some (g1c :: g1r, g2c :: g2r, r3)
      | _ => None
      end
    | _ => None
    end
  | _ => None
  end.

(* defaultdict(list) in insertion order *)
Fixpoint dd_append (d : list (str * list str)) (k : str) (v : str) : list (str * list str) :=
  match d with
  | [] => [(k, [v])]
  | (k', l) :: r => if str_eqb k k' then (k', l ++ [v]) :: r else (k', l) :: dd_append r k v
  end.
Definition dd_finish (d : list (str * list str)) : list (str * str) := map (fun kv => (fst kv, join [nl] (snd kv))) d.
Definition nonempty (s : str) : bool := match s with [] => false | _ => true end.
Definition unparsed_key : str := L "chython_unparsed_metadata".

(* SDFRead.read_metadata over the lines after M  END; mkey = None and mkey = '' behave alike (both falsy) *)
Definition sdf_meta_step (st : str * list (str * list str)) (line : str) : str * list (str * list str) :=
  let '(mkey, meta) := st in
  match meta_match line with
  | Some (g1, g2, g3) =>
    let k := join [sp] (filter nonempty [strip g1; strip g2; strip g3]) in
    (fold_replace sdf_read_escape k, meta)
  | None =>
    match mkey with
    | [] => (mkey, dd_append meta unparsed_key (strip line))
    | _ => match strip line with [] => st | l => (mkey, dd_append meta mkey l) end
    end
  end.
Definition sdf_read_metadata (lines : list str) : list (str * str) :=
  dd_finish (snd (fold_left sdf_meta_step lines ([], []))).

(* RDFRead.read_metadata: `(line[6:] if line.startswith('$DATUM') else line).strip()` (the literal prefix only) *)
Definition datum_set : str := L "$DATUM".
Definition datum_body (line : str) : str := if startswith datum_set line then slice_from 6 line else line.
Definition rdf_meta_step (st : str * list (str * list str)) (line : str) : str * list (str * list str) :=
  let '(mkey, meta) := st in
  if startswith (L "$DTYPE") line then
    let k := strip (slice_from 7 line) in
    match k with
    | [] => (k, dd_append meta unparsed_key (strip line))
    | _ => (k, meta)
    end
  else match mkey with
       | [] => (mkey, dd_append meta unparsed_key (strip line))
       | _ => match strip (datum_body line) with [] => st | d => (mkey, dd_append meta mkey d) end
       end.
Definition rdf_read_metadata (lines : list str) : list (str * str) :=
  dd_finish (snd (fold_left rdf_meta_step lines ([], []))).

(* ------------------------------------------------------------------------------------------------ *)
(** * Record framing: SDFRead / RDFRead / MDLRead.__iter__ *)

Inductive ioexn := Py (e : pyexn) | EOFError | BufferOverflow.
Inductive outcome := Exhausted           (* EOFError: normal end of the iteration *)
                   | Crashed (e : ioexn) (* an exception that __iter__ does not catch leaves the generator *)
                   | OutOfFuel.

Section Readers.
  Variable A : Type.
  (* everything between the parsed dict and the container: postprocess_parsed_molecule, create_molecule,
     postprocess_molecule (resp. the reaction versions) *)
  Variable build_mol : parsed3 -> pyres A.
  Variable build_rxn : rparsed -> pyres A.
  Variable buffer_size : nat.

  (* SDFRead._read_block(current=False): (None = BufferOverflow | Some (buffer, m_end, stopped at a delimiter), rest of the file);
     the flag is false when the file iterator was exhausted (the `else` of the for loop) *)
  Fixpoint sdf_block (file : list str) (n : nat) (buf : list str) (m_end : option nat) : option (list str * option nat * bool) * list str :=
    match file with
    | [] => (Some (buf, m_end, false), [])
    | line :: rest =>
      if startswith (L "$$$$") line then (Some (buf, m_end, true), rest)
      else if Nat.eqb n buffer_size then (None, rest)
      else
        let buf' := buf ++ [line] in
        let m_end' := match m_end with
                      | Some _ => m_end
                      | None => if startswith (L "M  END") line then Some (length buf') else None
                      end in
        sdf_block rest (S n) buf' m_end'
    end.

  Definition dispatch_mol (data : list str) : pyres A :=
    do l4 <- of_opt IndexError (nth_error data 4);
    do p <- (if startswith (L "M  V30 BEGIN CTAB") l4 then parse_mol_v3000 data else lift2 (parse_mol_v2000 data));
    build_mol p.

  (* SDFRead.read_structure(current=False) on the file iterator *)
  Definition sdf_read_structure (file : list str) : (A * list (str * str) + ioexn) * list str :=
    match sdf_block file 0 [] None with
    | (None, rest) => (inr BufferOverflow, rest)
    | (Some ([], _, false), rest) => (inr EOFError, rest)                     (* end of file *)
    | (Some ([], _, true), rest) => (inr (Py ValueError), rest)               (* empty record: InvalidMolBlock *)
    | (Some (buf, None, _), rest) => (inr (Py ValueError), rest)              (* InvalidMolBlock *)
    | (Some (buf, Some k, _), rest) =>
      match dispatch_mol (firstn k buf) with
      | Err e => (inr (Py e), rest)
      | Ok mol => (inl (mol, sdf_read_metadata (skipn k buf)), rest)
      end
    end.

  (* MDLRead.__iter__: `except (ValueError, IndexError): pass` *)
  Definition is_skipped (e : pyexn) : bool := is_value_error e || match e with IndexError => true | _ => false end.
  Fixpoint sdf_iter (fuel : nat) (file : list str) : list (A * list (str * str)) * outcome :=
    match fuel with
    | O => ([], OutOfFuel)
    | S f =>
      match sdf_read_structure file with
      | (inl x, rest) => let '(l, o) := sdf_iter f rest in (x :: l, o)
      | (inr EOFError, _) => ([], Exhausted)
      | (inr (Py e), rest) => if is_skipped e then sdf_iter f rest else ([], Crashed (Py e))
      | (inr e, _) => ([], Crashed e)
      end
    end.
  Definition sdf_read (file : list str) : list (A * list (str * str)) * outcome := sdf_iter (S (length file)) file.

  (* MDLRead.__getitem__(slice) with step 1 on an indexable reader: seek(start), then stop - start read ATTEMPTS (not: until
     stop - start records were collected); EOFError ends the loop, ValueError is skipped (IndexError is NOT caught here), anything
     else propagates (then there is no result).  SDFRead.reset_index: grep -bE '\$\$\$\$' : one index entry after every line that
     CONTAINS "$$$$", the last one dropped, entry 0 = start of the file *)
  Definition has_delim (l : str) : bool := contains (L "$$$$") l.
  Fixpoint sdf_seek (file : list str) (k : nat) : list str :=
    match k, file with
    | O, _ => file
    | _, [] => []
    | S k', l :: r => if has_delim l then sdf_seek r k' else sdf_seek r k
    end.
  Definition sdf_index_len (file : list str) : nat := length (filter has_delim file).
  Fixpoint sdf_take (n : nat) (file : list str) : list (A * list (str * str)) * outcome :=
    match n with
    | O => ([], Exhausted)
    | S k =>
      match sdf_read_structure file with
      | (inl x, rest) => let '(l, o) := sdf_take k rest in (x :: l, o)
      | (inr EOFError, _) => ([], Exhausted)
      | (inr (Py e), rest) => if is_value_error e then sdf_take k rest else ([], Crashed (Py e))
      | (inr e, _) => ([], Crashed e)
      end
    end.
  (* slice.indices for 0 <= i, 0 <= j *)
  Definition sdf_getslice (i j : nat) (file : list str) : list (A * list (str * str)) * outcome :=
    let n := sdf_index_len file in
    let a := Nat.min i n in let b := Nat.min j n in
    if Nat.leb b a then ([], Exhausted) else sdf_take (b - a) (sdf_seek file a).

  (* RDFRead._read_block(current=False); tell = number of records read so far.
     (None = BufferOverflow | Some (buffer, m_start), rest) *)
  Definition is_fmt (line : str) : bool := startswith (L "$RFMT") line || startswith (L "$MFMT") line.
  Definition falsy (m : option nat) : bool := match m with None | Some O => true | _ => false end.
  Fixpoint rdf_block (file : list str) (n : nat) (drop : bool) (buf : list str) (m_start : option nat)
    : option (list str * option nat) * list str :=
    match file with
    | [] => (Some (buf, m_start), [])
    | line :: rest =>
      if drop then
        if startswith (L "$RXN") line then rdf_block rest (S n) false (buf ++ [line]) m_start
        else if is_fmt line then rdf_block rest (S n) false buf m_start
        else rdf_block rest (S n) true buf m_start
      else if Nat.eqb n buffer_size then (None, rest)
      else if falsy m_start && startswith (L "$DTYPE") line then rdf_block rest (S n) false (buf ++ [line]) (Some (length buf))
      else if is_fmt line then
        match buf with
        | [] => rdf_block rest (S n) false buf m_start     (* `if not buffer: continue`: the format line of the requested record itself (after seek) *)
        | _ => (Some (buf, m_start), rest)
        end
      else rdf_block rest (S n) false (buf ++ [line]) m_start
    end.

  Definition rdf_dispatch (data : list str) : pyres A :=
    do l0 <- of_opt IndexError (nth_error data 0);
    if startswith (L "$RXN") l0 then
      do l4 <- of_opt IndexError (nth_error data 4);
      do r <- (if startswith (L "M  V30 COUNTS") l4 then parse_rxn_v3000 data else parse_rxn_v2000 data);
      build_rxn r
    else dispatch_mol data.

  Definition rdf_read_structure (tell : nat) (file : list str) : (A * list (str * str) + ioexn) * list str :=
    match rdf_block file 0 (Nat.eqb tell 0) [] None with
    | (None, rest) => (inr BufferOverflow, rest)
    | (Some ([], _), rest) => (inr EOFError, rest)
    | (Some (buf, m_start), rest) =>
      let meta := rdf_read_metadata (if falsy m_start then [] else skipn (match m_start with Some k => k | None => 0 end) buf) in
      match rdf_dispatch buf with
      | Err e => (inr (Py e), rest)
      | Ok x => (inl (x, meta), rest)
      end
    end.

  Fixpoint rdf_iter (fuel : nat) (tell : nat) (file : list str) : list (A * list (str * str)) * outcome :=
    match fuel with
    | O => ([], OutOfFuel)
    | S f =>
      match rdf_read_structure tell file with
      | (inl x, rest) => let '(l, o) := rdf_iter f (S tell) rest in (x :: l, o)
      | (inr EOFError, _) => ([], Exhausted)
      | (inr (Py e), rest) => if is_skipped e then rdf_iter f (S tell) rest else ([], Crashed (Py e))
      | (inr e, _) => ([], Crashed e)
      end
    end.
  Definition rdf_read (file : list str) : list (A * list (str * str)) * outcome := rdf_iter (S (length file)) 0 file.

  (* RDFRead.reset_index: grep -bE '^\$[RM]FMT': one entry AT every format line, entry 0 forced to the start of the file;
     seek(k) also sets tell = k *)
  Fixpoint rdf_seek_fmt (file : list str) (k : nat) : list str :=
    match file with
    | [] => []
    | l :: r => if is_fmt l then match k with O => file | S k' => rdf_seek_fmt r k' end else rdf_seek_fmt r k
    end.
  Definition rdf_seek (file : list str) (k : nat) : list str := match k with O => file | _ => rdf_seek_fmt file k end.
  Definition rdf_index_len (file : list str) : nat := length (filter is_fmt file).
  Fixpoint rdf_take (n tell : nat) (file : list str) : list (A * list (str * str)) * outcome :=
    match n with
    | O => ([], Exhausted)
    | S k =>
      match rdf_read_structure tell file with
      | (inl x, rest) => let '(l, o) := rdf_take k (S tell) rest in (x :: l, o)
      | (inr EOFError, _) => ([], Exhausted)
      | (inr (Py e), rest) => if is_value_error e then rdf_take k (S tell) rest else ([], Crashed (Py e))
      | (inr e, _) => ([], Crashed e)
      end
    end.
  Definition rdf_getslice (i j : nat) (file : list str) : list (A * list (str * str)) * outcome :=
    let n := rdf_index_len file in
    let a := Nat.min i n in let b := Nat.min j n in
    if Nat.leb b a then ([], Exhausted) else rdf_take (b - a) a (rdf_seek file a).
End Readers.

(* ------------------------------------------------------------------------------------------------ *)
(** * Whole records as the writers emit them (text) *)

Definition sdf_record_text (mapping : bool) (g : wmol) (meta : list (str * str)) : pyres str :=
  do ls <- write_mol_v2000 mapping g;
  Ok (text_of_lines ls ++ sdf_meta_text sdf_write_escape meta ++ L "$$$$" ++ [nl]).
Definition esdf_record_text (mapping : bool) (g : wmol) (meta : list (str * str)) : pyres str :=
  do ls <- write_mol_v3000 mapping g;
  Ok (text_of_lines ls ++ sdf_meta_text esdf_write_escape meta ++ L "$$$$" ++ [nl]).

Record wrxn := mk_wrxn { wr_name : str; wr_reactants : list wmol; wr_products : list wmol; wr_reagents : list wmol }.

Definition rdf_mol_text (mapping : bool) (g : wmol) (meta : list (str * str)) : pyres str :=
  do ls <- write_mol_v2000 mapping g;
  Ok (L "$MFMT" ++ [nl] ++ text_of_lines ls ++ rdf_meta_text meta).
Definition rdf_rxn_text (mapping : bool) (r : wrxn) (meta : list (str * str)) : pyres str :=
  let cnt := fmt_d 3 (Z.of_nat (length (wr_reactants r))) ++ fmt_d 3 (Z.of_nat (length (wr_products r))) ++
             (match wr_reagents r with [] => [] | _ => fmt_d 3 (Z.of_nat (length (wr_reagents r))) end) in
  do ms <- mapM (fun g => do ls <- write_mol_v2000 mapping g; Ok (L "$MOL" ++ [nl] ++ text_of_lines ls))
                (wr_reactants r ++ wr_products r ++ wr_reagents r);
  Ok (L "$RFMT" ++ [nl] ++ text_of_lines [L "$RXN"; wr_name r; []; []; cnt] ++ concat ms ++ rdf_meta_text meta).
Definition erdf_mol_text (mapping : bool) (g : wmol) (meta : list (str * str)) : pyres str :=
  do ls <- write_mol_v3000 mapping g;
  Ok (L "$MFMT" ++ [nl] ++ text_of_lines ls ++ rdf_meta_text meta).
Definition erdf_rxn_text (mapping : bool) (r : wrxn) (meta : list (str * str)) : pyres str :=
  let cnt := L "M  V30 COUNTS " ++ zstr (Z.of_nat (length (wr_reactants r))) ++ [sp] ++ zstr (Z.of_nat (length (wr_products r))) ++
             (match wr_reagents r with [] => [] | _ => [sp] ++ zstr (Z.of_nat (length (wr_reagents r))) end) in
  do rs <- mapM (write_ctab_v3000 mapping) (wr_reactants r);
  do ps <- mapM (write_ctab_v3000 mapping) (wr_products r);
  do gs <- mapM (write_ctab_v3000 mapping) (wr_reagents r);
  Ok (L "$RFMT" ++ [nl] ++
      text_of_lines ([L "$RXN V3000"; wr_name r; []; []; cnt; L "M  V30 BEGIN REACTANT"] ++ concat rs ++
                     [L "M  V30 END REACTANT"; L "M  V30 BEGIN PRODUCT"] ++ concat ps ++ [L "M  V30 END PRODUCT"] ++
                     (match wr_reagents r with [] => [] | _ => [L "M  V30 BEGIN AGENT"] ++ concat gs ++ [L "M  V30 END AGENT"] end) ++
                     [L "M  END"]) ++
      rdf_meta_text meta).

(* ------------------------------------------------------------------------------------------------ *)
(** * Writer sessions: IO.__init__ (open mode) and _RDFWrite.__init__ (is the "$RDFILE 1 / $DATM" header written?) *)

(* one session = one writer object from construction to close: target kind, append flag, the texts of the records it writes
   (each as RDFWrite.write / SDFWrite.write emits it).  A path is opened 'a' if append else 'w' (truncating); a buffer
   (StringIO / opened file object) is written at its current position, which is its end in a history of sessions. *)
Record session := mk_session { ss_buffer : bool; ss_append : bool; ss_records : list str }.

(* _RDFWrite.__init__: `if not append or not (self._is_buffer or self._file.tell() != 0): self.write = self.__write`
   (the header is then written lazily by the first write) *)
Definition rdf_writes_header (is_buffer append tell_nonzero : bool) : bool := negb append || negb (is_buffer || tell_nonzero).
Definition rdf_header_text (stamp : str) : str := L "$RDFILE 1" ++ [nl] ++ L "$DATM    " ++ stamp ++ [nl].

Definition session_start (file : str) (s : session) : str := if ss_buffer s then file else if ss_append s then file else [].
Definition rdf_session (stamp : str) (file : str) (s : session) : str :=
  let start := session_start file s in
  let header := rdf_writes_header (ss_buffer s) (ss_append s) (nonempty start) in
  start ++ (match ss_records s with [] => [] | _ => if header then rdf_header_text stamp else [] end) ++ concat (ss_records s).
Definition rdf_sessions (stamp : str) (ss : list session) : str := fold_left (rdf_session stamp) ss [].
(* SDFWrite / ESDFWrite: no header, only the open mode matters *)
Definition sdf_session (file : str) (s : session) : str := session_start file s ++ concat (ss_records s).
Definition sdf_sessions (ss : list session) : str := fold_left sdf_session ss [].

(* ------------------------------------------------------------------------------------------------ *)
(** * Boolean equalities (used by the correspondence cases) *)

Definition zzz_eqb (a b : Z * Z * Z) : bool :=
  let '(a1, a2, a3) := a in let '(b1, b2, b3) := b in (a1 =? b1) && (a2 =? b2) && (a3 =? b3).
Definition patom_eqb (a b : patom) : bool :=
  str_eqb (pa_elem a) (pa_elem b) && (pa_chg a =? pa_chg b) && option_eqb Z.eqb (pa_iso a) (pa_iso b) &&
  (pa_map a =? pa_map b) && fval_eqb (pa_x a) (pa_x b) && fval_eqb (pa_y a) (pa_y b) && fval_eqb (pa_z a) (pa_z b) &&
  option_eqb Z.eqb (pa_delta a) (pa_delta b) && Bool.eqb (pa_rad a) (pa_rad b) && option_eqb Z.eqb (pa_hyd a) (pa_hyd b).
Definition parsed_eqb (a b : parsed) : bool :=
  option_eqb str_eqb (p_title a) (p_title b) && list_eqb patom_eqb (p_atoms a) (p_atoms b) &&
  list_eqb zzz_eqb (p_bonds a) (p_bonds b) && list_eqb zzz_eqb (p_stereo a) (p_stereo b) && list_eqb str_eqb (p_log a) (p_log b).
Definition ss_eqb (a b : str * str) : bool := str_eqb (fst a) (fst b) && str_eqb (snd a) (snd b).
Definition parsed3_eqb (a b : parsed3) : bool := parsed_eqb (p3 a) (p3 b) && list_eqb ss_eqb (p3_meta a) (p3_meta b).
Definition rparsed_eqb (a b : rparsed) : bool :=
  list_eqb parsed3_eqb (r_reactants a) (r_reactants b) && list_eqb parsed3_eqb (r_products a) (r_products b) &&
  list_eqb parsed3_eqb (r_reagents a) (r_reagents b) && option_eqb str_eqb (r_title a) (r_title b) && Nat.eqb (r_nlog a) (r_nlog b).
Definition ioexn_eqb (a b : ioexn) : bool :=
  match a, b with Py x, Py y => pyexn_eqb x y | EOFError, EOFError | BufferOverflow, BufferOverflow => true | _, _ => false end.
Definition outcome_eqb (a b : outcome) : bool :=
  match a, b with Exhausted, Exhausted | OutOfFuel, OutOfFuel => true | Crashed x, Crashed y => ioexn_eqb x y | _, _ => false end.
(* a result the model declares out of its scope (negative counts ...) *)
Definition not_modelled {A} (r : pyres A) : bool := match r with Err OtherError => true | _ => false end.
