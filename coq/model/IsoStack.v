(* C07 round 4: the reference matcher `_get_mapping` of chython/algorithms/isomorphism.py in its OWN form -- the explicit stack
   (deque used as a stack), `path`, `mapping`, `reversed_mapping` with the LAZY clean-up of path[depth:], `order_depth`, and the
   re-parenting `n = path[order_depth[back]]` -- one Gallina step per `n, depth = stack.pop()` iteration.  The start test and the
   candidate test are the functions TRANSLATED from the source (Gen.IsoMatch.g_init_ok / g_cand_ok).  Model.Iso.get_mapping is the
   recursive form; Proofs.IsoStackProofs shows that this loop terminates and yields exactly the same sequence.

   Python exceptions are modelled (linear_query[depth] IndexError, order_depth[back] KeyError, path[k] IndexError,
   reversed_mapping.pop(x) / del mapping[..] KeyError); as in Model.Iso, o_bonds[n] of an unknown atom is the empty adjacency
   (a container never holds such dictionaries).  Fuel is a termination device: Err OtherError = out of fuel. *)
From Coq Require Import ZArith List Bool Lia.
From Model Require Import PyBase Iso.
From Gen Require Import IsoMatch.
Import ListNotations.
Open Scope Z_scope.

(* order_depth = {v[0]: k for k, v in enumerate(linear_query)}: a repeated key keeps its LAST index *)
Fixpoint last_index (qs : list Z) (b : Z) (i : nat) : option nat :=
  match qs with
  | [] => None
  | q :: r => match last_index r b (S i) with
              | Some j => Some j
              | None => if q =? b then Some i else None
              end
  end.

(* for x in path[depth:]: del mapping[reversed_mapping.pop(x)] *)
Fixpoint sm_cleanup (xs : list Z) (mp rm : mapping) : pyres (mapping * mapping) :=
  match xs with
  | [] => Ok (mp, rm)
  | x :: r =>
      match zget rm x with
      | None => Err KeyError                                (* reversed_mapping.pop(x) *)
      | Some q =>
          match zget mp q with
          | None => Err KeyError                            (* del mapping[q] *)
          | Some _ => sm_cleanup r (dict_del mp q) (dict_del rm x)
          end
      end
  end.

Section Stack.
  Variables QA A QB B : Type.
  Variable am : QA -> A -> bool.
  Variable bm : QB -> B -> bool.
  Variable lq : list (lentry QA QB).                        (* linear_query *)
  Variable clo : closures_t QB.                             (* query_closures *)
  Variable o_atoms : list (Z * A).
  Variable o_bonds : list (Z * list (Z * B)).
  Variable scope : list Z.

  Record sm_state := mkSM { sm_stack : list (Z * nat);      (* head = top of the stack *)
                            sm_path : list Z; sm_map : mapping; sm_rev : mapping }.

  Definition sm_size : nat := (length lq - 1)%nat.          (* size = len(linear_query) - 1 *)

  (* one iteration of `while stack:` with a non-empty stack: (what is yielded, the next state) *)
  Definition sm_step (s : sm_state) : pyres (option mapping * sm_state) :=
    match sm_stack s with
    | [] => Err IndexError                                  (* pop from an empty deque: the loop test excludes it *)
    | (n, depth) :: stk =>
        match nth_error lq depth with
        | None => Err IndexError
        | Some e =>
            let current := fst4 e in
            if (depth =? sm_size)%nat then
              Ok (Some (dict_set (sm_map s) current n), mkSM stk (sm_path s) (sm_map s) (sm_rev s))   (* yield {**mapping, current: n} *)
            else
              match (if (length (sm_path s) =? depth)%nat then Ok (sm_map s, sm_rev s)
                     else sm_cleanup (skipn depth (sm_path s)) (sm_map s) (sm_rev s)) with
              | Err x => Err x
              | Ok (mp0, rm0) =>
                  let path := firstn depth (sm_path s) ++ [n] in          (* path = path[:depth]; path.append(n) *)
                  let mp := dict_set mp0 current n in                      (* mapping[current] = n *)
                  let rm := dict_set rm0 n current in                      (* reversed_mapping[n] = current *)
                  match nth_error lq (S depth) with
                  | None => Err IndexError
                  | Some (s_n, back, s_atom, s_bond) =>
                      match (if opt_is back current then Ok n              (* if back != current: n = path[order_depth[back]] *)
                             else match back with
                                  | None => Err KeyError
                                  | Some b => match last_index (map fst4 lq) b 0 with
                                              | None => Err KeyError
                                              | Some k => match nth_error path k with Some x => Ok x | None => Err IndexError end
                                              end
                                  end) with
                      | Err x => Err x
                      | Ok n' =>
                          let cands := filter (fun ob => g_cand_ok am bm clo o_atoms o_bonds scope mp rm n' s_n s_atom s_bond (fst ob) (snd ob))
                                              (adj_get o_bonds n') in
                          Ok (None, mkSM (rev (map (fun ob => (fst ob, S depth)) cands) ++ stk) path mp rm)
                      end
                  end
              end
        end
    end.

  Fixpoint sm_run (fuel : nat) (s : sm_state) : pyres (list mapping) :=
    match fuel with
    | O => Err OtherError
    | S k =>
        match sm_stack s with
        | [] => Ok []
        | _ =>
            match sm_step s with
            | Err x => Err x
            | Ok (y, s') =>
                match sm_run k s' with
                | Err x => Err x
                | Ok out => Ok (match y with Some m => m :: out | None => out end)
                end
            end
        end
    end.

  (* s_n, _, s_atom, _ = linear_query[0]; for n, o_atom in o_atoms.items(): if <start test>: stack.append((n, 0)) *)
  Definition sm_init : pyres sm_state :=
    match lq with
    | [] => Err IndexError
    | (s_n, _, s_atom, _) :: _ =>
        Ok (mkSM (rev (map (fun na => (fst na, O)) (filter (fun na => g_init_ok am scope s_atom (fst na) (snd na)) o_atoms))) [] [] [])
    end.

  Definition sm_get_mapping (fuel : nat) : pyres (list mapping) :=
    match sm_init with
    | Err x => Err x
    | Ok s => sm_run fuel s
    end.
End Stack.

Arguments sm_get_mapping {QA A QB B} am bm lq clo o_atoms o_bonds scope fuel.
Arguments sm_run {QA A QB B} am bm lq clo o_atoms o_bonds scope fuel s.
Arguments sm_step {QA A QB B} am bm lq clo o_atoms o_bonds scope s.
Arguments sm_init {QA A QB} am lq o_atoms scope.

(* instance for the correspondence runner: integer labels *)
Definition zsm_get_mapping := @sm_get_mapping Z Z Z Z Z.eqb Z.eqb.
Definition sm_agrees (lq : list (lentry Z Z)) (clo : closures_t Z) (o_atoms : list (Z * Z)) (o_bonds : list (Z * list (Z * Z))) (scope : list Z)
           (fuel : nat) : bool :=
  pyres_eqb (list_eqb mapping_eqb) (zsm_get_mapping lq clo o_atoms o_bonds scope fuel) (Ok (zget_mapping lq clo o_atoms o_bonds scope)).

(* intermediate states for the correspondence: the state at every `n, depth = stack.pop()` (before the iteration runs), as
   ((n, depth) :: rest of the stack top first, path INCLUDING its stale tail, mapping.items(), reversed_mapping.items()) *)
Fixpoint sm_states {QA A QB B} (am : QA -> A -> bool) (bm : QB -> B -> bool) lq clo o_atoms o_bonds scope (fuel : nat) (s : sm_state) : list sm_state :=
  match fuel with
  | O => []
  | S k =>
      match sm_stack s with
      | [] => []
      | _ => s :: match sm_step am bm lq clo o_atoms o_bonds scope s with
                  | Ok (_, s') => sm_states am bm lq clo o_atoms o_bonds scope k s'
                  | Err _ => []
                  end
      end
  end.

Definition sm_obs := (list (Z * Z) * list Z * list (Z * Z) * list (Z * Z))%type.
Definition sm_encode (s : sm_state) : sm_obs := (map (fun x => (fst x, Z.of_nat (snd x))) (sm_stack s), sm_path s, sm_map s, sm_rev s).
Definition sm_obs_eqb (a b : sm_obs) : bool :=
  let '(s1, p1, m1, r1) := a in let '(s2, p2, m2, r2) := b in
  mapping_eqb s1 s2 && list_eqb Z.eqb p1 p2 && mapping_eqb m1 m2 && mapping_eqb r1 r2.
(* the observed states of the real loop = the model's states, AND the loop run with exactly one unit of fuel per observed pop (+1 for the
   final empty-stack test) yields the recursive model's sequence *)
Definition sm_check (lq : list (lentry Z Z)) (clo : closures_t Z) (o_atoms : list (Z * Z)) (o_bonds : list (Z * list (Z * Z))) (scope : list Z)
           (obs : list sm_obs) : bool :=
  match sm_init Z.eqb lq o_atoms scope with
  | Err _ => false
  | Ok s => list_eqb sm_obs_eqb (map sm_encode (sm_states Z.eqb Z.eqb lq clo o_atoms o_bonds scope (S (List.length obs)) s)) obs
  end && sm_agrees lq clo o_atoms o_bonds scope (S (List.length obs)).
