(* Model of the structural part of chython/files/daylight/smiles.py : smiles(), of
   chython/files/_mapping.py : postprocess_parsed_molecule / postprocess_parsed_reaction and of the structural part of
   chython/files/_convert.py : create_molecule / create_reaction (atoms under their numbers, bonds with loop / duplicate /
   order rejection).  NOT modelled: labels, implicit-hydrogen recheck and radical guessing of create_molecule, and the
   stereo assignment of postprocess_molecule (C04 / C12 / search).

   INTERFACE
     read_with tk pr rg ignore remap s : pyres rresult   -- tk = tokenizer, pr = parser, rg = "radical index guard present"
     read ignore remap s               = read_with tokenize parse true ignore remap s       (the code as it is: both
                                       branches of smiles() check the CX radical index and raise IncorrectSmiles)
     pp_molecule / pp_reaction         the two numbering functions on lists of parsed atom maps (0 = no map)
   Exceptions: MappingError, EmptyReaction ... are ValueError subclasses and appear as Err ValueError. *)
From Coq Require Import ZArith List String Ascii Bool.
From Model Require Import PyBase Tokenize Parser.
From Gen Require Import TokenTables Elements.
Import ListNotations.
Open Scope Z_scope.

(* ------------------------------------------------------------------------------------------------ str helpers *)
(* str.split(): Unicode white space among the code points 0..255 *)
Definition is_space (c : ascii) : bool := zmem (code c) [9; 10; 11; 12; 13; 28; 29; 30; 31; 32; 133; 160].
Fixpoint split_ws_aux (l cur : list ascii) : list (list ascii) :=
  match l with
  | [] => match cur with [] => [] | _ => [rev cur] end
  | c :: r => if is_space c then match cur with [] => split_ws_aux r [] | _ => rev cur :: split_ws_aux r [] end
              else split_ws_aux r (c :: cur)
  end.
Definition split_ws (l : list ascii) : list (list ascii) := split_ws_aux l [].
(* str.split(sep) *)
Fixpoint split_on_aux (sep : ascii) (l cur : list ascii) : list (list ascii) :=
  match l with
  | [] => [rev cur]
  | c :: r => if Ascii.eqb c sep then rev cur :: split_on_aux sep r [] else split_on_aux sep r (c :: cur)
  end.
Definition split_on (sep : ascii) (l : list ascii) : list (list ascii) := split_on_aux sep l [].
Fixpoint join_with (sep : ascii) (ls : list (list ascii)) : list ascii :=
  match ls with [] => [] | [x] => x | x :: r => x ++ sep :: join_with sep r end.

Fixpoint span (f : ascii -> bool) (l : list ascii) : list ascii * list ascii :=
  match l with
  | c :: r => if f c then let '(a, b) := span f r in (c :: a, b) else ([], l)
  | [] => ([], [])
  end.

(* ------------------------------------------------------------------------------------------------ the two CX regular expressions *)
(* (?:\.[0-9]+)*  greedy *)
Fixpoint dot_nums (fuel : nat) (l : list ascii) : list (list ascii) * list ascii :=
  match fuel with
  | O => ([], l)
  | S k => match l with
           | "."%char :: r => let '(d, r') := span is_digit r in
                              match d with [] => ([], l) | _ => let '(ds, r'') := dot_nums k r' in (d :: ds, r'') end
           | _ => ([], l)
           end
  end.
(* [0-9]+(?:\.[0-9]+)+ *)
Definition frag_group (l : list ascii) : option (list (list ascii) * list ascii) :=
  let '(d0, r) := span is_digit l in
  match d0 with
  | [] => None
  | _ => let '(ds, r') := dot_nums (List.length r) r in match ds with [] => None | _ => Some (d0 :: ds, r') end
  end.
(* (?:,G)*  greedy *)
Fixpoint more_groups (fuel : nat) (l : list ascii) : list (list (list ascii)) :=
  match fuel with
  | O => []
  | S k => match l with
           | ","%char :: r => match frag_group r with Some (g, r') => g :: more_groups k r' | None => [] end
           | _ => []
           end
  end.
(* cx_fragments matched AT the head of l *)
Definition frag_at (l : list ascii) : option (list (list (list ascii))) :=
  match l with
  | "f"%char :: ":"%char :: r => match frag_group r with Some (g, r') => Some (g :: more_groups (List.length r') r') | None => None end
  | _ => None
  end.
(* re.search(cx_fragments, l): leftmost match *)
Fixpoint frag_search (l : list ascii) : option (list (list (list ascii))) :=
  match frag_at l with
  | Some g => Some g
  | None => match l with [] => None | _ :: r => frag_search r end
  end.

(* (?:,[0-9]+)* greedy *)
Fixpoint comma_nums (fuel : nat) (l : list ascii) : list (list ascii) * list ascii :=
  match fuel with
  | O => ([], l)
  | S k => match l with
           | ","%char :: r => let '(d, r') := span is_digit r in
                              match d with [] => ([], l) | _ => let '(ds, r'') := comma_nums k r' in (d :: ds, r'') end
           | _ => ([], l)
           end
  end.
(* cx_radicals matched AT the head of l: the numbers and the rest *)
Definition rad_at (l : list ascii) : option (list (list ascii) * list ascii) :=
  match l with
  | "^"%char :: c :: ":"%char :: r =>
      if in_range c "1" "7" then
        let '(d, r') := span is_digit r in
        match d with [] => None | _ => let '(ds, r'') := comma_nums (List.length r') r' in Some (d :: ds, r'') end
      else None
  | _ => None
  end.
(* re.findall(cx_radicals, l), flattened to the number texts *)
Fixpoint rad_findall (fuel : nat) (l : list ascii) : list (list ascii) :=
  match fuel with
  | O => []
  | S k => match rad_at l with
           | Some (ds, r) => ds ++ rad_findall k r
           | None => match l with [] => [] | _ :: r => rad_findall k r end
           end
  end.

Fixpoint map_res {A B} (f : A -> pyres B) (l : list A) : pyres (list B) :=
  match l with
  | [] => Ok []
  | x :: r => match f x with Err e => Err e | Ok y => match map_res f r with Ok r' => Ok (y :: r') | Err e => Err e end end
  end.

Fixpoint zsort_insert (x : Z) (l : list Z) : list Z :=
  match l with [] => [x] | y :: r => if x <=? y then x :: l else y :: zsort_insert x r end.
Definition zsort (l : list Z) : list Z := fold_right zsort_insert [] l.

(* the CXSMILES block: (radicals, contract) *)
Definition cx_block (cxs : list ascii) : pyres (list Z * option (list (list Z))) :=
  let rads := map_res py_int (rad_findall (S (List.length cxs)) cxs) in
  let rads_checked := match rads with
                      | Err e => Err e
                      | Ok r => Ok (if nodup_z r then r else [])
                      end in
  match frag_search cxs with
  | Some groups =>
      match map_res (fun g => match map_res py_int g with Ok l => Ok (zsort l) | Err e => Err e end) groups with
      | Err e => Err e
      | Ok contract =>
          let contract' := if nodup_z (List.concat contract) then Some contract else None in
          match rads_checked with Err e => Err e | Ok r => Ok (r, contract') end
      end
  | None => match rads_checked with Err e => Err e | Ok r => Ok (r, None) end
  end.

Definition starts_with (c : ascii) (l : list ascii) : bool := match l with x :: _ => Ascii.eqb x c | [] => false end.
Definition ends_with (c : ascii) (l : list ascii) : bool := starts_with c (rev l).

(* ------------------------------------------------------------------------------------------------ _mapping.py *)
Definition map_of (a : atomtok) : Z := match at_map a with Some m => m | None => 0 end.     (* x.get('parsed_mapping') or 0 *)
Fixpoint zmax_list (l : list Z) (acc : Z) : Z := match l with [] => acc | x :: r => zmax_list r (Z.max acc x) end.

(* the loop of postprocess_parsed_molecule / the second loop of postprocess_parsed_reaction:
   next = next value of the counter, used = set of maps kept *)
Fixpoint number_loop (ignore : bool) (maps : list Z) (next : Z) (used : list Z) : pyres (list Z * Z) :=
  match maps with
  | [] => Ok ([], next)
  | m :: r =>
      if m =? 0 then match number_loop ignore r (next + 1) used with Ok (o, n) => Ok (next :: o, n) | Err e => Err e end
      else if zmem m used then
        if negb ignore then Err ValueError                      (* MappingError *)
        else match number_loop ignore r (next + 1) used with Ok (o, n) => Ok (next :: o, n) | Err e => Err e end
      else match number_loop ignore r next (m :: used) with Ok (o, n) => Ok (m :: o, n) | Err e => Err e end
  end.

Definition pp_molecule (remap ignore : bool) (maps : list Z) : pyres (list Z) :=
  if remap then Ok (zrange 1 (Z.of_nat (List.length maps) + 1))
  else match maps with
       | [] => Err ValueError                                    (* max() of an empty sequence *)
       | _ => match number_loop ignore maps (zmax_list maps 0 + 1) [] with Ok (o, _) => Ok o | Err e => Err e end
       end.

(* first loop of postprocess_parsed_reaction: a molecule with a repeated map raises unless ignore *)
Definition mol_maps_ok (ignore : bool) (mol : list Z) : bool := ignore || nodup_z (filter (fun m => negb (m =? 0)) mol).

Fixpoint chunk (l : list Z) (sizes : list nat) : list (list Z) :=
  match sizes with [] => [] | n :: r => firstn n l :: chunk (skipn n l) r end.

Definition pp_reaction (remap ignore : bool) (rs ps gs : list (list Z))
  : pyres (list (list Z) * list (list Z) * list (list Z)) :=
  if negb (forallb (mol_maps_ok ignore) (rs ++ ps ++ gs)) then Err ValueError else
  let r0 := List.concat rs in let p0 := List.concat ps in let g0 := List.concat gs in
  let start := Z.max (Z.max (zmax_list p0 0) (zmax_list r0 0)) (zmax_list g0 0) + 1 in
  match number_loop ignore r0 start [] with
  | Err e => Err e
  | Ok (r1, n1) =>
    match number_loop ignore p0 n1 [] with
    | Err e => Err e
    | Ok (p1, n2) =>
      match number_loop ignore g0 n2 [] with
      | Err e => Err e
      | Ok (g1, n3) =>
        (* reagents sharing a map with reactants / products *)
        match (match g1 with
               | [] => Ok (g1, n3)
               | _ => let common := filter (fun x => zmem x r1 || zmem x p1) g1 in
                      match common with
                      | [] => Ok (g1, n3)
                      | _ => if negb ignore then Err ValueError else
                             Ok (fold_left (fun (acc : list Z * Z) x =>
                                              if zmem x common then (fst acc ++ [snd acc], snd acc + 1) else (fst acc ++ [x], snd acc))
                                           g1 ([], n3))
                      end
               end) with
        | Err e => Err e
        | Ok (g2, n4) =>
          let '(r3, p3, g3) :=
            if remap then
              (* lose = sorted(set(range(1, next(length))) - used, reverse=True); every list: for j in lose: x if x < j else x - 1 *)
              let lose := rev (filter (fun x => negb (zmem x r1 || zmem x p1 || zmem x g2)) (zrange 1 n4)) in
              let squeeze l := fold_left (fun acc j => map (fun x => if x <? j then x else x - 1) acc) lose l in
              (squeeze r1, squeeze p1, squeeze g2)
            else (r1, p1, g2) in
          Ok (chunk r3 (map (@List.length Z) rs), chunk p3 (map (@List.length Z) ps), chunk g3 (map (@List.length Z) gs))
        end
      end
    end
  end.

(* ------------------------------------------------------------------------------------------------ _convert.py (structure only) *)
Record molrec := mkMolrec {
  mr_atoms : list (Z * (atomtok * bool));         (* number -> (parsed atom, is_radical) in insertion order *)
  mr_bonds : list (Z * Z * Z)                     (* (n, m, order) in creation order *)
}.

Definition find_element (sym : string) : option elem := find (fun e => String.eqb (e_sym e) sym) elements.
(* Element.from_symbol(sym)(isotope=...): unknown symbol / isotope not tabulated -> ValueError *)
Definition atom_ok (a : atomtok) : bool :=
  match find_element (at_el a) with
  | None => false
  | Some e => match at_iso a with None => true | Some i => zmem i (keys (e_dist e)) end
  end.
(* Bond(b) *)
Definition bond_order (b : payload) : pyres Z :=
  match b with
  | PInt o => if valid_order o then Ok o else Err ValueError
  | PBool v => if v then Ok 1 else Err ValueError
  | _ => Err TypeError
  end.
Definition map_at (mapping : list Z) (i : Z) : pyres Z :=
  if i <? 0 then Err IndexError else match nth_error mapping (Z.to_nat i) with Some x => Ok x | None => Err IndexError end.

Fixpoint make_bonds (mapping : list Z) (nums : list Z) (bs : list (Z * Z * payload)) (done : list (Z * Z * Z)) : pyres (list (Z * Z * Z)) :=
  match bs with
  | [] => Ok done
  | (i, j, b) :: r =>
      match map_at mapping i with
      | Err e => Err e
      | Ok n => match map_at mapping j with
                | Err e => Err e
                | Ok m =>
                    if n =? m then Err ValueError
                    else if negb (zmem n nums && zmem m nums) then Err KeyError          (* AtomNotFound *)
                    else if existsb (fun t => let '(x, y, _) := t in ((x =? n) && (y =? m)) || ((x =? m) && (y =? n))) done then Err ValueError
                    else match bond_order b with
                         | Err e => Err e
                         | Ok o => make_bonds mapping nums r (done ++ [(n, m, o)])
                         end
                end
      end
  end.

(* zip(mapping, atoms) into the dict g._atoms: a repeated number overwrites the value and keeps the first position *)
Fixpoint make_atoms (mapping : list Z) (atoms : list (atomtok * bool)) (acc : list (Z * (atomtok * bool))) : pyres (list (Z * (atomtok * bool))) :=
  match mapping, atoms with
  | n :: mr, a :: ar => if atom_ok (fst a) then make_atoms mr ar (zset acc n a) else Err ValueError
  | _, _ => Ok acc
  end.

Definition create_molecule (mapping : list Z) (atoms : list (atomtok * bool)) (bonds : list (Z * Z * payload)) : pyres molrec :=
  match make_atoms mapping atoms [] with
  | Err e => Err e
  | Ok ats => match make_bonds mapping (keys ats) bonds [] with
              | Err e => Err e
              | Ok bs => Ok (mkMolrec ats bs)
              end
  end.

(* ------------------------------------------------------------------------------------------------ smiles() *)
Inductive rresult := RMol (m : molrec) | RRxn (reactants reagents products : list molrec).

Definition is_ve (e : pyexn) : bool :=
  match e with ValueError | IncorrectSmiles | IncorrectSmarts => true | _ => false end.

(* record['atoms'][x]['is_radical'] = True for x in radicals; rg = an index guard is present (raises IncorrectSmiles) *)
Fixpoint set_radicals (rg : bool) (crash : pyexn) (atoms : list (atomtok * bool)) (rads : list Z) : pyres (list (atomtok * bool)) :=
  match rads with
  | [] => Ok atoms
  | x :: r =>
      match (if x <? 0 then None else nth_error atoms (Z.to_nat x)) with
      | None => if rg then ISm else Err crash
      | Some (a, _) => match list_set atoms (Z.to_nat x) (a, true) with
                       | Some atoms' => set_radicals rg crash atoms' r
                       | None => Err OtherError
                       end
      end
  end.

Section READ.
Variable tk : string -> pyres (list token).
Variable pr : list token -> bool -> pyres parsed.
Variable rg : bool.

Definition parse_text (ignore : bool) (x : list ascii) : pyres parsed :=
  match tk (string_of_list_ascii x) with
  | Err e => Err e
  | Ok ts => pr ts (negb ignore)
  end.

Definition no_rad (p : parsed) : list (atomtok * bool) := map (fun a => (a, false)) (p_atoms p).

Definition read_molecule (ignore remap : bool) (smi : list ascii) (rads : list Z) : pyres rresult :=
  match parse_text ignore smi with
  | Err e => Err e
  | Ok p =>
    match set_radicals rg IndexError (no_rad p) rads with
    | Err e => Err e
    | Ok atoms =>
      match pp_molecule remap ignore (map map_of (p_atoms p)) with
      | Err e => Err e
      | Ok mapping => match create_molecule mapping atoms (p_bonds p) with
                      | Err e => Err e
                      | Ok m => Ok (RMol m)
                      end
      end
    end
  end.

(* `for x in d.split('.')` of one role: empty pieces are skipped (ignore) or raise *)
Definition role_pieces (ignore : bool) (d : list ascii) : pyres (list (list ascii)) :=
  match d with
  | [] => Ok []
  | _ => let ps := split_on "." d in
         if negb ignore && existsb (fun x => match x with [] => true | _ => false end) ps then Err ValueError
         else Ok (filter (fun x => match x with [] => false | _ => true end) ps)
  end.

(* list[i] with Python's negative indices *)
Definition py_nth {A} (l : list A) (i : Z) : pyres A :=
  let j := if i <? 0 then i + Z.of_nat (List.length l) else i in
  if j <? 0 then Err IndexError else match nth_error l (Z.to_nat j) with Some x => Ok x | None => Err IndexError end.

Definition zdiff (a b : list Z) : list Z := filter (fun x => negb (zmem x b)) a.

(* the `if contract:` block of smiles(): (reactants, products, reagents) texts -> the same after contraction *)
(* new_molecules[i] = v *)
Definition cr_set_new (nm : list (option (list ascii))) (i : Z) (v : list ascii) : pyres (list (option (list ascii))) :=
  match (if i <? 0 then None else list_set nm (Z.to_nat i) (Some v)) with Some nm' => Ok nm' | None => Err IndexError end.
(* '.'.join(src[x - shift] for x in c) *)
Definition cr_joined (src : list (list ascii)) (shift : Z) (c : list Z) : pyres (list ascii) :=
  match map_res (fun x => py_nth src (x - shift)) c with Ok l => Ok (join_with "." l) | Err e => Err e end.
Definition cr_state := (list Z * list Z * list Z * list (option (list ascii)))%type.   (* reactants, reagents, products, new_molecules *)
(* for c in contract *)
Fixpoint cr_go (R P G : list (list ascii)) (lr mol_count : Z) (cs : list (list Z)) (st : cr_state) : pyres cr_state :=
  match cs with
  | [] => Ok st
  | c :: r =>
      let '(sr, sg, sp, nm) := st in
      let c0 := match c with x :: _ => x | [] => 0 end in
      if subset_z c sr then
        match cr_joined R 0 c with Err e => Err e | Ok v => match cr_set_new nm c0 v with Err e => Err e | Ok nm' => cr_go R P G lr mol_count r (zdiff sr c, sg, sp, nm') end end
      else if subset_z c sp then
        match cr_joined P mol_count c with Err e => Err e | Ok v => match cr_set_new nm c0 v with Err e => Err e | Ok nm' => cr_go R P G lr mol_count r (sr, sg, zdiff sp c, nm') end end
      else if subset_z c sg then
        match cr_joined G lr c with Err e => Err e | Ok v => match cr_set_new nm c0 v with Err e => Err e | Ok nm' => cr_go R P G lr mol_count r (sr, zdiff sg c, sp, nm') end end
      else cr_go R P G lr mol_count r st
  end.
(* for x in <remaining set>: new_molecules[x] = src[x - shift] *)
Fixpoint cr_fill (src : list (list ascii)) (shift : Z) (xs : list Z) (nm : list (option (list ascii))) : pyres (list (option (list ascii))) :=
  match xs with
  | [] => Ok nm
  | x :: r => match py_nth src (x - shift) with
              | Err e => Err e
              | Ok v => match cr_set_new nm x v with Err e => Err e | Ok nm' => cr_fill src shift r nm' end
              end
  end.
Definition cr_some (l : list (option (list ascii))) : list (list ascii) :=
  flat_map (fun (o : option (list ascii)) => match o with Some x => [x] | None => [] end) l.

Definition contract_roles (contract : list (list Z)) (R P G : list (list ascii))
  : pyres (list (list ascii) * list (list ascii) * list (list ascii)) :=
  let lr := Z.of_nat (List.length R) in let lp := Z.of_nat (List.length P) in
  let mol_count := lr + lp + Z.of_nat (List.length G) in
  match cr_go R P G lr mol_count contract
              (zrange 0 lr, zrange lr (mol_count - lp), zrange (mol_count - lp) mol_count, repeat None (Z.to_nat mol_count)) with
  | Err e => Err e
  | Ok (sr, sg, sp, nm) =>
    match cr_fill R 0 sr nm with
    | Err e => Err e
    | Ok nm1 => match cr_fill P mol_count sp nm1 with
                | Err e => Err e
                | Ok nm2 => match cr_fill G lr sg nm2 with
                            | Err e => Err e
                            | Ok nm3 =>
                              let n := List.length nm3 in
                              let nlp := Z.to_nat lp in let nlr := Z.to_nat lr in
                              (* new_molecules[:lr], new_molecules[mol_count - lp:], new_molecules[lr: mol_count - lp]
                                 (n = mol_count >= lr + lp, so no index is negative) *)
                              let prod := skipn (n - nlp) nm3 in
                              let reag := skipn nlr (firstn (n - nlp) nm3) in
                              Ok (cr_some (firstn nlr nm3), cr_some prod, cr_some reag)
                            end
                end
    end
  end.

(* create_reaction for one role: molecules whose creation raises a ValueError are dropped when ignore *)
Fixpoint create_role (ignore : bool) (ms : list (pyres molrec)) : pyres (list molrec) :=
  match ms with
  | [] => Ok []
  | Ok m :: r => match create_role ignore r with Ok l => Ok (m :: l) | Err e => Err e end
  | Err e :: r => if is_ve e && ignore then create_role ignore r else Err e
  end.

Fixpoint radicals_roles (atoms : list (list (atomtok * bool))) (flat : list (atomtok * bool)) : list (list (atomtok * bool)) :=
  match atoms with [] => [] | a :: r => firstn (List.length a) flat :: radicals_roles r (skipn (List.length a) flat) end.

Definition read_reaction (ignore remap : bool) (smi : list ascii) (rads : list Z) (contract : option (list (list Z))) : pyres rresult :=
  match split_on ">" smi with
  | [t_r; t_g; t_p] =>
    match role_pieces ignore t_r with Err e => Err e | Ok R0 =>
    match role_pieces ignore t_p with Err e => Err e | Ok P0 =>
    match role_pieces ignore t_g with Err e => Err e | Ok G0 =>
    match (match contract with Some c => contract_roles c R0 P0 G0 | None => Ok (R0, P0, G0) end) with Err e => Err e | Ok (R, P, G) =>
    match map_res (parse_text ignore) R with Err e => Err e | Ok pR =>
    match map_res (parse_text ignore) P with Err e => Err e | Ok pP =>
    match map_res (parse_text ignore) G with Err e => Err e | Ok pG =>
    (* radicals: atom_map over chain(reactants, reagents, products) *)
    let all := map no_rad (pR ++ pG ++ pP) in
    match set_radicals rg KeyError (List.concat all) rads with Err e => Err e | Ok flat =>
    let ats := radicals_roles all flat in
    let aR := firstn (List.length pR) ats in
    let aG := firstn (List.length pG) (skipn (List.length pR) ats) in
    let aP := skipn (List.length pR + List.length pG) ats in
    let maps l := map (fun p => map map_of (p_atoms p)) l in
    match pp_reaction remap ignore (maps pR) (maps pP) (maps pG) with Err e => Err e | Ok (mR, mP, mG) =>
    let mk (ms : list (list Z)) (as_ : list (list (atomtok * bool))) (ps : list parsed) :=
        map (fun t => let '(m, a, p) := t in create_molecule m a (p_bonds p)) (combine (combine ms as_) ps) in
    match create_role ignore (mk mR aR pR) with Err e => Err e | Ok rc =>
    match create_role ignore (mk mP aP pP) with Err e => Err e | Ok prd =>
    match create_role ignore (mk mG aG pG) with Err e => Err e | Ok rgt =>
    match rc, prd, rgt with
    | [], [], [] => Err ValueError                        (* ReactionContainer: at least one graph object required *)
    | _, _, _ => Ok (RRxn rc rgt prd)
    end end end end end end end end end end end end end
  | _ => Err ValueError                                   (* invalid reaction smiles *)
  end.

Definition read_with (ignore remap : bool) (s : string) : pyres rresult :=
  let data := list_ascii_of_string s in
  match data with
  | [] => Err ValueError                                  (* Empty string *)
  | _ =>
    match split_ws data with
    | [] => Err ValueError                                (* smi, *data = [] : not enough values to unpack *)
    | smi :: rest =>
      match (match rest with
             | cxs :: _ => if starts_with "|" cxs && ends_with "|" cxs then cx_block cxs else Ok ([], None)
             | [] => Ok ([], None)
             end) with
      | Err e => Err e
      | Ok (rads, contract) =>
          if existsb (Ascii.eqb ">") smi then read_reaction ignore remap smi rads contract
          else read_molecule ignore remap smi rads
      end
    end
  end.
End READ.

Definition read : bool -> bool -> string -> pyres rresult := read_with tokenize parse true.

(* ------------------------------------------------------------------------------------------------ text form (correspondence) *)
Open Scope string_scope.
(* g._bonds[n] in insertion order: the neighbours of n in bond creation order *)
Definition adj_of (bs : list (Z * Z * Z)) (n : Z) : list (Z * Z) :=
  flat_map (fun t : Z * Z * Z => let '(a, b, o) := t in if Z.eqb a n then [(b, o)] else if Z.eqb b n then [(a, o)] else []) bs.
(* atoms in insertion order, each with its neighbour dictionary in insertion order *)
Definition show_molrec (m : molrec) : string :=
  show_list (fun na : Z * (atomtok * bool) => show_z (fst na) ++ "=" ++ show_atom (fst (snd na)) ++ (if snd (snd na) then "*" else "") ++
                                               "[" ++ String.concat "." (map (fun mo : Z * Z => show_z (fst mo) ++ ":" ++ show_z (snd mo))
                                                                             (adj_of (mr_bonds m) (fst na))) ++ "]") (mr_atoms m).
Definition show_rresult (r : rresult) : string :=
  match r with
  | RMol m => "M " ++ show_molrec m
  | RRxn a b c => "R " ++ String.concat " + " (map show_molrec a) ++ " / " ++ String.concat " + " (map show_molrec b) ++ " / " ++
                  String.concat " + " (map show_molrec c)
  end.
Definition b_read (ignore remap : bool) (inputs : list string) := batch (fun s => show_res show_rresult (read ignore remap s)) inputs.
Definition b_ppmol (remap ignore : bool) (inputs : list (list Z)) := batch (fun m => show_res show_zs (pp_molecule remap ignore m)) inputs.
Definition show_zss (l : list (list Z)) : string := String.concat "" (map show_zs l).
Definition b_pprxn (remap ignore : bool) (inputs : list (list (list Z) * list (list Z) * list (list Z))) :=
  batch (fun t => let '(r, p, g) := t in
                  show_res (fun o : list (list Z) * list (list Z) * list (list Z) =>
                              let '(a, b, c) := o in show_zss a ++ "/" ++ show_zss b ++ "/" ++ show_zss c) (pp_reaction remap ignore r p g)) inputs.
Close Scope string_scope.
