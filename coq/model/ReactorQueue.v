(* C16 (extension 2) -- control flow of Reactor.__call__ with one_shot=False (chython/reactor/reactor.py):

       queue = deque((chosen, ignored, 0) for chosen in permutations(s_nums, len_patterns))
       while queue:
           chosen, ignored, depth = queue.popleft(); depth += 1
           for new in self._single_stage(chosen, {x for x in ignored for x in x}):
               r = ReactionContainer(structures, new + ignored)
               if len(new) > 1:
                   r.contract_ions()
                   if str(r) in seen: continue
                   seen.add(str(r))
                   if len(r.products) != len(ignored) + len(self._products_atoms): yield r; continue
               elif str(r) in seen: continue
               else: seen.add(str(r))
               if depth < self._polymerise_limit:
                   prod = r.products
                   if len_patterns == 1:
                       for i in range(len(prod)): queue.append(([prod[i]], [*prod[:i], *prod[i + 1:]], depth))
                   else:
                       for chp in combinations(chosen, len_patterns - 1):
                           for i in range(len(prod)):
                               for ch in permutations(fix_mapping_overlap((prod[i], *chp)), len_patterns):
                                   queue.append((ch, [*prod[:i], *prod[i + 1:]], depth))
               yield r

   The model is generic in the type M of molecules.  Section variables (every theorem is for ALL of them):
     stage   chosen ignored : what _single_stage yields (and the exception that ends it)       -- Model.ReactorStage.single_stage
     finish  new ignored    : r.products (new + ignored, after contract_ions when len(new) > 1)
     key     products       : str(r)
     operms  ms             : permutations(fix_mapping_overlap(ms), len_patterns)
   The runner instantiates M by tokens (one integer per distinct molecule) and the four functions by tables recorded from
   the real call.  `fuel` bounds the number of queue items processed (the third component of the result says whether the
   queue was exhausted within the fuel). *)
From Coq Require Import ZArith List Bool Lia.
From Model Require Import PyBase ReactorStage.
Import ListNotations.

(* itertools.combinations(l, k) *)
Fixpoint combinations {A : Type} (k : nat) (l : list A) : list (list A) :=
  match k, l with
  | O, _ => [[]]
  | S _, [] => []
  | S k', x :: r => map (cons x) (combinations k' r) ++ combinations k r
  end.

Section Queue.
  Variables (M K : Type).
  Variable key_eqb : K -> K -> bool.
  Variable stage : list M -> list M -> list (list M) * option pyexn.
  Variable finish : list M -> list M -> list M.
  Variable key : list M -> K.
  Variable operms : list M -> list (list M).
  Variables n_patterns n_products limit : nat.

  Definition item : Type := list M * list M * nat.

  (* the items appended for one reaction with products prod, made from `chosen`, at (incremented) depth *)
  Definition expand (chosen prod : list M) (depth : nat) : list item :=
    if Nat.eqb n_patterns 1 then map (fun ip => ([snd ip], remove_nth (fst ip) prod, depth)) (number_from 0 prod)
    else flat_map (fun chp =>
           flat_map (fun ip => map (fun ch => (ch, remove_nth (fst ip) prod, depth)) (operms (snd ip :: chp)))
                    (number_from 0 prod))
         (combinations (n_patterns - 1) chosen).

  Record acc := mkAcc { a_seen : list K; a_items : list item; a_yields : list (list M) }.

  (* the body of `for new in ...` ; depth is the incremented depth of the popped item *)
  Definition step_new (chosen ignored : list M) (depth : nat) (a : acc) (new : list M) : acc :=
    let prods := finish new ignored in
    let k := key prods in
    if existsb (key_eqb k) (a_seen a) then a
    else if Nat.ltb 1 (length new) && negb (Nat.eqb (length prods) (length ignored + n_products))
         then mkAcc (k :: a_seen a) (a_items a) (a_yields a ++ [prods])          (* ambiguous: yielded, not expanded *)
         else mkAcc (k :: a_seen a)
                    (if Nat.ltb depth limit then a_items a ++ expand chosen prods depth else a_items a)
                    (a_yields a ++ [prods]).

  (* yields, the exception that ended the generator, and: was the queue exhausted within the fuel *)
  Fixpoint run (fuel : nat) (queue : list item) (seen : list K) : list (list M) * option pyexn * bool :=
    match fuel with
    | O => ([], None, match queue with [] => true | _ => false end)
    | S f =>
        match queue with
        | [] => ([], None, true)
        | (chosen, ignored, d) :: rest =>
            let '(news, e) := stage chosen ignored in
            let a := fold_left (step_new chosen ignored (S d)) news (mkAcc seen [] []) in
            match e with
            | Some ex => (a_yields a, Some ex, true)
            | None => let '(ys, e', ok) := run f (rest ++ a_items a) (a_seen a) in (a_yields a ++ ys, e', ok)
            end
        end
    end.

  (* runner only: the `chosen` of every item popped, in order (same recursion as `run`): compared with the sequence of
     _single_stage calls of the real run *)
  Fixpoint run_trace (fuel : nat) (queue : list item) (seen : list K) : list (list M) :=
    match fuel with
    | O => []
    | S f =>
        match queue with
        | [] => []
        | (chosen, ignored, d) :: rest =>
            let '(news, e) := stage chosen ignored in
            let a := fold_left (step_new chosen ignored (S d)) news (mkAcc seen [] []) in
            match e with
            | Some _ => [chosen]
            | None => chosen :: run_trace f (rest ++ a_items a) (a_seen a)
            end
        end
    end.

  (* queue = deque((chosen, the others, 0) for chosen in permutations(range(n), len_patterns)) *)
  Definition init_queue (structures : list M) : list item :=
    map (fun c => (map snd c, map snd (filter (fun iy => negb (nat_mem (fst iy) (map fst c))) (number_from 0 structures)), O))
        (perms_k n_patterns (number_from 0 structures)).

  Definition exhaustive (structures : list M) (fuel : nat) : list (list M) * option pyexn * bool :=
    run fuel (init_queue structures) [].

  Definition exhaustive_trace (structures : list M) (fuel : nat) : list (list M) := run_trace fuel (init_queue structures) [].

  (* an item that can stand in the queue: reached from the initial items by a chain of single stages *)
  Inductive reach (init : list item) : item -> Prop :=
  | reach_init : forall it, In it init -> reach init it
  | reach_step : forall chosen ignored d new chosen' ignored',
      reach init (chosen, ignored, d) -> In new (fst (stage chosen ignored)) -> (S d < limit)%nat ->
      In (chosen', ignored', S d) (expand chosen (finish new ignored) (S d)) ->
      reach init (chosen', ignored', S d).

  (* what is yielded: the products of one single stage applied to a reachable item *)
  Definition yielded_from (init : list item) (prods : list M) : Prop :=
    exists chosen ignored d new, reach init (chosen, ignored, d) /\ In new (fst (stage chosen ignored)) /\
                                 prods = finish new ignored.
End Queue.

(* ---------- runner: tables over tokens ---------- *)
Definition zl_eqb := list_eqb Z.eqb.
Fixpoint tab1 {V : Type} (t : list (list Z * V)) (k : list Z) (d : V) : V :=
  match t with [] => d | (k', v) :: r => if zl_eqb k k' then v else tab1 r k d end.
Fixpoint tab2 {V : Type} (t : list (list Z * list Z * V)) (k1 k2 : list Z) (d : V) : V :=
  match t with [] => d | (a, b, v) :: r => if zl_eqb k1 a && zl_eqb k2 b then v else tab2 r k1 k2 d end.
Definition exh_eqb (model : list (list Z) * option pyexn * bool) (impl : list (list Z) * option pyexn) : bool :=
  list_eqb zl_eqb (fst (fst model)) (fst impl) && option_eqb pyexn_eqb (snd (fst model)) (snd impl) && snd model.
Definition trace_eqb (model impl : list (list Z)) : bool := list_eqb zl_eqb model impl.
