(* C02 -- model of the SMILES writer of chython and of the part of the reader its output has to agree with.

     chython/algorithms/smiles.py        : Smiles._smiles, _format_closure, __format__, __str__,
                                           MoleculeSmiles._format_atom, _format_bond, __ct_map, _format_cxsmiles
     chython/files/daylight/tokenize.py  : _tokenize (SMILES alphabet), _atom_parse (atom_re as an explicit matcher)

   Conventions (BUILDING.md): Python dicts are association lists in insertion order, Python sets are lists,
   exceptions are PyBase.pyres, all numbers are Z, nat only for fuel / list positions.

   What is an INPUT of the model rather than modelled:
     * w  : id -> Z   the weight function (`_smiles_order()`: `_chiral_morgan` / `atoms_order`, or anything in random mode)
     * tb : id -> Z   tie-break priority standing for CPython's set iteration order: wherever the code breaks a tie by
                      iterating a set (start atom among equal keys, children with equal keys), the model sorts by (key, tb)
     * the stereo registries of the molecule (`stereogenic_tetrahedrons`, `stereogenic_allenes`, `_stereo_allenes_terminals`,
       `stereogenic_cis_trans`, `_stereo_cis_trans_centers/terminals/counterpart`): record [stabs]
   `heapq` is modelled by its specification (a priority queue: heappop returns the minimum), kept as a sorted list.
   The labels `hybridization` and `not_special_connectivity` are recomputed from the bonds as calc_labels does.
   Loops that are `while` loops in Python run on fuel here; the fuel values are shown sufficient in WriterProofs.v. *)
From Coq Require Import ZArith List String Ascii Bool Lia.
From Model Require Import PyBase Graph PeriodicTable Stereo.
From Gen Require Import Elements SmilesTables.
Import ListNotations.
Open Scope Z_scope.

(* ================================================================================================
   0. small Python-semantics helpers
   ================================================================================================ *)
Definition scat (l : list string) : string := String.concat EmptyString l.
Definition nonempty (s : string) : bool := match s with EmptyString => false | _ => true end.
Definition str1 (c : ascii) : string := String c EmptyString.

(* str(int) *)
Fixpoint digits_fuel (fuel : nat) (n : Z) (acc : string) : string :=
  match fuel with
  | O => acc
  | S f => let acc' := String (ascii_of_nat (48 + Z.to_nat (n mod 10))) acc in
           if n <? 10 then acc' else digits_fuel f (n / 10) acc'
  end.
Definition str_nonneg (n : Z) : string := digits_fuel (S (Z.to_nat (Z.log2 n))) n EmptyString.
Definition str_Z (n : Z) : string := if n <? 0 then String "-"%char (str_nonneg (- n)) else str_nonneg n.

Definition zhas {V : Type} (d : list (Z * V)) (k : Z) : bool := match zget d k with Some _ => true | None => false end.
(* d[k] = v : in place when the key exists, appended otherwise *)
Fixpoint zset {V : Type} (d : list (Z * V)) (k : Z) (v : V) : list (Z * V) :=
  match d with
  | [] => [(k, v)]
  | (k', v') :: r => if k =? k' then (k', v) :: r else (k', v') :: zset r k v
  end.
(* d[k].append(x) on a defaultdict(list) *)
Fixpoint zapp {V : Type} (d : list (Z * list V)) (k : Z) (x : V) : list (Z * list V) :=
  match d with
  | [] => [(k, [x])]
  | (k', l) :: r => if k =? k' then (k', l ++ [x]) :: r else (k', l) :: zapp r k x
  end.
(* d[k].extend(xs) / d[k] = f(d[k]) on an existing key (a missing key is left alone: callers only use existing keys) *)
Fixpoint zupd {V : Type} (d : list (Z * V)) (k : Z) (f : V -> V) : list (Z * V) :=
  match d with
  | [] => []
  | (k', v) :: r => if k =? k' then (k', f v) :: r else (k', v) :: zupd r k f
  end.
Definition zgetl {V : Type} (d : list (Z * list V)) (k : Z) : list V := match zget d k with Some l => l | None => [] end.

Definition pair_eqbZ (p q : Z * Z) : bool := (fst p =? fst q) && (snd p =? snd q).
Definition pair_mem (p : Z * Z) (l : list (Z * Z)) : bool := existsb (pair_eqbZ p) l.
Fixpoint pget {V : Type} (d : list ((Z * Z) * V)) (k : Z * Z) : option V :=
  match d with
  | [] => None
  | (k', v) :: r => if pair_eqbZ k k' then Some v else pget r k
  end.
Fixpoint pset {V : Type} (d : list ((Z * Z) * V)) (k : Z * Z) (v : V) : list ((Z * Z) * V) :=
  match d with
  | [] => [(k, v)]
  | (k', v') :: r => if pair_eqbZ k k' then (k', v) :: r else (k', v') :: pset r k v
  end.

(* tuple comparison *)
Fixpoint zlist_ltb (a b : list Z) : bool :=
  match a, b with
  | x :: r, y :: s => (x <? y) || ((x =? y) && zlist_ltb r s)
  | [], _ :: _ => true
  | _, _ => false
  end.

(* sorted(l, key=key): stable insertion sort *)
Section Sort.
  Context {A : Type} (key : A -> list Z).
  (* stability: elements are inserted from the last to the first, each one in front of the first element already placed
     that is not smaller *)
  Fixpoint insert_first (x : A) (l : list A) : list A :=
    match l with
    | [] => [x]
    | y :: r => if zlist_ltb (key y) (key x) then y :: insert_first x r else x :: l
    end.
  Definition sort_by (l : list A) : list A := fold_right insert_first [] l.
  (* min(l, key=key): the first minimal element *)
  Definition min_by (l : list A) : option A := match sort_by l with x :: _ => Some x | [] => None end.
End Sort.

(* l[i] = f(l[i]) *)
Fixpoint upd_at {A : Type} (i : nat) (f : A -> A) (l : list A) : list A :=
  match l, i with
  | [], _ => []
  | x :: r, O => f x :: r
  | x :: r, S j => x :: upd_at j f r
  end.

Fixpoint iter_opt {S : Type} (fuel : nat) (step : S -> option S) (s : S) : option S :=
  match fuel with
  | O => None
  | S f => match step s with None => Some s | Some s' => iter_opt f step s' end
  end.

(* ================================================================================================
   1. options:  Smiles.__format__
   ================================================================================================ *)
Record opts := mkOpts {
  o_asym : bool;        (* a  : asymmetric_closures *)
  o_stereo : bool;      (* !s : stereo=False *)
  o_aromatic : bool;    (* A  : aromatic=False *)
  o_mapping : bool;     (* m *)
  o_hydrogens : bool;   (* h *)
  o_bonds : bool;       (* !b : bonds=False *)
  o_charges : bool;     (* !z : charges=False *)
  o_random : bool;      (* r *)
  o_cx : bool           (* !x : no CXSMILES block *)
}.
Definition default_opts : opts := mkOpts false true true false false true true false true.

Fixpoint prefix_of (p s : string) : bool :=
  match p, s with
  | EmptyString, _ => true
  | String a p', String b s' => Ascii.eqb a b && prefix_of p' s'
  | _, _ => false
  end.
(* `p in s` for strings *)
Fixpoint substr (p s : string) : bool :=
  prefix_of p s || match s with EmptyString => false | String _ s' => substr p s' end.

Definition opts_of_spec (spec : string) : opts :=
  mkOpts (substr "a" spec) (negb (substr "!s" spec)) (negb (substr "A" spec)) (substr "m" spec) (substr "h" spec)
         (negb (substr "!b" spec)) (negb (substr "!z" spec)) (substr "r" spec) (negb (substr "!x" spec)).

(* ================================================================================================
   2. stereo registries (inputs) and the stereo marks
   ================================================================================================ *)
Definition env4 := (Z * Z * option Z * option Z)%type.
Record stabs := mkStabs {
  t_tetra : list (Z * list Z);            (* stereogenic_tetrahedrons *)
  t_allenes : list (Z * env4);            (* stereogenic_allenes *)
  t_allene_term : list (Z * (Z * Z));     (* _stereo_allenes_terminals *)
  t_sct : list ((Z * Z) * env4);          (* stereogenic_cis_trans *)
  t_ctc : list (Z * (Z * Z));             (* _stereo_cis_trans_centers *)
  t_ctt : list (Z * (Z * Z));             (* _stereo_cis_trans_terminals *)
  t_ctcp : list (Z * Z)                   (* _stereo_cis_trans_counterpart *)
}.
Definition no_stabs : stabs := mkStabs [] [] [] [] [] [] [].

Definition in_env (x : Z) (e : env4) : bool :=
  let '(n0, n1, n2, n3) := e in
  (x =? n0) || (x =? n1) || match n2 with Some y => x =? y | None => false end
  || match n3 with Some y => x =? y | None => false end.

Definition adjacency := list (Z * list Z).     (* `visited`: atom -> [predecessor, closure partners ..., children ...] *)

(* ================================================================================================
   3. atoms
   ================================================================================================ *)
Definition symbol_of_num (num : Z) : option string := option_map e_sym (from_number num).
Definition truthy_h (h : option Z) : bool := match h with Some x => negb (x =? 0) | None => false end.

(* calc_labels: hybridization *)
Definition hyb_step (h : Z) (o : Z) : Z :=
  if o =? 8 then h
  else if o =? 4 then 4
  else if h =? 4 then h
  else if o =? 3 then 3
  else if o =? 2 then (if h =? 1 then 2 else if h =? 2 then 3 else h)
  else h.
Definition hybridization (g : mol) (n : Z) : Z :=
  fold_left (fun h mb => hyb_step h (b_ord (snd mb))) (nbrs g n) 1.
(* not self.not_special_connectivity[n] *)
Definition no_plain_neighbours (g : mol) (n : Z) : bool :=
  forallb (fun mb => b_ord (snd mb) =? 8) (nbrs g n).
Definition is_H (g : mol) (x : Z) : bool := match atom_of g x with Some a => a_num a =? 1 | None => false end.

Definition lower_ascii (c : ascii) : ascii :=
  let n := nat_of_ascii c in if (Nat.leb 65 n && Nat.leb n 90)%bool then ascii_of_nat (n + 32) else c.
Definition upper_ascii (c : ascii) : ascii :=
  let n := nat_of_ascii c in if (Nat.leb 97 n && Nat.leb n 122)%bool then ascii_of_nat (n - 32) else c.
Fixpoint lower_string (s : string) : string :=
  match s with EmptyString => EmptyString | String c r => String (lower_ascii c) (lower_string r) end.

(* the fields of an atom token, in the order of the list `smi` of _format_atom *)
Record afields := mkAF {
  af_br : bool;          (* smi[0], smi[-1] : written in brackets *)
  af_iso : string;       (* smi[1] *)
  af_sym : string;       (* smi[2] *)
  af_st : string;        (* smi[3] *)
  af_h : string;         (* smi[4] *)
  af_chg : string;       (* smi[5] *)
  af_map : string        (* smi[6] *)
}.
Definition spell_atom (f : afields) : string :=
  scat [if af_br f then "[" else ""; af_iso f; af_sym f; af_st f; af_h f; af_chg f; af_map f; if af_br f then "]" else ""]%string.

Definition h_str (h : option Z) : string :=
  match h with
  | Some x => if x =? 1 then "H"%string else if x =? 0 then EmptyString else String "H"%char (str_Z x)
  | None => EmptyString
  end.

Section Format.
  Variable g : mol.
  Variable o : opts.
  Variable tabs : stabs.

  Definition first_key (adj : adjacency) : option Z := match adj with (k, _) :: _ => Some k | [] => None end.

  (* the stereo part of _format_atom *)
  Definition stereo_mark (n : Z) (adj : adjacency) (a : atom) : pyres string :=
    match a_stereo a with
    | None => Ok EmptyString
    | Some s =>
        if negb (o_stereo o) then Ok EmptyString else
        match zget (t_allene_term tabs) n with
        | Some (t1, t2) =>
            match zget (t_allenes tabs) n with
            | None => Err KeyError
            | Some env =>
                match zget adj t1, zget adj t2 with
                | Some l1, Some l2 =>
                    (* since fix e4fb73d: the first WRITTEN substituent of each terminal atom, an explicit hydrogen included *)
                    match find (fun x => in_env x env || is_H g x) l1, find (fun x => in_env x env || is_H g x) l2 with
                    | Some n1, Some n2 =>
                        match translate_al (is_H g) env n1 n2 s with
                        | Ok r => Ok (if r then "@" else "@@")%string
                        | Err e => Err e
                        end
                    | _, _ => Err StopIteration
                    end
                | _, _ => Err KeyError
                end
            end
        | None =>
            match zget adj n, zget (t_tetra tabs) n with
            | Some env, Some order =>
                match translate_th (is_H g) order env s with
                | Ok r =>
                    (* first atom in smiles has reversed chiral mark *)
                    if truthy_h (a_h a) && match first_key adj with Some k => k =? n | None => false end
                    then Ok (if r then "@@" else "@")%string
                    else Ok (if r then "@" else "@@")%string
                | Err e => Err e
                end
            | _, _ => Err KeyError
            end
        end
    end.

  Definition atom_fields (n : Z) (adj : adjacency) : pyres afields :=
    match atom_of g n with
    | None => Err KeyError
    | Some a =>
      match symbol_of_num (a_num a) with
      | None => Err KeyError
      | Some sym =>
        let iso := match a_iso a with Some i => if i =? 0 then EmptyString else str_Z i | None => EmptyString end in
        let mapping := if o_mapping o then String ":"%char (str_Z n) else EmptyString in
        match stereo_mark n adj a with
        | Err e => Err e
        | Ok st =>
          match (if negb (a_chg a =? 0) && o_charges o
                 then match zget charge_str (a_chg a) with Some s => Ok s | None => Err KeyError end
                 else Ok EmptyString) with
          | Err e => Err e
          | Ok chg =>
            let hyb := hybridization g n in
            let num := a_num a in
            let ih := truthy_h (a_h a) in
            let brh :=
              if nonempty iso || nonempty st || nonempty chg || nonempty mapping
                 || negb (smem sym organic_set) || a_rad a || o_hydrogens o
              then (true, h_str (a_h a))
              else if (hyb =? 4) && ih && ((num =? num_B) || (num =? num_N) || (num =? num_P))          (* pyrrole *)
              then (true, h_str (a_h a))
              else if negb ih && ((num =? num_B) || (num =? num_C) || (num =? num_P) || (num =? num_S))
                      && no_plain_neighbours g n                                                       (* elemental B, C, P, S *)
              then (true, EmptyString)
              else if ih && (num =? num_P) && negb (hyb =? 1)
              then (true, h_str (a_h a))
              else (false, EmptyString) in
            let sym' := if o_aromatic o && (hyb =? 4) then lower_string sym else sym in
            Ok (mkAF (fst brh) iso sym' st (snd brh) chg mapping)
          end
        end
      end
    end.

  Definition format_atom (n : Z) (adj : adjacency) : pyres string :=
    match atom_fields n adj with Ok f => Ok (spell_atom f) | Err e => Err e end.

  (* ---- MoleculeSmiles.__ct_map ---- *)
  Record ctst := mkCt {
    ct_pm : list ((Z * Z) * bool);     (* ct_map entries keyed by a pair *)
    ct_im : list (Z * Z);              (* ct_map entries keyed by an atom *)
    ct_si : list Z;                    (* seen: atoms *)
    ct_sp : list (Z * Z)               (* seen: centre pairs *)
  }.
  Definition stereo_bond_atoms : list Z :=
    map fst (filter (fun nl => existsb (fun mb => match b_stereo (snd mb) with Some _ => true | None => false end) (snd nl)) (m_adj g)).

  (* `if y := ctc.get(v): ct_map[v] = k; seen.add(y)` *)
  Definition ct_note (st : ctst) (v k : Z) : ctst :=
    match zget (t_ctc tabs) v with
    | Some y => mkCt (ct_pm st) (zset (ct_im st) v k) (ct_si st) (y :: ct_sp st)
    | None => st
    end.

  Definition centre_stereo (k : Z) : option bool :=
    match zget (t_ctc tabs) k with
    | Some (i, j) => match bond_of g i j with Some b => b_stereo b | None => None end
    | None => None
    end.

  Definition ct_inner (k : Z) (cs : Z * Z) (env : env4) (acc : pyres ctst) (v : Z) : pyres ctst :=
    match acc with
    | Err e => Err e
    | Ok st =>
      if negb (in_env v env) then Ok st
      else if match pget (ct_pm st) (k, v) with Some _ => true | None => false end then Ok st
      else match (match zget (ct_im st) k with Some x => if x =? 0 then None else Some x | None => None end) with
      | Some x =>                                                  (* second substituent of C= *)
          match pget (ct_pm st) (k, x) with
          | None => Err KeyError
          | Some s =>
              let st1 := mkCt (pset (pset (ct_pm st) (k, v) (negb s)) (v, k) s) (ct_im st) (ct_si st) (ct_sp st) in
              Ok (ct_note st1 v k)
          end
      | None =>
          if pair_mem cs (ct_sp st) then
            match zget (t_ctcp tabs) k with
            | None => Err KeyError
            | Some o' =>
              match zget (ct_im st) o' with
              | None => Err KeyError
              | Some on =>
                match pget (ct_pm st) (o', on) with
                | None => Err KeyError
                | Some s =>
                  match centre_stereo k with
                  | None => Err KeyError
                  | Some s0 =>
                    match translate_ct (is_H g) (pget (t_sct tabs) (k, o')) (pget (t_sct tabs) (o', k)) v on s0 with
                    | Err e => Err e
                    | Ok r =>
                      let s' := if r then s else negb s in
                      let st1 := mkCt (pset (pset (ct_pm st) (k, v) s') (v, k) (negb s')) (zset (ct_im st) k v)
                                      (ct_si st) (ct_sp st) in
                      Ok (ct_note st1 v k)
                    end
                  end
                end
              end
            end
          else                                                      (* left entry to double bond *)
            let st1 := ct_note st v k in
            Ok (mkCt (pset (pset (ct_pm st1) (v, k) true) (k, v) false) (zset (ct_im st1) k v) (ct_si st1) (ct_sp st1))
      end
    end.

  Definition ct_outer (acc : pyres ctst) (kv : Z * list Z) : pyres ctst :=
    match acc with
    | Err e => Err e
    | Ok st0 =>
      let '(k, vs) := kv in
      let st := mkCt (ct_pm st0) (ct_im st0) (k :: ct_si st0) (ct_sp st0) in
      match zget (t_ctc tabs) k with
      | Some cs =>
          if zmem (fst cs) stereo_bond_atoms && zmem (snd cs) stereo_bond_atoms then
            match zget (t_ctt tabs) k with
            | None => Err KeyError
            | Some tpair =>
              match pget (t_sct tabs) tpair with
              | None => Err KeyError
              | Some env =>
                match fold_left (ct_inner k cs env) vs (Ok st) with
                | Err e => Err e
                | Ok st' => Ok (mkCt (ct_pm st') (ct_im st') (ct_si st') (cs :: ct_sp st'))
                end
              end
            end
          else Ok st
      | None => Ok st
      end
    end.

  Definition ct_map (adj : adjacency) : pyres (list ((Z * Z) * bool)) :=
    match stereo_bond_atoms with
    | [] => Ok []
    | _ => match fold_left ct_outer adj (Ok (mkCt [] [] [] [])) with
           | Ok st => Ok (ct_pm st)
           | Err e => Err e
           end
    end.

  (* _format_bond; [ctm] is adjacency['cache'] (computed once per component, looked at lazily) *)
  Definition format_bond (ctm : pyres (list ((Z * Z) * bool))) (n m : Z) : pyres string :=
    if negb (o_bonds o) then Ok EmptyString else
    match bond_of g n m with
    | None => Err KeyError
    | Some b =>
        let bo := b_ord b in
        if bo =? 4 then Ok (if o_aromatic o then "" else ":")%string
        else if bo =? 1 then
          if o_aromatic o && (hybridization g n =? 4) && (hybridization g m =? 4) then Ok "-"%string
          else if o_stereo o then
            match ctm with
            | Err e => Err e
            | Ok cm => match pget cm (n, m) with
                       | Some x => Ok (if x then "/" else "\")%string
                       | None => Ok EmptyString
                       end
            end
          else Ok EmptyString
        else if bo =? 2 then Ok "="%string
        else if bo =? 3 then Ok "#"%string
        else Ok "~"%string
    end.
End Format.

Definition format_closure (c : Z) : string :=
  if c <? closure_percent_from then str_Z c else String "%"%char (str_Z c).

(* ================================================================================================
   4. the traversal:  Smiles._smiles
   ================================================================================================ *)
Inductive tok := TAtom (n : Z) | TOpen | TClose | TBond (n m : Z).

(* the output: every element of the Python list `string`, tagged with what it stands for *)
Inductive otok :=
| OAtom (n : Z) (s : string)          (* _format_atom(n) *)
| OBond (n m : Z) (s : string)        (* _format_bond of the tree edge n -> m *)
| OCBond (n m : Z) (s : string)       (* _format_bond written at atom n for its ring closure to m *)
| OClosure (n m c : Z)                (* _format_closure(c) written at atom n for its ring closure to m *)
| OOpen | OClose | ODot.

Definition spell_otok (t : otok) : string :=
  match t with
  | OAtom _ s => s
  | OBond _ _ s => s
  | OCBond _ _ s => s
  | OClosure _ _ c => format_closure c
  | OOpen => "("
  | OClose => ")"
  | ODot => "."
  end.
Definition spell (l : list otok) : string := scat (map spell_otok l).

(* heapq as a priority queue *)
Fixpoint heap_push (x : Z) (h : list Z) : list Z :=
  match h with
  | [] => [x]
  | y :: r => if x <=? y then x :: h else y :: heap_push x r
  end.

Record dfs_st := mkDfs {
  ds_stack : list (Z * Z * list Z);       (* (parent, depth_now, rest of the children iterator), top first *)
  ds_visited : adjacency;
  ds_disc : list (Z * Z);                 (* disconnected *)
  ds_edges : list (Z * list Z);
  ds_tokens : list (Z * list (Z * Z));    (* atom -> [(partner, cycle)] *)
  ds_cycle : Z
}.

Definition fl_entry := (Z * Z * list tok)%type.    (* [tail, closure, smiles] *)
Inductive fl_res := FlCont (s : list fl_entry) | FlDone (r : list tok) | FlErr (e : pyexn).

Section Traversal.
  Variable g : mol.
  Variable w tb : Z -> Z.
  Variable o : opts.
  Variable tabs : stabs.

  (* groups[weights(n)] -= 1 for n in atoms_set : minus the size of the weight class *)
  Definition group_of (all : list Z) (x : Z) : Z := - Z.of_nat (List.length (filter (fun n => w n =? w x) all)).

  Definition key_start (all : list Z) (x : Z) : list Z :=
    if o_random o then [w x; tb x] else [group_of all x; w x; tb x].
  (* seen[x] of an atom the BFS did not label would be a KeyError; the BFS labels the whole component first *)
  Definition key_child (all : list Z) (seen : list (Z * Z)) (x : Z) : list Z :=
    if o_random o then [w x; tb x]
    else [group_of all x; w x; match zget seen x with Some d => d | None => 0 end; tb x].
  (* since fix 2e3e6bb the children of atom p are sorted by (mod_weights(x), int(bonds[p][x])): ties of the weight part are
     broken by the order of the bond to the parent before set iteration order (tb) decides.  [key_child] above is the weight
     part followed by tb; [key_child_at p] is the key actually used by the traversal *)
  Definition bond_ord_to (p x : Z) : Z := match bond_of g p x with Some b => b_ord b | None => 0 end.
  Definition key_child_at (all : list Z) (seen : list (Z * Z)) (p x : Z) : list Z :=
    if o_random o then [w x; bond_ord_to p x; tb x]
    else [group_of all x; w x; match zget seen x with Some d => d | None => 0 end; bond_ord_to p x; tb x].

  (* the BFS distances from the start atom *)
  Fixpoint bfs (fuel : nat) (queue : list (Z * Z)) (seen : list (Z * Z)) : list (Z * Z) :=
    match fuel with
    | O => seen
    | S f =>
        match queue with
        | [] => seen
        | (n, d) :: q =>
            let fresh := filter (fun m => negb (zhas seen m)) (nbr_ids g n) in
            bfs f (q ++ map (fun m => (m, d + 1)) fresh) (seen ++ map (fun m => (m, d)) fresh)
        end
    end.

  (* one iteration of `while stack:` of the DFS; None = the loop condition is false.
     [key p] is the sort key of the neighbours of atom p *)
  Definition dfs_step (key : Z -> Z -> list Z) (st : dfs_st) : option dfs_st :=
    match ds_stack st with
    | [] => None
    | (parent, depth_now, children) :: rest =>
        match children with
        | [] => Some (mkDfs rest (ds_visited st) (ds_disc st) (ds_edges st) (ds_tokens st) (ds_cycle st))
        | child :: children' =>
            let stack1 := (parent, depth_now, children') :: rest in
            if negb (zhas (ds_visited st) child) then
              let stack2 :=
                if 1 <? depth_now then
                  match filter (fun m => negb (m =? parent)) (nbr_ids g child) with
                  | [] => stack1
                  | front => (child, depth_now - 1, sort_by (key child) front) :: stack1
                  end
                else stack1 in
              Some (mkDfs stack2 (ds_visited st ++ [(child, [parent])]) (ds_disc st)
                          (zapp (ds_edges st) parent child) (ds_tokens st) (ds_cycle st))
            else if negb (pair_mem (child, parent) (ds_disc st)) then
              let c := ds_cycle st + 1 in
              Some (mkDfs stack1 (ds_visited st) ((child, parent) :: (parent, child) :: ds_disc st) (ds_edges st)
                          (zapp (zapp (ds_tokens st) parent (child, c)) child (parent, c)) c)
            else Some (mkDfs stack1 (ds_visited st) (ds_disc st) (ds_edges st) (ds_tokens st) (ds_cycle st))
        end
    end.

  (* ---- flatten directed graph: edges ---- *)
  Definition second_last_is_open (s : list tok) : option bool :=
    match rev s with
    | _ :: x :: _ => Some (match x with TOpen => true | _ => false end)
    | _ => None
    end.
  Definition pop_second_last (s : list tok) : list tok :=
    match rev s with a :: _ :: r => rev r ++ [a] | _ => s end.

  (* stacks are kept top first: Python index i of a stack of length L is position L - 1 - i *)
  Definition fl_step (edges : list (Z * list Z)) (stack : list fl_entry) : fl_res :=
    match stack with
    | [] => FlErr IndexError
    | (tail, closure, smi) :: rest =>
        match zget edges tail with
        | Some children =>
            match rev children with
            | [] => FlErr IndexError
            | last :: revfront =>
                if (1 <? Z.of_nat (List.length children)) then
                  let stack_len := Z.of_nat (List.length stack) in
                  FlCont (map (fun c => (c, stack_len, [TOpen; TBond tail c; TAtom c])) (rev revfront)
                          ++ (last, 0, [TBond tail last; TAtom last]) :: stack)
                else FlCont ((last, closure, smi ++ [TBond tail last; TAtom last]) :: rest)
            end
        | None =>
            if negb (closure =? 0) then
              match second_last_is_open smi with
              | None => FlErr IndexError
              | Some b =>
                  let smi' := if b then pop_second_last smi else smi ++ [TClose] in
                  let L := List.length rest in
                  if (closure - 1 <? Z.of_nat L) then
                    FlCont (upd_at (L - 1 - Z.to_nat (closure - 1)) (fun e => (fst e, snd e ++ smi')) rest)
                  else FlErr IndexError
              end
            else
              match rest with
              | (_, c1, s1) :: ((_ :: _) as rest') => FlCont ((tail, c1, s1 ++ smi) :: rest')
              | [(_, _, s0)] => FlDone (s0 ++ smi)
              | [] => FlDone smi
              end
        end
    end.

  Fixpoint fl_run (fuel : nat) (edges : list (Z * list Z)) (stack : list fl_entry) : pyres (list tok) :=
    match fuel with
    | O => Err OtherError
    | S f => match fl_step edges stack with
             | FlCont s => fl_run f edges s
             | FlDone r => Ok r
             | FlErr e => Err e
             end
    end.

  (* ---- closure numbers ---- *)
  Definition tok_atom (t : tok) : option Z := match t with TAtom n => Some n | _ => None end.
  Fixpoint ring_positions (tokens : list (Z * list (Z * Z))) (smi : list tok) (i : Z) : list (Z * Z) :=
    match smi with
    | [] => []
    | t :: r => match t with
                | TAtom n => if zhas tokens n then (n, i) :: ring_positions tokens r (i + 1) else ring_positions tokens r (i + 1)
                | _ => ring_positions tokens r (i + 1)
                end
    end.

  (* for _, c in sorted(tokens[token], ...): release or allocate *)
  Fixpoint number_closures (cl : list (Z * Z)) (casted : list (Z * Z)) (heap released : list Z)
    : pyres (list (Z * Z) * list Z * list Z) :=
    match cl with
    | [] => Ok (casted, heap, released)
    | (_, c) :: r =>
        match zget casted c with
        | Some k => number_closures r casted heap (released ++ [k])
        | None => match heap with
                  | [] => Err IndexError                     (* heappop from an empty heap *)
                  | k :: heap' => number_closures r (casted ++ [(c, k)]) heap' released
                  end
        end
    end.

  Fixpoint number_atoms (tokens : list (Z * list (Z * Z))) (ro : list (Z * Z)) (todo : list (Z * Z))
                        (casted : list (Z * Z)) (heap : list Z) : pyres (list (Z * Z) * list Z) :=
    match todo with
    | [] => Ok (casted, heap)
    | (a, _) :: r =>
        let cl := sort_by (fun x : Z * Z => [match zget ro (fst x) with Some p => p | None => 0 end]) (zgetl tokens a) in
        match number_closures cl casted heap [] with
        | Err e => Err e
        | Ok (casted', heap', released) =>
            number_atoms tokens ro r casted' (fold_left (fun h c => heap_push c h) released heap')
        end
    end.

  (* prepare new neighbors order for stereo sign calculation *)
  Definition casted_of (casted : list (Z * Z)) (c : Z) : Z := match zget casted c with Some k => k | None => 0 end.
  Fixpoint order_neighbours (smi : list tok) (casted : list (Z * Z)) (edges : list (Z * list Z))
                            (tokens : list (Z * list (Z * Z))) (visited : adjacency)
    : list (Z * list (Z * Z)) * adjacency :=
    match smi with
    | [] => (tokens, visited)
    | t :: r =>
        match t with
        | TAtom n =>
            let '(tokens1, visited1) :=
              match zget tokens n with
              | Some l => let l' := sort_by (fun x : Z * Z => [casted_of casted (snd x)]) l in
                          (zset tokens n l', zupd visited n (fun v => v ++ map fst l'))
              | None => (tokens, visited)
              end in
            let visited2 := match zget edges n with
                            | Some ch => zupd visited1 n (fun v => v ++ ch)
                            | None => visited1
                            end in
            order_neighbours r casted edges tokens1 visited2
        | _ => order_neighbours r casted edges tokens visited
        end
    end.

  (* the last loop of a component: strings *)
  Fixpoint emit_closures (fa : Z -> Z -> pyres string) (n : Z) (cl : list (Z * Z)) (casted : list (Z * Z))
                         (vb : list (Z * Z)) : pyres (list otok * list (Z * Z)) :=
    match cl with
    | [] => Ok ([], vb)
    | (m, c) :: r =>
        let num := OClosure n m (casted_of casted c) in
        if o_asym o then
          if negb (pair_mem (n, m) vb) then
            match fa n m with
            | Err e => Err e
            | Ok s => match emit_closures fa n r casted ((m, n) :: vb) with
                      | Err e => Err e
                      | Ok (out, vb') => Ok (OCBond n m s :: num :: out, vb')
                      end
            end
          else match emit_closures fa n r casted vb with
               | Err e => Err e
               | Ok (out, vb') => Ok (num :: out, vb')
               end
        else
          match fa n m with
          | Err e => Err e
          | Ok s => match emit_closures fa n r casted vb with
                    | Err e => Err e
                    | Ok (out, vb') => Ok (OCBond n m s :: num :: out, vb')
                    end
          end
    end.

  Fixpoint emit (fat : Z -> pyres string) (fa : Z -> Z -> pyres string) (smi : list tok)
                (tokens : list (Z * list (Z * Z))) (casted : list (Z * Z)) (vb : list (Z * Z))
    : pyres (list otok * list Z * list (Z * Z)) :=
    match smi with
    | [] => Ok ([], [], vb)
    | t :: r =>
        match t with
        | TAtom n =>
            match fat n with
            | Err e => Err e
            | Ok s =>
                match emit_closures fa n (zgetl tokens n) casted vb with
                | Err e => Err e
                | Ok (cls, vb1) =>
                    match emit fat fa r tokens casted vb1 with
                    | Err e => Err e
                    | Ok (out, ord, vb2) => Ok (OAtom n s :: cls ++ out, n :: ord, vb2)
                    end
                end
            end
        | TOpen => match emit fat fa r tokens casted vb with
                   | Err e => Err e
                   | Ok (out, ord, vb2) => Ok (OOpen :: out, ord, vb2)
                   end
        | TClose => match emit fat fa r tokens casted vb with
                    | Err e => Err e
                    | Ok (out, ord, vb2) => Ok (OClose :: out, ord, vb2)
                    end
        | TBond n m =>
            match fa n m with
            | Err e => Err e
            | Ok s => match emit fat fa r tokens casted vb with
                      | Err e => Err e
                      | Ok (out, ord, vb2) => Ok (OBond n m s :: out, ord, vb2)
                      end
            end
        end
    end.

  (* ---- one connected component (one iteration of `while True:`) ---- *)
  Record wstate := mkW {
    ws_atoms : list Z;                 (* atoms_set *)
    ws_seen : list (Z * Z);
    ws_cycle : Z;
    ws_casted : list (Z * Z);          (* casted_cycles *)
    ws_heap : list Z;
    ws_out : list otok;                (* string *)
    ws_order : list Z;
    ws_vb : list (Z * Z)               (* visited_bond *)
  }.

  Definition n_atoms : nat := List.length (ids g).
  Definition n_dbonds : nat := List.length (flat_map (fun nl => snd nl) (m_adj g)).
  Definition dfs_fuel : nat := (n_dbonds + 2 * n_atoms + 2)%nat.
  Definition fl_fuel : nat := (3 * n_atoms + 3)%nat.

  Record traversal := mkTr {
    tr_start : Z;
    tr_seen : list (Z * Z);
    tr_dfs : dfs_st
  }.

  (* start atom, BFS labels, DFS *)
  Definition traverse (all : list Z) (st : wstate) : pyres traversal :=
    match min_by (key_start all) (ws_atoms st) with
    | None => Err ValueError                                         (* min() of an empty set *)
    | Some start =>
        let seen := if o_random o then ws_seen st
                    else bfs (S n_atoms) [(start, 1)] (zset (ws_seen st) start 0) in
        let key := key_child_at all seen in
        let st0 := mkDfs [(start, Z.of_nat (List.length (ws_atoms st)), sort_by (key start) (nbr_ids g start))]
                         [(start, [])] [] [] [] (ws_cycle st) in
        match iter_opt dfs_fuel (dfs_step key) st0 with
        | None => Err OtherError
        | Some d => Ok (mkTr start seen d)
        end
    end.

  Definition flatten (t : traversal) : pyres (list tok) :=
    fl_run fl_fuel (ds_edges (tr_dfs t)) [(tr_start t, 0, [TAtom (tr_start t)])].

  Definition component (all : list Z) (st : wstate) : pyres wstate :=
    match traverse all st with
    | Err e => Err e
    | Ok t =>
      let d := tr_dfs t in
      match flatten t with
      | Err e => Err e
      | Ok smi =>
        let ro := ring_positions (ds_tokens d) smi 0 in
        match number_atoms (ds_tokens d) ro ro (ws_casted st) (ws_heap st) with
        | Err e => Err e
        | Ok (casted, heap) =>
          let '(tokens, visited) := order_neighbours smi casted (ds_edges d) (ds_tokens d) (ds_visited d) in
          let ctm := ct_map g tabs visited in
          match emit (fun n => format_atom g o tabs n visited) (format_bond g o ctm) smi tokens casted (ws_vb st) with
          | Err e => Err e
          | Ok (out, ord, vb) =>
            let rest := filter (fun n => negb (zhas visited n)) (ws_atoms st) in
            Ok (mkW rest (tr_seen t) (ds_cycle d) casted heap
                    (ws_out st ++ out ++ match rest with [] => [] | _ => [ODot] end)
                    (ws_order st ++ ord) vb)
          end
        end
      end
    end.

  Fixpoint components (fuel : nat) (all : list Z) (st : wstate) : pyres wstate :=
    match fuel with
    | O => Err OtherError
    | S f => match component all st with
             | Err e => Err e
             | Ok st' => match ws_atoms st' with
                         | [] => Ok st'
                         | _ => components f all st'
                         end
             end
    end.

  Definition init_state : wstate :=
    mkW (ids g) [] 0 [] (zrange heap_lo heap_hi) [] [] [].

  (* Smiles._smiles(weights, _return_order=True, **kwargs): None stands for the bare `return []` of an empty molecule *)
  Definition smiles_tokens : pyres (option (list otok * list Z)) :=
    match ids g with
    | [] => Ok None
    | _ => match components (S n_atoms) (ids g) init_state with
           | Err e => Err e
           | Ok st => Ok (Some (ws_out st, ws_order st))
           end
    end.
End Traversal.

(* _format_cxsmiles *)
Fixpoint radical_positions (g : mol) (order : list Z) (i : Z) : list Z :=
  match order with
  | [] => []
  | m :: r => if match atom_of g m with Some a => a_rad a | None => false end
              then i :: radical_positions g r (i + 1) else radical_positions g r (i + 1)
  end.
Definition format_cxsmiles (g : mol) (order : list Z) : option string :=
  if existsb (fun na => a_rad (snd na)) (m_atoms g)
  then Some (scat ["|^1:"%string; String.concat "," (map str_Z (radical_positions g order 0)); "|"%string])
  else None.

(* format(mol, spec) / str(mol) given the weights the code would use (`_smiles_order('!s' not in spec)`, or anything
   for 'r'); returns the text and smiles_atoms_order.  `smiles, order = self._smiles(...)` on an empty molecule
   unpacks [] : ValueError *)
Definition smiles_text (g : mol) (w tb : Z -> Z) (o : opts) (tabs : stabs) : pyres (string * list Z) :=
  match smiles_tokens g w tb o tabs with
  | Err e => Err e
  | Ok None => Err ValueError
  | Ok (Some (out, order)) =>
      let s := spell out in
      match (if o_cx o then format_cxsmiles g order else None) with
      | Some cx => Ok (scat [s; " "%string; cx], order)
      | None => Ok (s, order)
      end
  end.

(* ================================================================================================
   5. the reader side the writer has to agree with: _tokenize (SMILES alphabet) and _atom_parse
   ================================================================================================ *)
Inductive rtok :=
| RAtom (s : string)        (* (0, symbol) *)
| RBond (b : Z)             (* (1, order) *)
| ROpen                     (* (2, None) *)
| RClose                    (* (3, None) *)
| RDot                      (* (4, None) *)
| RBracket (raw : string)   (* (5, text) *)
| RClosure (c : Z)          (* (6, number) *)
| RArom (s : string)        (* (8, SYMBOL) *)
| RUpDown (up : bool).      (* (9, is '/') *)

Inductive pending := PNone | PFlag (c : ascii) | PBuf (l : list ascii).   (* token: None / 'C' or 'B' / list of characters *)
Definition pending_truthy (p : pending) : bool :=
  match p with PNone => false | PFlag _ => true | PBuf [] => false | PBuf _ => true end.

Definition char_in (c : ascii) (s : string) : bool := existsb (Ascii.eqb c) (list_ascii_of_string s).
Definition is_digit (c : ascii) : bool := let n := nat_of_ascii c in (Nat.leb 48 n && Nat.leb n 57)%bool.
Definition digit_val (c : ascii) : Z := Z.of_nat (nat_of_ascii c) - 48.
Definition int_of_digits (l : list ascii) : Z := fold_left (fun acc c => acc * 10 + digit_val c) l 0.
Fixpoint sget1 {V : Type} (d : list (string * V)) (k : string) : option V :=
  match d with
  | [] => None
  | (k', v) :: r => if String.eqb k k' then Some v else sget1 r k
  end.

Record tkst := mkTk { tk_type : option Z; tk_pend : pending; tk_out : list rtok }.

(* `if token: tokens.append((token_type, token))`: the only truthy pending token outside [..] and %.. is 'C' / 'B' *)
Definition flush (st : tkst) : list rtok :=
  match tk_pend st with
  | PFlag c => tk_out st ++ [RAtom (str1 c)]
  | _ => tk_out st
  end.
Definition tt_is (st : tkst) (t : Z) : bool := match tk_type st with Some x => x =? t | None => false end.

(* one character of `for s in smiles:`; the SMARTS-only characters ; , ! are outside the model (OtherError) *)
Definition tk_step (st : tkst) (s : ascii) : pyres tkst :=
  if Ascii.eqb s "["%char then
    if tt_is st 5 then Err IncorrectSmiles
    else if tt_is st 7 then Err IncorrectSmiles
    else Ok (mkTk (Some 5) (PBuf []) (flush st))
  else if Ascii.eqb s "]"%char then
    if negb (tt_is st 5) then Err IncorrectSmiles
    else match tk_pend st with
         | PBuf (c :: l) => Ok (mkTk (Some 0) PNone (tk_out st ++ [RBracket (string_of_list_ascii (c :: l))]))
         | _ => Err IncorrectSmiles
         end
  else if tt_is st 5 then
    match tk_pend st with
    | PBuf l => Ok (mkTk (Some 5) (PBuf (l ++ [s])) (tk_out st))
    | _ => Err OtherError
    end
  else if is_digit s then
    if tt_is st 2 then Err IncorrectSmiles
    else if tt_is st 7 then
      match tk_pend st with
      | PBuf l =>
          if match l with [] => Ascii.eqb s "0"%char | _ => false end then Err IncorrectSmiles
          else let l' := l ++ [s] in
               if (List.length l' =? 2)%nat then Ok (mkTk (Some 6) PNone (tk_out st ++ [RClosure (int_of_digits l')]))
               else Ok (mkTk (Some 7) (PBuf l') (tk_out st))
      | _ => Err OtherError
      end
    else if Ascii.eqb s "0"%char then Err IncorrectSmiles
    else Ok (mkTk (Some 6) PNone (flush st ++ [RClosure (digit_val s)]))
  else if tt_is st 7 then Err IncorrectSmiles
  else if Ascii.eqb s "%"%char then
    if tt_is st 2 then Err IncorrectSmiles
    else Ok (mkTk (Some 7) (PBuf []) (flush st))
  else if char_in s tk_bond_chars then
    match sget1 replace_dict (str1 s) with
    | Some b => Ok (mkTk (Some 1) PNone (flush st ++ [RBond b]))
    | None => Err KeyError
    end
  else if char_in s tk_updown_chars then Ok (mkTk (Some 9) PNone (flush st ++ [RUpDown (Ascii.eqb s "/"%char)]))
  else if Ascii.eqb s "."%char then Ok (mkTk (Some 4) PNone (flush st ++ [RDot]))
  else if Ascii.eqb s ";"%char || Ascii.eqb s ","%char || Ascii.eqb s "!"%char then Err OtherError
  else if Ascii.eqb s "("%char then
    if tt_is st 2 then Err IncorrectSmiles else Ok (mkTk (Some 2) PNone (flush st ++ [ROpen]))
  else if Ascii.eqb s ")"%char then
    if tt_is st 2 then Err IncorrectSmiles else Ok (mkTk (Some 3) PNone (flush st ++ [RClose]))
  else if char_in s tk_organic_chars then Ok (mkTk (Some 0) PNone (flush st ++ [RAtom (str1 s)]))
  else if char_in s tk_aromatic_chars then Ok (mkTk (Some 8) PNone (flush st ++ [RArom (str1 (upper_ascii s))]))
  else if char_in s tk_flag_chars then Ok (mkTk (Some 0) (PFlag s) (flush st))
  else if tt_is st 0 then
    if Ascii.eqb s "l"%char then
      match tk_pend st with
      | PFlag c => if Ascii.eqb c "C"%char then Ok (mkTk (Some 0) PNone (tk_out st ++ [RAtom "Cl"])) else Err IncorrectSmiles
      | _ => Err IncorrectSmiles
      end
    else if Ascii.eqb s "r"%char then
      match tk_pend st with
      | PFlag c => if Ascii.eqb c "B"%char then Ok (mkTk (Some 0) PNone (tk_out st ++ [RAtom "Br"])) else Err IncorrectSmiles
      | _ => Err IncorrectSmiles
      end
    else Err IncorrectSmiles
  else Err IncorrectSmiles.

Fixpoint tk_loop (st : tkst) (l : list ascii) : pyres tkst :=
  match l with
  | [] => Ok st
  | c :: r => match tk_step st c with Ok st' => tk_loop st' r | Err e => Err e end
  end.

Definition tk_finish (st : tkst) : pyres (list rtok) :=
  if tt_is st 5 then Err IncorrectSmiles
  else if tt_is st 7 then
    match tk_pend st with
    | PBuf (c :: _) => Ok (tk_out st ++ [RClosure (int_of_digits [c])])
    | _ => Err IncorrectSmiles
    end
  else Ok (flush st).

Definition tokenize_chars (l : list ascii) : pyres (list rtok) :=
  match tk_loop (mkTk None PNone []) l with
  | Ok st => tk_finish st
  | Err e => Err e
  end.
Definition tokenize (s : string) : pyres (list rtok) := tokenize_chars (list_ascii_of_string s).

(* ---- _atom_parse: atom_re.fullmatch as an explicit (deterministic, greedy) matcher ----
   ([1-9][0-9]{0,2})?([A-IK-PR-Zacnopsbt][a-ik-pr-vy]?)(@@|@)?(H[1-4]?)?([+-][1-4+-]?)?(:[0-9]+)?
   no alternative of the pattern can consume a character another one could start with, so the first (greedy) choice is
   the only possible match: backtracking never changes the result *)
Definition in_range (c : ascii) (lo hi : ascii) : bool :=
  (Nat.leb (nat_of_ascii lo) (nat_of_ascii c) && Nat.leb (nat_of_ascii c) (nat_of_ascii hi))%bool.
Definition elem_first (c : ascii) : bool :=
  in_range c "A" "I" || in_range c "K" "P" || in_range c "R" "Z" || char_in c "acnopsbt".
Definition elem_second (c : ascii) : bool :=
  in_range c "a" "i" || in_range c "k" "p" || in_range c "r" "v" || Ascii.eqb c "y".

(* up to [n] leading digits *)
Fixpoint take_digits (n : nat) (l : list ascii) : list ascii * list ascii :=
  match n, l with
  | S k, c :: r => if is_digit c then let '(d, rest) := take_digits k r in (c :: d, rest) else ([], l)
  | _, _ => ([], l)
  end.

Record parsed := mkParsed {
  p_type : Z;                 (* 0 / 8 *)
  p_elem : string;
  p_iso : option Z;
  p_map : option Z;
  p_chg : Z;
  p_h : Z;
  p_stereo : option bool
}.

Definition capitalize (s : string) : string :=
  match s with EmptyString => EmptyString | String c r => String (upper_ascii c) (lower_string r) end.

Definition atom_parse_chars (l : list ascii) : pyres parsed :=
  (* isotope *)
  let '(iso, l1) :=
    match l with
    | c :: r => if in_range c "1" "9" then let '(d, rest) := take_digits 2 r in (Some (int_of_digits (c :: d)), rest)
                else (None, l)
    | [] => (None, l)
    end in
  (* element *)
  match l1 with
  | c :: r =>
      if negb (elem_first c) then Err IncorrectSmiles else
      let '(el, l2) := match r with
                       | c2 :: r2 => if elem_second c2 then ([c; c2], r2) else ([c], r)
                       | [] => ([c], r)
                       end in
      (* stereo *)
      let '(st, l3) := match l2 with
                       | "@"%char :: "@"%char :: r3 => (Some false, r3)
                       | "@"%char :: r3 => (Some true, r3)
                       | _ => (None, l2)
                       end in
      (* hydrogens *)
      let '(h, l4) := match l3 with
                      | "H"%char :: r4 =>
                          match r4 with
                          | d :: r5 => if in_range d "1" "4" then (digit_val d, r5) else (1, r4)
                          | [] => (1, r4)
                          end
                      | _ => (0, l3)
                      end in
      (* charge *)
      let '(chg, l5) := match l4 with
                        | s :: r5 =>
                            if Ascii.eqb s "+"%char || Ascii.eqb s "-"%char then
                              match r5 with
                              | d :: r6 => if in_range d "1" "4" || Ascii.eqb d "+"%char || Ascii.eqb d "-"%char
                                           then (Some [s; d], r6) else (Some [s], r5)
                              | [] => (Some [s], r5)
                              end
                            else (None, l4)
                        | [] => (None, l4)
                        end in
      (* mapping *)
      let mp := match l5 with
                | ":"%char :: r6 =>
                    let '(d, rest) := take_digits (List.length r6) r6 in       (* [0-9]+ : since fix 6e5bd93 any number of digits *)
                    match d, rest with
                    | _ :: _, [] => Some (Some (int_of_digits d))
                    | _, _ => None                                 (* no full match *)
                    end
                | [] => Some None
                | _ => None
                end in
      match mp with
      | None => Err IncorrectSmiles
      | Some mapping =>
          match (match chg with
                 | None => Some 0
                 | Some cs => sget1 charge_dict (string_of_list_ascii cs)
                 end) with
          | None => Err IncorrectSmiles                            (* charge token invalid *)
          | Some charge =>
              let element := string_of_list_ascii el in
              if smem element aromatic_bracket_symbols
              then Ok (mkParsed 8 (capitalize element) iso mapping charge h st)
              else Ok (mkParsed 0 element iso mapping charge h st)
          end
      end
  | [] => Err IncorrectSmiles
  end.
Definition atom_parse (s : string) : pyres parsed := atom_parse_chars (list_ascii_of_string s).

(* ---- comparison helpers for the correspondence cases ---- *)
Definition string_list_eqb (a b : list string) : bool := list_eqb String.eqb a b.
Definition zlist_eqb (a b : list Z) : bool := list_eqb Z.eqb a b.
Definition rtok_eqb (a b : rtok) : bool :=
  match a, b with
  | RAtom x, RAtom y | RBracket x, RBracket y | RArom x, RArom y => String.eqb x y
  | RBond x, RBond y | RClosure x, RClosure y => x =? y
  | ROpen, ROpen | RClose, RClose | RDot, RDot => true
  | RUpDown x, RUpDown y => Bool.eqb x y
  | _, _ => false
  end.
Definition parsed_eqb (a b : parsed) : bool :=
  (p_type a =? p_type b) && String.eqb (p_elem a) (p_elem b) && option_eqb Z.eqb (p_iso a) (p_iso b) &&
  option_eqb Z.eqb (p_map a) (p_map b) && (p_chg a =? p_chg b) && (p_h a =? p_h b) &&
  option_eqb Bool.eqb (p_stereo a) (p_stereo b).

(* the Python list `string` and `order` of _smiles *)
Definition smiles_strings (g : mol) (w tb : Z -> Z) (o : opts) (tabs : stabs) : pyres (list string * list Z) :=
  match smiles_tokens g w tb o tabs with
  | Err e => Err e
  | Ok None => Ok ([], [])
  | Ok (Some (out, order)) => Ok (map spell_otok out, order)
  end.
Definition smiles_case (g : mol) (w tb : list (Z * Z)) (o : opts) (tabs : stabs)
                       (strings : list string) (order : list Z) (text : string) : bool :=
  let wf := fun n => match zget w n with Some x => x | None => 0 end in
  let tf := fun n => match zget tb n with Some x => x | None => 0 end in
  match smiles_strings g wf tf o tabs, smiles_text g wf tf o tabs with
  | Ok (ss, ord), Ok (txt, ord') =>
      string_list_eqb ss strings && zlist_eqb ord order && zlist_eqb ord' order && String.eqb txt text
  | _, _ => false
  end.
