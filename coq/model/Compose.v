(* C15 -- model of the condensed graph of reaction (CGR):
     chython/containers/molecule.py  MoleculeContainer.compose / __xor__
     chython/periodictable/base/dynamic.py  DynamicElement.from_atom / from_atoms / is_dynamic
     chython/containers/bonds.py  DynamicBond / from_bond / is_dynamic
     chython/containers/cgr.py  CGRContainer.center_atoms
     chython/containers/graph.py  Graph.remap / union (used by ReactionContainer.compose)
     chython/containers/reaction.py  ReactionContainer.compose / __invert__
   Python dicts are association lists in insertion order (dict item assignment = zset).
   `compose` iterates three Python SETS (`self - common`, `other - common`, `common`); CPython's set iteration
   order is not modelled: the three iteration orders are explicit inputs o1 o2 o3 of compose_ord (the
   correspondence passes the observed ones, theorems quantify over all of them), and `m in common` is
   membership in o3.  Definitions only; proofs in Proofs.ComposeProofs. *)
From Coq Require Import ZArith List Bool Permutation.
From Model Require Import PyBase Graph.
Import ListNotations.
Open Scope Z_scope.

(* ---------- dynamic atoms and bonds ---------- *)
Record datom := mkDAtom {
  d_num : Z; d_iso : option Z;
  d_chg : Z; d_rad : bool;         (* reactant state *)
  d_pchg : Z; d_prad : bool        (* product state: p_charge, p_is_radical *)
}.
Record dbond := mkDBond { db_ord : option Z; db_pord : option Z }.   (* order, p_order; None = absent *)

Record cgr := mkCgr {
  c_atoms : list (Z * datom);                  (* CGRContainer._atoms *)
  c_adj : list (Z * list (Z * dbond))          (* CGRContainer._bonds *)
}.

(* DynamicElement.is_dynamic / DynamicBond.is_dynamic *)
Definition datom_dynamic (a : datom) : bool := negb (d_chg a =? d_pchg a) || negb (Bool.eqb (d_rad a) (d_prad a)).
Definition dbond_dynamic (b : dbond) : bool := negb (option_eqb Z.eqb (db_ord b) (db_pord b)).

(* DynamicElement.from_atom *)
Definition from_atom (a : atom) : datom := mkDAtom (a_num a) (a_iso a) (a_chg a) (a_rad a) (a_chg a) (a_rad a).
(* DynamicElement.from_atoms: ValueError on different element or isotope *)
Definition from_atoms (a b : atom) : pyres datom :=
  if negb (a_num a =? a_num b) then Err ValueError
  else if negb (option_eqb Z.eqb (a_iso a) (a_iso b)) then Err ValueError
  else Ok (mkDAtom (a_num a) (a_iso a) (a_chg a) (a_rad a) (a_chg b) (a_rad b)).
(* DynamicBond.from_bond.  (DynamicBond.__init__ validates its orders; every order comes from a Bond, whose
   constructor admits 1 2 3 4 8 only, so that validation cannot fail inside compose and is not modelled.) *)
Definition from_bond (b : bond) : dbond := mkDBond (Some (b_ord b)) (Some (b_ord b)).

Definition datom_eqb (a b : datom) : bool :=
  (d_num a =? d_num b) && option_eqb Z.eqb (d_iso a) (d_iso b) && (d_chg a =? d_chg b) && Bool.eqb (d_rad a) (d_rad b) &&
  (d_pchg a =? d_pchg b) && Bool.eqb (d_prad a) (d_prad b).
Definition dbond_eqb (a b : dbond) : bool :=
  option_eqb Z.eqb (db_ord a) (db_ord b) && option_eqb Z.eqb (db_pord a) (db_pord b).
Definition cgr_eqb (g h : cgr) : bool :=
  list_eqb (pair_eqb Z.eqb datom_eqb) (c_atoms g) (c_atoms h) &&
  list_eqb (pair_eqb Z.eqb (list_eqb (pair_eqb Z.eqb dbond_eqb))) (c_adj g) (c_adj h).

(* ---------- dict item assignment d[k] = v : in place when the key exists, appended otherwise ---------- *)
Fixpoint zset {V : Type} (d : list (Z * V)) (k : Z) (v : V) : list (Z * V) :=
  match d with
  | [] => [(k, v)]
  | (k', v') :: r => if Z.eqb k k' then (k, v) :: r else (k', v') :: zset r k v
  end.

(* lookups in a CGR *)
Definition catom (h : cgr) (n : Z) : option datom := zget (c_atoms h) n.
Definition cnbrs (h : cgr) (n : Z) : list (Z * dbond) := match zget (c_adj h) n with Some l => l | None => [] end.
Definition cbond (h : cgr) (n m : Z) : option dbond := zget (cnbrs h n) m.

(* ---------- MoleculeContainer.compose ---------- *)
Definition blist := list (Z * Z * dbond).      (* the local list `bonds` *)

(* inner loops:  for m, x in items: if m not in ha: bonds.append((n, m, mk m x)) *)
Definition emit {X : Type} (ha : list Z) (n : Z) (mk : Z -> X -> dbond) (items : list (Z * X)) : blist :=
  map (fun mx => (n, fst mx, mk (fst mx) (snd mx))) (filter (fun mx => negb (zmem (fst mx) ha)) items).

(* loops 1 and 2 (cleavage atoms over self, coupling atoms over other):
     for n in g._atoms.keys() - common:
         ha[n] = DynamicElement.from_atom(g._atoms[n]); hb[n] = {}
         for m, bond in g._bonds[n].items():
             if m not in ha:
                 bond = broken(bond.order) if m in common else DynamicBond.from_bond(bond)
                 bonds.append((n, m, bond))
   returns the new ha and the bonds appended, in order *)
Fixpoint loop_side (g : mol) (common : list Z) (broken : Z -> dbond) (order : list Z) (ha : list (Z * datom))
  : pyres (list (Z * datom) * blist) :=
  match order with
  | [] => Ok (ha, [])
  | n :: rest =>
      match atom_of g n with
      | None => Err KeyError
      | Some a =>
          let ha' := zset ha n (from_atom a) in
          let new := emit (keys ha') n (fun m b => if zmem m common then broken (b_ord b) else from_bond b) (nbrs g n) in
          match loop_side g common broken rest ha' with
          | Err e => Err e
          | Ok (haf, bs) => Ok (haf, new ++ bs)
          end
      end
  end.

(* loop 3: adj = defaultdict(lambda: defaultdict(lambda: [None, None]))
     an = adj[n]
     for m, bond in self._bonds[n].items():  if m in common: an[m][0] = bond.order
     for m, bond in other._bonds[n].items(): if m in common: an[m][1] = bond.order *)
Definition adj_entry := (option Z * option Z)%type.
Definition adj_set0 (an : list (Z * adj_entry)) (m o : Z) : list (Z * adj_entry) :=
  zset an m (Some o, match zget an m with Some e => snd e | None => None end).
Definition adj_set1 (an : list (Z * adj_entry)) (m o : Z) : list (Z * adj_entry) :=
  zset an m (match zget an m with Some e => fst e | None => None end, Some o).
Definition build_adj (r p : mol) (common : list Z) (n : Z) : list (Z * adj_entry) :=
  let an := fold_left (fun an mb => if zmem (fst mb) common then adj_set0 an (fst mb) (b_ord (snd mb)) else an) (nbrs r n) [] in
  fold_left (fun an mb => if zmem (fst mb) common then adj_set1 an (fst mb) (b_ord (snd mb)) else an) (nbrs p n) an.
(* adj[n] on the defaultdict *)
Definition adj_lookup (adjd : list (Z * list (Z * adj_entry))) (n : Z) : list (Z * adj_entry) :=
  match zget adjd n with Some l => l | None => [] end.

(* loop 4:
     for n in common:
         ha[n] = DynamicElement.from_atoms(self._atoms[n], other._atoms[n]); hb[n] = {}
         for m, (o1, o2) in adj[n].items():
             if m not in ha: bonds.append((n, m, DynamicBond(o1, o2))) *)
Fixpoint loop_common (r p : mol) (adjd : list (Z * list (Z * adj_entry))) (order : list Z) (ha : list (Z * datom))
  : pyres (list (Z * datom) * blist) :=
  match order with
  | [] => Ok (ha, [])
  | n :: rest =>
      match atom_of r n, atom_of p n with
      | Some a, Some b =>
          match from_atoms a b with
          | Err e => Err e
          | Ok d =>
              let ha' := zset ha n d in
              let new := emit (keys ha') n (fun _ e => mkDBond (fst e) (snd e)) (adj_lookup adjd n) in
              match loop_common r p adjd rest ha' with
              | Err e => Err e
              | Ok (haf, bs) => Ok (haf, new ++ bs)
              end
          end
      | _, _ => Err KeyError
      end
  end.

(* loop 5:  for n, m, bond in bonds: hb[n][m] = hb[m][n] = bond
   (hb[n] on a missing key would be a KeyError; both ends always are keys: lemma bonds_ends_are_atoms) *)
Definition set_bond (hb : list (Z * list (Z * dbond))) (n m : Z) (b : dbond) : list (Z * list (Z * dbond)) :=
  match zget hb n with Some l => zset hb n (zset l m b) | None => hb end.
Definition assign (hb : list (Z * list (Z * dbond))) (e : Z * Z * dbond) : list (Z * list (Z * dbond)) :=
  let '(n, m, b) := e in set_bond (set_bond hb n m b) m n b.

(* o1, o2, o3: iteration orders of the sets  self.keys() - common,  other.keys() - common,  common *)
Definition compose_ord (o1 o2 o3 : list Z) (r p : mol) : pyres cgr :=
  match loop_side r o3 (fun o => mkDBond (Some o) None) o1 [] with
  | Err e => Err e
  | Ok (ha1, b1) =>
      match loop_side p o3 (fun o => mkDBond None (Some o)) o2 ha1 with
      | Err e => Err e
      | Ok (ha2, b2) =>
          let adjd := map (fun n => (n, build_adj r p o3 n)) o3 in
          match loop_common r p adjd o3 ha2 with
          | Err e => Err e
          | Ok (ha3, b3) =>
              Ok (mkCgr ha3 (fold_left assign (b1 ++ b2 ++ b3) (map (fun na => (fst na, [])) ha3)))
          end
      end
  end.

(* the intermediate state of compose at its `return h`: the dict ha, the local list `bonds` (in append order) and the
   defaultdict adj (outer keys in the order of `common`, inner keys in first-assignment order); the correspondence reads the
   same three locals from the frame of the real method *)
Definition compose_trace (o1 o2 o3 : list Z) (r p : mol)
  : pyres (list (Z * datom) * blist * list (Z * list (Z * adj_entry))) :=
  match loop_side r o3 (fun o => mkDBond (Some o) None) o1 [] with
  | Err e => Err e
  | Ok (ha1, b1) =>
      match loop_side p o3 (fun o => mkDBond None (Some o)) o2 ha1 with
      | Err e => Err e
      | Ok (ha2, b2) =>
          let adjd := map (fun n => (n, build_adj r p o3 n)) o3 in
          match loop_common r p adjd o3 ha2 with
          | Err e => Err e
          | Ok (ha3, b3) => Ok (ha3, b1 ++ b2 ++ b3, adjd)
          end
      end
  end.

(* the three sets, in one admissible iteration order (dict order of the operands) *)
Definition cleavage_ids (r p : mol) : list Z := filter (fun n => negb (zmem n (ids p))) (ids r).
Definition coupling_ids (r p : mol) : list Z := filter (fun n => negb (zmem n (ids r))) (ids p).
Definition common_ids (r p : mol) : list Z := filter (fun n => zmem n (ids p)) (ids r).
Definition compose (r p : mol) : pyres cgr := compose_ord (cleavage_ids r p) (coupling_ids r p) (common_ids r p) r p.

(* what "o1 o2 o3 are iteration orders of the three sets" means *)
Definition orders_ok (r p : mol) (o1 o2 o3 : list Z) : Prop :=
  Permutation o1 (cleavage_ids r p) /\ Permutation o2 (coupling_ids r p) /\ Permutation o3 (common_ids r p).

(* ---------- CGRContainer.center_atoms (a set: compared after sorting) ---------- *)
Definition center_atoms (h : cgr) : list Z :=
  let c1 := map fst (filter (fun na => datom_dynamic (snd na)) (c_atoms h)) in
  let c2 := map fst (filter (fun nl => existsb (fun mb => dbond_dynamic (snd mb)) (snd nl)) (c_adj h)) in
  c1 ++ filter (fun n => negb (zmem n c1)) c2.

(* well-formedness of a CGR: same keys, no duplicates, symmetric with equal bonds, no loops *)
Definition wf_cgr (h : cgr) : bool :=
  list_eqb Z.eqb (keys (c_atoms h)) (keys (c_adj h)) && nodup_z (keys (c_atoms h)) &&
  forallb (fun nl => let n := fst nl in
     nodup_z (keys (snd nl)) &&
     forallb (fun mb => let m := fst mb in
        negb (m =? n) && zmem m (keys (c_atoms h)) &&
        match cbond h m n with Some b' => dbond_eqb (snd mb) b' | None => false end) (snd nl)) (c_adj h).

(* ---------- specification of the result (what the theorems compare compose with) ---------- *)
Definition inb (g : mol) (n : Z) : bool := zmem n (ids g).
Definition ord_in (g : mol) (n m : Z) : option Z := option_map b_ord (bond_of g n m).
Definition is_common (r p : mol) (n : Z) : bool := inb r n && inb p n.

Definition spec_atom (r p : mol) (n : Z) : option datom :=
  match atom_of r n, atom_of p n with
  | Some a, Some b => Some (mkDAtom (a_num a) (a_iso a) (a_chg a) (a_rad a) (a_chg b) (a_rad b))
  | Some a, None => Some (from_atom a)
  | None, Some b => Some (from_atom b)
  | None, None => None
  end.

(* both ends on both sides: (order, p_order) with None for absent;  one end only in the reactants: a bond to a
   common atom is broken (o, None), a bond between two reactant-only atoms is copied UNCHANGED (o, o); dually
   for the products *)
Definition spec_bond (r p : mol) (n m : Z) : option dbond :=
  if is_common r p n && is_common r p m then
    match ord_in r n m, ord_in p n m with
    | None, None => None
    | a, b => Some (mkDBond a b)
    end
  else if inb r n && inb r m then
    match ord_in r n m with
    | None => None
    | Some o => Some (if is_common r p n || is_common r p m then mkDBond (Some o) None else mkDBond (Some o) (Some o))
    end
  else if inb p n && inb p m then
    match ord_in p n m with
    | None => None
    | Some o => Some (if is_common r p n || is_common r p m then mkDBond None (Some o) else mkDBond (Some o) (Some o))
    end
  else None.

Definition is_dynamic_atom (h : cgr) (n : Z) : Prop := exists a, catom h n = Some a /\ datom_dynamic a = true.
Definition is_dynamic_bond (h : cgr) (n m : Z) : Prop := exists b, cbond h n m = Some b /\ dbond_dynamic b = true.

(* ---------- Graph.remap (same injective renumbering; dict comprehension keeps the order) ---------- *)
Definition rename (f : Z -> Z) (g : mol) : mol :=
  mkMol (map (fun na => (f (fst na), snd na)) (m_atoms g))
        (map (fun nl => (f (fst nl), map (fun mb => (f (fst mb), snd mb)) (snd nl))) (m_adj g)).
Definition rename_cgr (f : Z -> Z) (h : cgr) : cgr :=
  mkCgr (map (fun na => (f (fst na), snd na)) (c_atoms h))
        (map (fun nl => (f (fst nl), map (fun mb => (f (fst mb), snd mb)) (snd nl))) (c_adj h)).
Definition map_res {A B : Type} (f : A -> B) (x : pyres A) : pyres B :=
  match x with Ok a => Ok (f a) | Err e => Err e end.
Definition inj_on (D : list Z) (f : Z -> Z) : Prop := forall x y, In x D -> In y D -> f x = f y -> x = y.

(* ---------- ReactionContainer.compose:  reduce(or_, reagents + reactants) ^ reduce(or_, products) ---------- *)
Definition zupdate {V : Type} (a b : list (Z * V)) : list (Z * V) := fold_left (fun d kv => zset d (fst kv) (snd kv)) b a.
Definition zmax (l : list Z) : Z := fold_left Z.max l 0.     (* atom numbers are positive *)
(* Graph.union(other, remap=True): on a collision `other` is renumbered max(self)+1 ... in its atom order *)
Definition union_remap (a b : mol) : mol :=
  let b' := if existsb (fun n => zmem n (ids a)) (ids b)
            then rename (fun n => match index_of (ids b) n with Some i => zmax (ids a) + 1 + i | None => n end) b
            else b in
  mkMol (zupdate (m_atoms a) (m_atoms b')) (zupdate (m_adj a) (m_adj b')).
Definition union_all (l : list mol) : mol :=
  match l with [] => mkMol [] [] | x :: rest => fold_left union_remap rest x end.
Definition rxn_compose_ord (o1 o2 o3 : list Z) (reactants reagents products : list mol) : pyres cgr :=
  compose_ord o1 o2 o3 (union_all (reagents ++ reactants)) (union_all products).
Definition rxn_compose (reactants reagents products : list mol) : pyres cgr :=
  compose (union_all (reagents ++ reactants)) (union_all products).

(* ---------- comparison after sorting by atom number (Python sets / set-ordered dicts) ---------- *)
Fixpoint kinsert {V : Type} (x : Z * V) (l : list (Z * V)) : list (Z * V) :=
  match l with [] => [x] | y :: r => if fst x <=? fst y then x :: y :: r else y :: kinsert x r end.
Definition ksort {V : Type} (l : list (Z * V)) : list (Z * V) := fold_right kinsert [] l.
Definition cgr_norm (h : cgr) : cgr :=
  mkCgr (ksort (c_atoms h)) (ksort (map (fun nl => (fst nl, ksort (snd nl))) (c_adj h))).
Definition zlsort (l : list Z) : list Z := map fst (ksort (map (fun x => (x, tt)) l)).
(* dynamic atoms / bonds as sorted lists (what the ground-truth comparison of the harness uses) *)
Definition dynamic_atoms (h : cgr) : list Z := zlsort (map fst (filter (fun na => datom_dynamic (snd na)) (c_atoms h))).
Definition dynamic_bonds (h : cgr) : list (Z * Z) :=
  flat_map (fun nl => map (fun mb => (fst nl, fst mb))
                          (filter (fun mb => (fst nl <? fst mb) && dbond_dynamic (snd mb)) (ksort (snd nl))))
           (ksort (c_adj h)).

(* ---------- CGRSmiles tokens (chython/algorithms/smiles.py: dyn_order_str, dyn_charge_str, dyn_radical_str,
   CGRSmiles._format_bond / _format_atom).  None = KeyError of the dict lookup ---------- *)
From Coq Require Import String.
Open Scope string_scope.
Open Scope list_scope.
Open Scope Z_scope.
Definition order_sym (o : option Z) : option string :=
  match o with
  | None => Some "." | Some 1 => Some "-" | Some 2 => Some "=" | Some 3 => Some "#" | Some 4 => Some ":" | Some 8 => Some "~"
  | _ => None
  end.
Definition dyn_order_str (o p : option Z) : option string :=
  match o, p with
  | None, None => None
  | _, _ =>
      match order_sym o, order_sym p with
      | Some a, Some b =>
          if option_eqb Z.eqb o p then Some (if option_eqb Z.eqb o (Some 1) then "" else a)
          else Some ("[" ++ a ++ ">" ++ b ++ "]")%string
      | _, _ => None
      end
  end.
Definition charge_str (c : Z) : option string :=
  match c with
  | -4 => Some "-4" | -3 => Some "-3" | -2 => Some "-2" | -1 => Some "-" | 0 => Some "0"
  | 1 => Some "+" | 2 => Some "+2" | 3 => Some "+3" | 4 => Some "+4" | _ => None
  end.
Definition dyn_charge_str (i j : Z) : option string :=
  match charge_str i, charge_str j with
  | Some a, Some b => if i =? j then Some (if i =? 0 then "" else a) else Some (a ++ ">" ++ b)%string
  | _, _ => None
  end.
Definition dyn_radical_str (r pr : bool) : option string :=
  match r, pr with
  | true, true => Some "*" | true, false => Some "*>^" | false, true => Some "^>*" | false, false => None
  end.
(* CGRSmiles._format_bond *)
Definition cgr_bond_str (b : dbond) : option string := dyn_order_str (db_ord b) (db_pord b).
(* CGRSmiles._format_atom; symbol = atom.atomic_symbol, organic = symbol in organic_set, iso = str(isotope) *)
Definition cgr_atom_str (symbol : string) (organic : bool) (iso : option string) (a : datom) : option string :=
  let smi := match iso with Some s => [s; symbol] | None => [symbol] end in
  let chg := if negb (d_chg a =? 0) || negb (d_pchg a =? 0) then option_map (fun x => [x]) (dyn_charge_str (d_chg a) (d_pchg a)) else Some [] in
  let rad := if d_rad a || d_prad a then option_map (fun x => [x]) (dyn_radical_str (d_rad a) (d_prad a)) else Some [] in
  match chg, rad with
  | Some c, Some r =>
      let smi := smi ++ c ++ r in
      Some (if negb (Nat.eqb (List.length smi) 1) || negb organic then ("[" ++ String.concat "" smi ++ "]")%string
            else String.concat "" smi)
  | _, _ => None
  end.
