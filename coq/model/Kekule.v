(* C05 -- Kekule / Thiele conversions.
   Anchors: chython/algorithms/aromatics/kekule.py (Kekule.kekule, enumerate_kekule, __prepare_rings, __kekule_full),
            chython/algorithms/aromatics/thiele.py (Thiele.thiele).

   Two kinds of model live here (DESIGN.md 5/C05):
   (A) algorithm-level, mirroring the Python control flow:
        - classify_atom   : the per-atom part of Kekule.__prepare_rings (lines "for n in rings: ..."), i.e. which ring atom
                            ends in `pyrroles`, in `double_bonded`, in neither, or raises InvalidAromaticRing;
        - prepare_rings   : the whole of Kekule.__prepare_rings (aromatic skeleton, SSSR based repair of mis-drawn rings,
                            the biphenyl fix that sets inter-ring aromatic bonds to single, the quinone checks and the
                            atom loop).  The SSSR is an INPUT of the model (ring perception is C06's business);
        - kekule_driver   : Kekule.kekule after __fix_rings: __prepare_rings, the search (an ARGUMENT of the driver, so
                            that its theorems hold for any search), writing the bond orders of the found form,
                            calc_implicit on the touched atoms (an argument, C04 models it);
        - kekule_component: the backtracking search _kekule_component itself (section 8), statement by statement,
                            tied by correspondence only (no theorem is stated about the heuristic).
   (S) specification-level boolean checkers that are run on EVERY output of the real code:
        - kekule_rel g g' : g' is an acceptable Kekule form of g;
        - thiele_rel g g' : g' is an acceptable aromatic form of g.
   InvalidAromaticRing is represented by `Err OtherError` (PyBase.pyexn has no constructor of that name). *)
From Coq Require Import ZArith List Bool Lia.
From Model Require Import PyBase Graph.
Import ListNotations.
Open Scope Z_scope.

Definition IAR {A : Type} : pyres A := Err OtherError.      (* raise InvalidAromaticRing *)

(* ------------------------------------------------------------------------------------------------
   1. the atom classifier of __prepare_rings
   ------------------------------------------------------------------------------------------------ *)
Definition is_NPAs (num : Z) : bool := (num =? 7) || (num =? 15) || (num =? 33).
Definition is_SSeTe (num : Z) : bool := (num =? 16) || (num =? 34) || (num =? 52).

(* `for n in double_bonded:` quinone check (exocyclic double bond on a ring atom) *)
Definition quinone_ok (num chg : Z) : bool :=
  if num =? 7 then chg =? 1
  else ((num =? 6) || (num =? 15) || (num =? 16) || (num =? 33) || (num =? 34) || (num =? 52)) && (chg =? 0).

(* implicit_hydrogens tests shared by N/P/As and B with two neighbours:
     if h is None: pyrroles.add ; elif h == 1: double_bonded.add ; elif h: raise *)
Definition by_hydrogens (h : option Z) (indb : bool) : pyres (bool * bool) :=
  match h with
  | None => Ok (true, indb)
  | Some hh => if hh =? 1 then Ok (false, true) else if negb (hh =? 0) then IAR else Ok (false, indb)
  end.

(* result: (n in pyrroles, n in double_bonded) after the loop body for atom n.
   num = atomic number, chg = charge, rad = is_radical, nb = atom.neighbors, h = atom.implicit_hydrogens,
   indb = n already in double_bonded (exocyclic double bond that passed the quinone check) *)
Definition classify_atom (num chg : Z) (rad : bool) (nb : Z) (h : option Z) (indb : bool) : pyres (bool * bool) :=
  if num =? 6 then
    if chg =? 0 then
      if (nb =? 2) || (nb =? 3) then Ok (false, indb) else IAR
    else if (chg =? -1) || (chg =? 1) then
      if rad then (if nb =? 2 then Ok (false, true) else IAR)
      else if nb =? 3 then Ok (false, true)
      else if nb =? 2 then Ok (true, indb)
      else IAR
    else IAR
  else if is_NPAs num then
    if chg =? 0 then
      if rad then (if negb (nb =? 2) then IAR else Ok (false, true))
      else if nb =? 3 then (if num =? 7 then Ok (false, true) else Ok (true, indb))
      else if nb =? 2 then by_hydrogens h indb
      else if negb (nb =? 4) || negb ((num =? 15) || (num =? 33)) then IAR
      else Ok (false, indb)
    else if chg =? -1 then
      if negb (nb =? 2) || rad then IAR else Ok (false, true)
    else if negb (chg =? 1) then IAR
    else if rad then (if negb (nb =? 2) then IAR else Ok (false, indb))
    else if nb =? 2 then Ok (true, indb)
    else if negb (nb =? 3) then IAR
    else Ok (false, indb)
  else if num =? 8 then
    if nb =? 2 then
      if chg =? 0 then (if rad then IAR else Ok (false, true))
      else if chg =? 1 then Ok (false, rad || indb)
      else IAR
    else IAR
  else if is_SSeTe num then
    if indb then Ok (false, true)
    else if nb =? 2 then
      if rad && negb (chg =? 1) then IAR
      else if chg =? 0 then Ok (false, true)
      else if negb (chg =? 1) then IAR
      else Ok (false, rad)
    else if nb =? 3 then
      if rad then (if negb (chg =? 0) then IAR else Ok (false, true))
      else if chg =? 1 then Ok (false, true)
      else if negb (chg =? 0) then IAR
      else Ok (false, false)
    else IAR
  else if num =? 5 then
    if chg =? 0 then
      if nb =? 2 then (if rad then Ok (false, true) else by_hydrogens h indb)
      else if negb rad then Ok (false, true)
      else IAR
    else if chg =? 1 then
      if (nb =? 2) && negb rad then Ok (false, true) else IAR
    else if chg =? -1 then
      if nb =? 2 then (if negb rad then Ok (true, indb) else Ok (false, indb))
      else if rad then Ok (false, true)
      else Ok (true, indb)
    else IAR
  else IAR.

(* the class as the search uses it: how many double bonds the atom takes inside the aromatic skeleton *)
Inductive dclass := NeedDouble | NoDouble | Either.
Definition dclass_of (c : bool * bool) : dclass :=
  let '(pyr, db) := c in if db then NoDouble else if pyr then Either else NeedDouble.
Definition dbl_ok (c : bool * bool) (nd : Z) : bool :=
  match dclass_of c with
  | NeedDouble => nd =? 1
  | NoDouble => nd =? 0
  | Either => (nd =? 0) || (nd =? 1)
  end.

(* ------------------------------------------------------------------------------------------------
   2. small list helpers
   ------------------------------------------------------------------------------------------------ *)
Fixpoint forallb2 {A B : Type} (f : A -> B -> bool) (l : list A) (l' : list B) : bool :=
  match l, l' with
  | [], [] => true
  | x :: r, y :: s => f x y && forallb2 f r s
  | _, _ => false
  end.

Fixpoint countb {A : Type} (f : A -> bool) (l : list A) : Z :=
  match l with
  | [] => 0
  | x :: r => (if f x then 1 else 0) + countb f r
  end.

Definition nbl := list (Z * bond).
Definition ord_is (o : Z) (mb : Z * bond) : bool := b_ord (snd mb) =? o.
Definition arom_deg (l : nbl) : Z := countb (ord_is 4) l.
Definition neighbors (l : nbl) : Z := countb (fun mb => negb (ord_is 8 mb)) l.        (* calc_labels: bonds != 8 *)
Definition has_ord (o : Z) (l : nbl) : bool := existsb (ord_is o) l.
(* sum of the orders as calc_implicit takes it (order 8 does not count) *)
Fixpoint bsum (l : nbl) : Z :=
  match l with
  | [] => 0
  | mb :: r => (if ord_is 8 mb then 0 else b_ord (snd mb)) + bsum r
  end.
(* the same without the aromatic bonds *)
Fixpoint bsum_non4 (l : nbl) : Z :=
  match l with
  | [] => 0
  | mb :: r => (if ord_is 8 mb || ord_is 4 mb then 0 else b_ord (snd mb)) + bsum_non4 r
  end.

(* bonds that were o in l and are o' in l' (lists walked in parallel) *)
Fixpoint moved (o o' : Z) (l l' : nbl) : Z :=
  match l, l' with
  | x :: r, y :: s => (if ord_is o x && ord_is o' y then 1 else 0) + moved o o' r s
  | _, _ => 0
  end.
Definition new_doubles (l l' : nbl) : Z := moved 4 2 l l'.          (* aromatic -> double *)
Definition old_doubles (l l' : nbl) : Z := moved 2 4 l l'.          (* double -> aromatic *)

(* ------------------------------------------------------------------------------------------------
   3. specification: kekule_rel
   ------------------------------------------------------------------------------------------------ *)
Definition atom_core_eqb (a b : atom) : bool :=
  (a_num a =? a_num b) && option_eqb Z.eqb (a_iso a) (a_iso b) && (a_chg a =? a_chg b) && Bool.eqb (a_rad a) (a_rad b).
Definition h_kept (a b : atom) : bool :=
  match a_h a with Some h => option_eqb Z.eqb (a_h b) (Some h) | None => true end.
Definition h_known (a : atom) : bool := match a_h a with Some _ => true | None => false end.

(* same atoms in the same order with the same element / isotope / charge / radical / stereo label *)
Definition kr_atoms (g g' : mol) : bool :=
  forallb2 (fun x y => (fst x =? fst y) && atom_core_eqb (snd x) (snd y) &&
                       option_eqb Bool.eqb (a_stereo (snd x)) (a_stereo (snd y))) (m_atoms g) (m_atoms g').
(* a hydrogen count that was known is unchanged *)
Definition kr_h (g g' : mol) : bool := forallb2 (fun x y => h_kept (snd x) (snd y)) (m_atoms g) (m_atoms g').

(* an aromatic bond becomes single or double, every other bond keeps its order *)
Definition bond_step (b b' : bond) : bool :=
  option_eqb Bool.eqb (b_stereo b) (b_stereo b') &&
  (if b_ord b =? 4 then (b_ord b' =? 1) || (b_ord b' =? 2) else b_ord b' =? b_ord b).
Definition nbl_step (l l' : nbl) : bool := forallb2 (fun p q => (fst p =? fst q) && bond_step (snd p) (snd q)) l l'.
(* same skeleton: same neighbours in the same order; orders change only as bond_step allows *)
Definition kr_bonds (g g' : mol) : bool :=
  forallb2 (fun x y => (fst x =? fst y) && nbl_step (snd x) (snd y)) (m_adj g) (m_adj g').

(* class of atom n of g from its own attributes and bonds: the SSSR-free reading of __prepare_rings for well drawn
   input (every bond between two atoms of one aromatic ring is written aromatic) *)
Definition atom_class (g : mol) (n : Z) (l : nbl) : pyres (bool * bool) :=
  match atom_of g n with
  | None => Err KeyError
  | Some a =>
      if has_ord 3 l then IAR                                          (* triple bonds connected to rings *)
      else if has_ord 2 l && negb (quinone_ok (a_num a) (a_chg a)) then IAR
      else classify_atom (a_num a) (a_chg a) (a_rad a) (neighbors l) (a_h a) (has_ord 2 l)
  end.

(* every atom that had aromatic bonds gets the number of new double bonds its class allows *)
Definition kr_classes (g g' : mol) : bool :=
  forallb2 (fun x y => if arom_deg (snd x) =? 0 then true
                       else match atom_class g (fst x) (snd x) with
                            | Ok c => dbl_ok c (new_doubles (snd x) (snd y))
                            | Err _ => false
                            end) (m_adj g) (m_adj g').
(* no valence error on the former ring atoms: their hydrogen count is known in the result *)
Definition kr_valence (g g' : mol) : bool :=
  forallb (fun x => if arom_deg (snd x) =? 0 then true
                    else match atom_of g' (fst x) with Some a' => h_known a' | None => false end) (m_adj g).

(* core: same molecule, only aromatic bonds re-written, every ring atom has the number of double bonds of its class *)
Definition kekule_rel_core (g g' : mol) : bool := kr_atoms g g' && kr_bonds g g' && kr_classes g g'.
Definition kekule_rel_noh (g g' : mol) : bool := kekule_rel_core g g' && kr_valence g g'.
Definition kekule_rel (g g' : mol) : bool := kekule_rel_noh g g' && kr_h g g'.
(* the relation with the clauses switched off that a recorded finding is about (the check reports those itself) *)
Definition kekule_rel_x (skip_h skip_valence : bool) (g g' : mol) : bool :=
  kekule_rel_core g g' && (skip_valence || kr_valence g g') && (skip_h || kr_h g g').

Definition no_arom (g : mol) : bool := forallb (fun x => arom_deg (snd x) =? 0) (m_adj g).

(* ------------------------------------------------------------------------------------------------
   4. specification: thiele_rel
   ------------------------------------------------------------------------------------------------ *)
Definition stereo_kept_or_dropped (s s' : option bool) : bool :=
  match s' with None => true | Some v => option_eqb Bool.eqb s (Some v) end.
Definition tr_atoms (g g' : mol) : bool :=
  forallb2 (fun x y => (fst x =? fst y) && atom_core_eqb (snd x) (snd y) &&
                       stereo_kept_or_dropped (a_stereo (snd x)) (a_stereo (snd y))) (m_atoms g) (m_atoms g').
(* thiele never recalculates hydrogens: the counts are literally the same (None included) *)
Definition tr_h (g g' : mol) : bool :=
  forallb2 (fun x y => option_eqb Z.eqb (a_h (snd x)) (a_h (snd y))) (m_atoms g) (m_atoms g').
(* a single or double bond may become aromatic, nothing else changes *)
Definition th_bond_step (b b' : bond) : bool :=
  stereo_kept_or_dropped (b_stereo b) (b_stereo b') &&
  ((b_ord b' =? b_ord b) || ((b_ord b' =? 4) && ((b_ord b =? 1) || (b_ord b =? 2)))).
Definition th_nbl_step (l l' : nbl) : bool := forallb2 (fun p q => (fst p =? fst q) && th_bond_step (snd p) (snd q)) l l'.
Definition tr_bonds (g g' : mol) : bool :=
  forallb2 (fun x y => (fst x =? fst y) && th_nbl_step (snd x) (snd y)) (m_adj g) (m_adj g').
(* an atom gives at most one double bond to the aromatic system *)
Definition tr_doubles (g g' : mol) : bool :=
  forallb2 (fun x y => old_doubles (snd x) (snd y) <=? 1) (m_adj g) (m_adj g').

(* quinone exclusion: an atom that gains aromatic bonds keeps no double bond to a TERMINAL atom (C=O, C=S, C=NH, C=CH2: such
   a neighbour is in no ring, the atom is `double_bonded` for thiele and leaves the skeleton).  A double bond to an atom of
   another candidate ring that is pruned later may stay (O=C1N2C=CC=CC2=Nc3ccccc13: the N2..C=N ring is aromatised). *)
Definition gained_arom (l l' : nbl) : Z := moved 1 4 l l' + moved 2 4 l l'.
Definition exo_terminal (g' : mol) (l' : nbl) : bool :=
  existsb (fun mb => ord_is 2 mb && (Z.of_nat (List.length (nbrs g' (fst mb))) =? 1)) l'.
Definition tr_quinone (g g' : mol) : bool :=
  forallb2 (fun x y => (gained_arom (snd x) (snd y) =? 0) || negb (exo_terminal g' (snd y))) (m_adj g) (m_adj g').

Definition thiele_rel_core (g g' : mol) : bool := tr_atoms g g' && tr_bonds g g' && tr_doubles g g'.
Definition thiele_rel_noh (g g' : mol) : bool := thiele_rel_core g g' && tr_quinone g g'.
Definition thiele_rel (g g' : mol) : bool := thiele_rel_noh g g' && tr_h g g'.

(* the two aromatic forms have the aromatic bonds in the same places *)
Definition same_arom_places (g g' : mol) : bool :=
  forallb2 (fun x y => forallb2 (fun p q => Bool.eqb (ord_is 4 p) (ord_is 4 q)) (snd x) (snd y)) (m_adj g) (m_adj g').
(* equality of everything but unknown hydrogen counts of the first molecule and stereo labels *)
Definition same_orders (g g' : mol) : bool :=
  forallb2 (fun x y => (fst x =? fst y) &&
                       forallb2 (fun p q => (fst p =? fst q) && (b_ord (snd p) =? b_ord (snd q))) (snd x) (snd y))
           (m_adj g) (m_adj g').

(* ------------------------------------------------------------------------------------------------
   5. totals the relation has to preserve
   ------------------------------------------------------------------------------------------------ *)
Definition total_charge (g : mol) : Z := fold_right (fun x s => a_chg (snd x) + s) 0 (m_atoms g).
Definition radical_count (g : mol) : Z := countb (fun x => a_rad (snd x)) (m_atoms g).
Definition element_count (z : Z) (g : mol) : Z := countb (fun x => a_num (snd x) =? z) (m_atoms g).
Definition total_h (g : mol) : Z :=
  fold_right (fun x s => match a_h (snd x) with Some h => h | None => 0 end + s) 0 (m_atoms g).
Definition all_h_known (g : mol) : bool := forallb (fun x => h_known (snd x)) (m_atoms g).
Definition core_of (g : mol) : list (Z * (Z * option Z * Z * bool)) :=
  map (fun x => (fst x, (a_num (snd x), a_iso (snd x), a_chg (snd x), a_rad (snd x)))) (m_atoms g).

(* ------------------------------------------------------------------------------------------------
   6. Kekule.__prepare_rings, the whole function.  dict n -> list = association list in insertion order
   ------------------------------------------------------------------------------------------------ *)
Definition adjl := list (Z * list Z).
Definition al_get (d : adjl) (n : Z) : list Z := match zget d n with Some l => l | None => [] end.
Definition al_has (d : adjl) (n : Z) : bool := match zget d n with Some _ => true | None => false end.
Fixpoint al_upd (d : adjl) (n : Z) (f : list Z -> list Z) : adjl :=      (* d[n] = f(d[n]) for an existing key *)
  match d with
  | [] => []
  | (k, l) :: r => if k =? n then (k, f l) :: r else (k, l) :: al_upd r n f
  end.
Fixpoint remove_first (x : Z) (l : list Z) : list Z :=                    (* list.remove (absent: unchanged) *)
  match l with
  | [] => []
  | y :: r => if x =? y then r else y :: remove_first x r
  end.
Definition al_append (d : adjl) (n m : Z) : adjl := al_upd d n (fun l => l ++ [m]).
Definition al_remove (d : adjl) (n m : Z) : adjl := al_upd d n (remove_first m).

(* the first loop: rings / double_bonded as defaultdict(list): a key exists once something was appended *)
Definition scan_ord (g : mol) (o : Z) : adjl :=
  filter (fun nl => match snd nl with [] => false | _ => true end)
         (map (fun nl => (fst nl, keys (filter (ord_is o) (snd nl)))) (m_adj g)).
Definition triple_bonded (g : mol) : list Z := keys (filter (fun nl => has_ord 3 (snd nl)) (m_adj g)).

Record prs := mkPrs { p_rings : adjl; p_copy : adjl; p_dbl : adjl }.

(* body shared by `n, *_, m = r` and `for n, m in zip(r, r[1:])` *)
Definition pair_step (s : prs) (n m : Z) : prs :=
  if negb (zmem n (al_get (p_rings s) m)) then
    let dbl := p_dbl s in
    let dbl' := if al_has dbl n && al_has dbl m && zmem m (al_get dbl n)
                then al_remove (al_remove dbl n m) m n else dbl in
    mkPrs (al_append (al_append (p_rings s) m n) n m) (p_copy s) dbl'
  else if zmem m (al_get (p_copy s) n) then
    mkPrs (p_rings s) (al_remove (al_remove (p_copy s) n m) m n) (p_dbl s)
  else s.

Definition zip_next (r : list Z) : list (Z * Z) := combine r (tl r).
Definition ring_step (s : prs) (r : list Z) : prs :=
  if forallb (fun x => al_has (p_rings s) x) r then
    match r with
    | [] => s
    | n :: _ => fold_left (fun s nm => pair_step s (fst nm) (snd nm)) (zip_next r) (pair_step s n (last r n))
    end
  else s.

(* "fix invalid smiles: c1ccccc1c2ccccc2": walk copy_rings; returns rings and the bonds set to single *)
Definition unring_step (st : list Z * adjl * list (Z * Z)) (nl : Z * list Z) : list Z * adjl * list (Z * Z) :=
  let '(seen, rings, singled) := st in
  match snd nl with
  | [] => st
  | ms => let n := fst nl in
          let seen' := n :: seen in
          fold_left (fun st' m => let '(sn, rg, sg) := st' in
                                  if zmem m sn then st'
                                  else (sn, al_remove (al_remove rg n m) m n, sg ++ [(n, m)])) ms (seen', rings, singled)
  end.

Record prep := mkPrep { r_rings : adjl; r_pyrroles : list Z; r_double : list Z; r_singled : list (Z * Z) }.

(* the atom loop: pyrroles and double_bonded grow; any failing atom raises *)
Fixpoint atom_loop (g : mol) (ks : list Z) (qdb : list Z) (pyr db : list Z) : pyres (list Z * list Z) :=
  match ks with
  | [] => Ok (pyr, db)
  | n :: r =>
      match atom_of g n with
      | None => Err KeyError
      | Some a =>
          let indb := zmem n qdb in
          match classify_atom (a_num a) (a_chg a) (a_rad a) (neighbors (nbrs g n)) (a_h a) indb with
          | Err e => Err e
          | Ok (p, d) => atom_loop g r qdb (if p then pyr ++ [n] else pyr) (if d && negb indb then db ++ [n] else db)
          end
      end
  end.

Definition prepare_rings (g : mol) (sssr : list (list Z)) : pyres prep :=
  let rings0 := scan_ord g 4 in
  match rings0 with
  | [] => Ok (mkPrep [] [] [] [])
  | _ =>
    if existsb (fun n => al_has rings0 n) (triple_bonded g) then IAR else
    let s := fold_left ring_step sssr (mkPrs rings0 rings0 (scan_ord g 2)) in
    let '(_, rings, singled) := fold_left unring_step (p_copy s) ([], p_rings s, []) in
    if existsb (fun nl => let k := Z.of_nat (List.length (snd nl)) in negb ((k =? 2) || (k =? 3))) rings then IAR else
    let qdb := keys (filter (fun nl => match snd nl with [] => false | _ => al_has rings (fst nl) end) (p_dbl s)) in
    if existsb (fun n => negb (Z.of_nat (List.length (al_get rings n)) =? 2)) qdb then IAR else
    if existsb (fun n => match atom_of g n with
                         | Some a => negb (quinone_ok (a_num a) (a_chg a))
                         | None => true end) qdb then IAR else
    match atom_loop g (keys rings) qdb [] qdb with
    | Err e => Err e
    | Ok (pyr, db) => Ok (mkPrep rings pyr db singled)
    end
  end.

(* comparison with the Python result: rings as dict of lists in order, the two sets up to order *)
Definition adjl_eqb (a b : adjl) : bool := list_eqb (pair_eqb Z.eqb (list_eqb Z.eqb)) a b.
Definition prep_eqb (x : pyres prep) (rings : adjl) (pyr db : list Z) : bool :=
  match x with
  | Ok p => adjl_eqb (r_rings p) rings && same_keys_z (r_pyrroles p) pyr && same_keys_z (r_double p) db
  | Err _ => false
  end.
Definition prep_raises (x : pyres prep) : bool :=
  match x with Err OtherError => true | _ => false end.

(* ------------------------------------------------------------------------------------------------
   7. the driver: Kekule.kekule after __fix_rings
   ------------------------------------------------------------------------------------------------ *)
Definition set_ord_nbl (l : nbl) (m o : Z) : nbl :=
  map (fun mb => if fst mb =? m then (fst mb, mkBond o (b_stereo (snd mb))) else mb) l.
(* bonds[n][m]._order = o : the Bond object is shared by bonds[n][m] and bonds[m][n] *)
Definition set_order (g : mol) (n m o : Z) : mol :=
  mkMol (m_atoms g)
        (map (fun nl => if fst nl =? n then (fst nl, set_ord_nbl (snd nl) m o)
                        else if fst nl =? m then (fst nl, set_ord_nbl (snd nl) n o) else nl) (m_adj g)).
Definition apply_form (g : mol) (form : list (Z * Z * Z)) : mol :=
  fold_left (fun g x => let '(n, m, o) := x in set_order g n m o) form g.
Definition set_h (g : mol) (n : Z) (h : option Z) : mol :=
  mkMol (map (fun na => if fst na =? n
                        then (fst na, mkAtom (a_num (snd na)) (a_iso (snd na)) (a_chg (snd na)) (a_rad (snd na)) h (a_stereo (snd na)))
                        else na) (m_atoms g)) (m_adj g).
Definition form_atoms (form : list (Z * Z * Z)) : list Z := flat_map (fun x => let '(n, m, _) := x in [n; m]) form.

(* search : the form found for (rings, pyrroles, double_bonded), None when the generator is empty;
   calc   : calc_implicit of atom n in the molecule with the new orders *)
Definition kekule_driver (g : mol) (sssr : list (list Z))
           (search : adjl -> list Z -> list Z -> pyres (option (list (Z * Z * Z))))
           (calc : mol -> Z -> option Z) : pyres (mol * bool) :=
  match prepare_rings g sssr with
  | Err e => Err e
  | Ok p =>
      let g1 := apply_form g (map (fun nm => (fst nm, snd nm, 1)) (r_singled p)) in
      match r_rings p with
      | [] => Ok (g1, false)                      (* lazy_product() yields (): kekule = [] is falsy *)
      | _ => match search (r_rings p) (r_pyrroles p) (r_double p) with
             | Err e => Err e
             | Ok None => Ok (g1, false)
             | Ok (Some []) => Ok (g1, false)
             | Ok (Some form) =>
                 let g2 := apply_form g1 form in
                 Ok (fold_left (fun gg n => set_h gg n (calc gg n)) (form_atoms form) g2, true)
             end
      end
  end.

(* mis-drawn rings (c1ccc-cc1, c1ccc=cc1): the bonds __prepare_rings adds to the skeleton although they are not written
   aromatic.  `repair` writes them aromatic, so that the strict relation applies to the repaired input. *)
Definition skeleton_non4 (g : mol) (rings : adjl) : list (Z * Z * Z) :=
  flat_map (fun nl => flat_map (fun m => match bond_of g (fst nl) m with
                                         | Some b => if b_ord b =? 4 then [] else [(fst nl, m, 4)]
                                         | None => [] end) (snd nl)) rings.
Definition repair (g : mol) (sssr : list (list Z)) : mol :=
  match prepare_rings g sssr with
  | Ok p => apply_form g (skeleton_non4 g (r_rings p))
  | Err _ => g
  end.

(* ------------------------------------------------------------------------------------------------
   8. _kekule_component: the backtracking search over one aromatic component, as the Python generator runs it.
      rings = the component (dict atom -> list of skeleton neighbours, insertion order), double_bonded / pyrroles = the
      two sets restricted to the component; db_start = next(iter(double_bonded)) (set iteration order is an INPUT).
      The stack is kept with its top (Python stack[-1]) at the head; the inner lists are in Python order.
   ------------------------------------------------------------------------------------------------ *)
Definition kitem := (Z * Z * Z * option Z)%type.        (* (atom, previous atom, bond order, path depth for cutting) *)
Definition kentry := (Z * Z * Z)%type.                  (* (atom, previous atom, bond order) *)

Definition kitem_eqb (a b : kitem) : bool :=
  let '(a1, a2, a3, a4) := a in let '(b1, b2, b3, b4) := b in
  (a1 =? b1) && (a2 =? b2) && (a3 =? b3) && option_eqb Z.eqb a4 b4.

Fixpoint remove_kitem (x : kitem) (l : list kitem) : option (list kitem) :=       (* list.remove; None = ValueError *)
  match l with
  | [] => None
  | y :: r => if kitem_eqb x y then Some r else option_map (cons y) (remove_kitem x r)
  end.

Definition pop_last {A : Type} (l : list A) : option (A * list A) :=                (* list.pop(); None = IndexError *)
  match rev l with [] => None | x :: r => Some (x, rev r) end.

Definition nonempty {A : Type} (l : list A) : bool := match l with [] => false | _ => true end.
Definition in_path (x : Z) (path : list kentry) : bool := existsb (fun e => fst (fst e) =? x) path.   (* hashed_path *)
(* g[n] of the pyridine test: sum of the orders of the path bonds at n *)
Definition gsum (n : Z) (path : list kentry) : Z :=
  fold_right (fun e s => let '(a, p, o) := e in (if a =? n then o else 0) + (if p =? n then o else 0) + s) 0 path.

(* path = path[:stack[-1][-1][-1]] after `del stack[-1]`, only `if stack` *)
Definition cut_path (stack : list (list kitem)) (path : list kentry) : pyres (list kentry) :=
  match stack with
  | [] => Ok path
  | top :: _ => match pop_last top with
                | None => Err IndexError
                | Some ((_, _, _, None), _) => Ok path
                | Some ((_, _, _, Some k), _) => Ok (firstn (Z.to_nat k) path)
                end
  end.

Record kstate := mkK { k_stack : list (list kitem); k_path : list kentry; k_buffer : list (list kentry); k_bsize : Z; k_never : bool }.

Section Component.
Variables (rings : adjl) (db pyr : list Z) (start size : Z).
Definition indb (x : Z) : bool := zmem x db.
Definition inpyr (x : Z) : bool := zmem x pyr.

Definition backtrack (rest : list (list kitem)) (path : list kentry) : pyres (list (list kitem) * list kentry) :=
  match cut_path rest path with Err e => Err e | Ok p => Ok (rest, p) end.

Fixpoint do_closures (atom : Z) (cl : list Z) (top : list kitem) (path : list kentry) : pyres (list kitem * list kentry) :=
  match cl with
  | [] => Ok (top, path)
  | c :: r => match remove_kitem (atom, c, 1, None) top with
              | None => Err ValueError
              | Some top' => do_closures atom r top' (path ++ [(c, atom, 1)])
              end
  end.

(* for next_atom in closures: if (atom, next_atom, 1, None) in stack[-1]: path.append(...); stack[-1].remove(...) *)
Fixpoint soft_closures (atom : Z) (cl : list Z) (top : list kitem) (path : list kentry) : list kitem * list kentry :=
  match cl with
  | [] => (top, path)
  | c :: r => match remove_kitem (atom, c, 1, None) top with
              | None => soft_closures atom r top path
              | Some top' => soft_closures atom r top' (path ++ [(c, atom, 1)])
              end
  end.

(* the part of the loop body after the `if loop:` block *)
Definition grow (top : list kitem) (rest : list (list kitem)) (path : list kentry) (atom bond : Z) (closures for_stack : list Z)
  : pyres (list (list kitem) * list kentry) :=
  let plen := Z.of_nat (List.length path) in
  let it := fun (n o : Z) (c : option Z) => ((n, atom, o, c) : kitem) in
  if (bond =? 2) || indb atom then
    match do_closures atom closures top path with
    | Err e => Err e
    | Ok (top1, path1) => Ok ((top1 ++ map (fun n => it n 1 None) for_stack) :: rest, path1)
    end
  else match for_stack with
  | [n1] =>
      if indb n1 then (if inpyr atom then Ok ((top ++ [it n1 1 None]) :: rest, path) else backtrack rest path)
      else if inpyr atom then Ok ((top ++ [it n1 2 None]) :: (top ++ [it n1 1 (Some plen)]) :: rest, path)
      else let top1 := top ++ [it n1 2 None] in
           match closures with
           | [] => Ok (top1 :: rest, path)
           | c :: _ => match remove_kitem (atom, c, 1, None) top1 with
                       | None => Err ValueError
                       | Some top2 => Ok (top2 :: rest, path ++ [(c, atom, 1)])
                       end
           end
  | [n1; n2] =>
      if indb n1 then
        if indb n2 then (if inpyr atom then Ok ((top ++ [it n1 1 None; it n2 1 None]) :: rest, path) else backtrack rest path)
        else if inpyr atom then Ok ((top ++ [it n1 1 None; it n2 2 None]) :: (top ++ [it n1 1 None; it n2 1 (Some plen)]) :: rest, path)
        else Ok ((top ++ [it n1 1 None; it n2 2 None]) :: rest, path)
      else if indb n2 then
        if inpyr atom then Ok ((top ++ [it n2 1 None; it n1 2 None]) :: (top ++ [it n1 1 None; it n2 1 (Some plen)]) :: rest, path)
        else Ok ((top ++ [it n2 1 None; it n1 2 None]) :: rest, path)
      else if inpyr atom then
        Ok ((top ++ [it n1 1 None; it n2 2 None]) :: (top ++ [it n2 1 None; it n1 2 (Some plen)])
            :: (top ++ [it n1 1 None; it n2 1 (Some plen)]) :: rest, path)
      else Ok ((top ++ [it n2 1 None; it n1 2 None]) :: (top ++ [it n1 1 None; it n2 2 (Some plen)]) :: rest, path)
  | [] => match closures with
          | [] => Ok (top :: rest, path)
          | _ => if inpyr atom then                       (* closures of a pyrrole-like atom: consume the pending fork items *)
                   let '(top1, path1) := soft_closures atom closures top path in Ok (top1 :: rest, path1)
                 else backtrack rest path
          end
  | _ => Err ValueError                                   (* next_atom1, next_atom2 = for_stack *)
  end.

(* for next_atom in rings[atom]: ... -> (loop, closures, for_stack) *)
Definition scan_nbrs (atom prev : Z) (path : list kentry) : Z * list Z * list Z :=
  fold_left (fun acc nx => let '(lp, cl, fs) := acc in
                           if nx =? prev then acc
                           else if nx =? start then (nx, cl, fs)
                           else if in_path nx path then (lp, cl ++ [nx], fs)
                           else (lp, cl, fs ++ [nx])) (al_get rings atom) (0, [], []).

(* one iteration of `while stack:`; returns the new state and what the iteration yields *)
Definition kstep (s : kstate) : pyres (kstate * list (list kentry)) :=
  match k_stack s with
  | [] => Ok (s, [])
  | top0 :: rest =>
    match pop_last top0 with
    | None => Err IndexError
    | Some ((atom, prev, bond, _), top) =>
      let path := k_path s ++ [(atom, prev, bond)] in
      if Z.of_nat (List.length path) =? size then
        let '(ys, buffer, bsize) :=
          if nonempty pyr && negb (k_bsize s =? 0) then
            if 2 <=? countb (fun n => gsum n path =? 2) pyr then
              if Z.of_nat (List.length (k_buffer s)) =? k_bsize s then (k_buffer s ++ [path], [], 0)
              else ([], k_buffer s ++ [path], k_bsize s)
            else (path :: k_buffer s, [], 0)
          else ([path], k_buffer s, k_bsize s) in
        match cut_path rest path with
        | Err e => Err e
        | Ok p => Ok (mkK rest p buffer bsize false, ys)
        end
      else if negb (atom =? start) then
        let '(lp, closures, for_stack) := scan_nbrs atom prev path in
        let continue_with := fun (top' : list kitem) (bond' : Z) =>
          match grow top' rest path atom bond' closures for_stack with
          | Err e => Err e
          | Ok (st, p) => Ok (mkK st p (k_buffer s) (k_bsize s) (k_never s), [])
          end in
        let abandon :=
          match backtrack rest path with
          | Err e => Err e
          | Ok (st, p) => Ok (mkK st p (k_buffer s) (k_bsize s) (k_never s), [])
          end in
        if negb (lp =? 0) then
          if bond =? 2 then (if nonempty db then continue_with ((lp, atom, 1, None) :: top) bond else abandon)
          else if nonempty db then
            (if nonempty for_stack || indb atom || inpyr atom then continue_with ((lp, atom, 1, None) :: top) bond else abandon)
          else continue_with ((lp, atom, 2, None) :: top) 2
        else continue_with top bond
      else Ok (mkK (top :: rest) path (k_buffer s) (k_bsize s) (k_never s), [])
    end
  end.

(* the generator, cut after maxy yields; result: the yields, "raises InvalidAromaticRing at the end", "ran to the end" *)
Fixpoint kloop (fuel : nat) (maxy : nat) (s : kstate) (acc : list (list kentry)) : pyres (list (list kentry) * bool * bool) :=
  if (maxy <=? List.length acc)%nat then Ok (firstn maxy acc, false, false) else
  match k_stack s with
  | [] => if k_never s then Ok (acc, true, true) else Ok (firstn maxy (acc ++ k_buffer s), false, true)
  | _ => match fuel with
         | O => Err OtherError
         | S f => match kstep s with
                  | Err e => Err e
                  | Ok (s', ys) => kloop f maxy s' (acc ++ ys)
                  end
         end
  end.
End Component.

Definition find_start (rings : adjl) (pyr : list Z) (strict : bool) : option Z :=
  match filter (fun nl => (Z.of_nat (List.length (snd nl)) =? 2) && (negb strict || negb (zmem (fst nl) pyr))) rings with
  | [] => None
  | nl :: _ => Some (fst nl)
  end.

Definition kekule_component (rings : adjl) (db : list Z) (db_start : Z) (pyr : list Z) (buffer_size : Z) (maxy fuel : nat)
  : pyres (list (list kentry) * bool * bool) :=
  let size := Z.of_nat (fold_right (fun nl s => (List.length (snd nl) + s)%nat) O rings) / 2 in
  let run := fun (db' : list Z) (start bond : Z) (all_nbrs : bool) =>
    match al_get rings start with
    | [] => Err StopIteration
    | n0 :: more =>
        let stack := if all_nbrs then rev (map (fun nx => [((nx, start, bond, Some 0) : kitem)]) (n0 :: more))
                     else [[((n0, start, bond, Some 0) : kitem)]] in
        kloop rings db' pyr start size fuel maxy (mkK stack [] [] buffer_size true) []
    end in
  match db with
  | _ :: _ => run db db_start 1 false
  | [] =>
      match find_start rings pyr true with
      | Some st => run db st 1 true
      | None => match find_start rings pyr false with
                | Some st => run db st 1 true
                | None => match rings with
                          | [] => Err StopIteration
                          | nl :: _ => run [fst nl] (fst nl) 2 true            (* fullerene?: double_bonded.add(start) *)
                          end
                end
      end
  end.

(* ------------------------------------------------------------------------------------------------
   9. what a SOUND form of the search is (specification; the check evaluates it on every form the real generator yields):
      a perfect matching of exactly the skeleton atoms that need a double bond
   ------------------------------------------------------------------------------------------------ *)
Definition bond_key (a b : Z) : Z * Z := if a <=? b then (a, b) else (b, a).
Definition zpair_eqb (x y : Z * Z) : bool := (fst x =? fst y) && (snd x =? snd y).
(* every undirected skeleton bond once (for a symmetric adjacency) *)
Definition skeleton_bonds (rings : adjl) : list (Z * Z) :=
  flat_map (fun nl => map (fun m => (fst nl, m)) (filter (fun m => fst nl <? m) (snd nl))) rings.
Definition form_bonds (y : list kentry) : list (Z * Z) := map (fun e => let '(a, p, _) := e in bond_key a p) y.
Definition doubles_at (n : Z) (y : list kentry) : Z :=
  countb (fun e => let '(a, p, o) := e in (o =? 2) && ((a =? n) || (p =? n))) y.
Definition form_sound (rings : adjl) (db pyr : list Z) (y : list kentry) : bool :=
  forallb (fun k => countb (zpair_eqb k) (form_bonds y) =? 1) (skeleton_bonds rings) &&      (* every skeleton bond exactly once *)
  forallb (fun k => existsb (zpair_eqb k) (skeleton_bonds rings)) (form_bonds y) &&         (* nothing else *)
  forallb (fun e => let '(_, _, o) := e in (o =? 1) || (o =? 2)) y &&
  forallb (fun nl => let d := doubles_at (fst nl) y in
                     if zmem (fst nl) db then d =? 0                                         (* double_bonded: no ring double bond *)
                     else if zmem (fst nl) pyr then d <=? 1                                  (* pyrrole or pyridine *)
                     else d =? 1) rings.                                                    (* plain ring atom: exactly one *)

(* well-formed arguments, as __prepare_rings / __kekule_full produce them: simple symmetric graph, two or three skeleton
   neighbours per atom, connected, the two sets inside the component and disjoint *)
Fixpoint reach (rings : adjl) (fuel : nat) (seen : list Z) : list Z :=
  match fuel with
  | O => seen
  | S f => reach rings f (fold_left (fun acc n => fold_left (fun acc' m => if zmem m acc' then acc' else acc' ++ [m]) (al_get rings n) acc) seen seen)
  end.
Definition rings_wf (rings : adjl) (db pyr : list Z) : bool :=
  nodup_z (keys rings) &&
  forallb (fun nl => nodup_z (snd nl) && negb (zmem (fst nl) (snd nl)) &&
                     ((Z.of_nat (List.length (snd nl)) =? 2) || (Z.of_nat (List.length (snd nl)) =? 3)) &&
                     forallb (fun m => zmem (fst nl) (al_get rings m)) (snd nl)) rings &&
  match rings with
  | [] => false
  | nl :: _ => subset_z (keys rings) (reach rings (List.length rings) [fst nl])
  end &&
  nodup_z db && nodup_z pyr && subset_z db (keys rings) && subset_z pyr (keys rings) && forallb (fun n => negb (zmem n db)) pyr.
