(* Model of FingerprintsCGR (chython/algorithms/fingerprints/__init__.py) on CGRContainer (C17).
   The path enumeration, fragment grouping, hashing, folding and Morgan iteration are the SAME Python methods as for
   molecules (LinearFingerprint / MorganFingerprint of linear.py / morgan.py): they read self._atoms, self._bonds,
   int(bond) and self._atom_identifiers only.  A CGR is therefore modelled by
     - its skeleton: a Model.Graph.mol whose bond "order" is int(DynamicBond) = hash((order or 0, p_order or 0)),
       the number the fingerprint code reads (atom records of the skeleton are not read by any fingerprint function);
     - its identifier dictionary  hash((isotope or 0, atomic_number, charge, p_charge, is_radical, p_is_radical)),
   fed to the *_with functions of Model.Fingerprint. *)
From Coq Require Import ZArith List Bool.
From Model Require Import PyBase Graph PyHash Fingerprint.
Import ListNotations.
Open Scope Z_scope.

Record catom := mkCAtom {
  ca_num : Z;                (* atomic number *)
  ca_iso : option Z;         (* isotope *)
  ca_chg : Z;                (* charge (reactant side) *)
  ca_pchg : Z;               (* p_charge (product side) *)
  ca_rad : bool;             (* is_radical *)
  ca_prad : bool             (* p_is_radical *)
}.
Record cbond := mkCBond {
  cb_ord : option Z;         (* order: None = no bond on the reactant side *)
  cb_pord : option Z         (* p_order *)
}.
Record cgr := mkCgr {
  c_atoms : list (Z * catom);                  (* _atoms, insertion order *)
  c_adj : list (Z * list (Z * cbond))          (* _bonds *)
}.

Definition or0 (o : option Z) : Z := match o with Some v => v | None => 0 end.

(* DynamicBond.__int__ = hash(self) = hash((self.order or 0, self.p_order or 0)) *)
(* (tuple_hash_lanes_fast is Model.PyHash.tuple_hash_lanes evaluated with bit masks: FingerprintProofs.tuple_hash_lanes_fast_eq;
   FingerprintCGRProofs.cbond_int_pyhash / cgr_atom_identifier_pyhash state the two definitions below with PyHash's function) *)
Definition cbond_int (b : cbond) : Z := tuple_hash_lanes_fast [hash_int (or0 (cb_ord b)); hash_int (or0 (cb_pord b))].

(* FingerprintsCGR._atom_identifiers *)
Definition cgr_atom_identifier (a : catom) : Z :=
  tuple_hash_lanes_fast [hash_int (or0 (ca_iso a)); hash_int (ca_num a); hash_int (ca_chg a); hash_int (ca_pchg a);
                    hash_bool (ca_rad a); hash_bool (ca_prad a)].
Definition cgr_atom_identifiers (c : cgr) : list (Z * Z) :=
  map (fun na => (fst na, cgr_atom_identifier (snd na))) (c_atoms c).

(* what the shared fingerprint code sees of the graph: numbers, neighbour order, int(bond) *)
Definition skel_atom : atom := mkAtom 0 None 0 false None None.
Definition cgr_skeleton (c : cgr) : mol :=
  mkMol (map (fun na => (fst na, skel_atom)) (c_atoms c))
        (map (fun nl => (fst nl, map (fun mb => (fst mb, mkBond (cbond_int (snd mb)) None)) (snd nl))) (c_adj c)).

(* well-formedness: that of the skeleton (same keys in _atoms and _bonds, no duplicate numbers, no loops, every bond
   present in both directions with the same int(bond)) *)
Definition wf_cgr (c : cgr) : bool := wf_mol (cgr_skeleton c).

(* the fingerprint functions of a CGR *)
Definition cgr_chains (c : cgr) (lo hi : Z) : list path := chains (cgr_skeleton c) lo hi.
Definition cgr_fragments (c : cgr) (lo hi : Z) : list (list Z * list path) :=
  fragments_with (cgr_atom_identifiers c) (cgr_skeleton c) lo hi.
Definition cgr_linear_hash_list (h : list Z -> Z) (c : cgr) (lo hi nbp : Z) : list Z :=
  linear_hashes h nbp (cgr_fragments c lo hi).
Definition cgr_linear_bit_list (h : list Z -> Z) (c : cgr) (lo hi length nab nbp : Z) : pyres (list Z) :=
  bit_list length nab (cgr_linear_hash_list h c lo hi nbp).
Definition cgr_morgan_hash_dict (h : list Z -> Z) (c : cgr) (lo hi : Z) : pyres (list (list (Z * Z))) :=
  morgan_hash_dict_with h (cgr_atom_identifiers c) (cgr_skeleton c) lo hi.
Definition cgr_morgan_hash_list (h : list Z -> Z) (c : cgr) (lo hi : Z) : pyres (list Z) :=
  match cgr_morgan_hash_dict h c lo hi with
  | Ok ds => Ok (flat_map (map snd) ds)
  | Err e => Err e
  end.
Definition cgr_morgan_bit_list (h : list Z -> Z) (c : cgr) (lo hi length nab : Z) : pyres (list Z) :=
  bit_list_of length nab (cgr_morgan_hash_list h c lo hi).

(* renumbering of the atoms *)
Definition rename_cgr (s : Z -> Z) (c : cgr) : cgr :=
  mkCgr (map (fun na => (s (fst na), snd na)) (c_atoms c))
        (map (fun nl => (s (fst nl), map (fun mb => (s (fst mb), snd mb)) (snd nl))) (c_adj c)).
(* the same items in another insertion order *)
Definition cgr_nbrs (c : cgr) (n : Z) : list (Z * cbond) := match zget (c_adj c) n with Some l => l | None => [] end.
