(* C14 -- glue used ONLY by the correspondence cases of harness/checks/C14.py (no theorem depends on this file):
   the Section variables of Model.Standardize are instantiated by
     matches : the list of mappings the real pattern.get_mapping yielded (recorded by the harness, looked up by
               (stage, rule index)),
     calc_h  : Model.Valence.calc_implicit  (the finished C04 model of MoleculeContainer.calc_implicit),
     vlookup : Model.Valence.valence_rules + `first rule that matches the environment with h >= i`,
   and the outputs are compared with what the real code produced (sets compared after sorting). *)
From Coq Require Import ZArith List String Bool.
From Model Require Import PyBase Graph PeriodicTable.
From Model Require Valence.
From Gen Require Import Elements StdRules.
From Model Require Import Standardize.
Import ListNotations.
Open Scope Z_scope.

Definition calc_h (g : mol) (n : Z) : option Z :=
  match Valence.calc_implicit g n with Ok h => h | Err _ => None end.

(* ---- sorting (Python sets are compared as sorted lists) ---- *)
Fixpoint zinsert (x : Z) (l : list Z) : list Z :=
  match l with [] => [x] | y :: r => if x <=? y then x :: l else y :: zinsert x r end.
Definition zsort (l : list Z) : list Z := fold_right zinsert [] l.

(* ---- recorded matcher ---- *)
Definition mtable := list (Z * Z * list mapping).            (* ((stage, rule index), yielded mappings) *)
Fixpoint tlookup (t : mtable) (stage ridx : Z) : list mapping :=
  match t with
  | [] => []
  | (s, i, mps) :: rest => if (s =? stage) && (i =? ridx) then mps else tlookup rest stage ridx
  end.
Definition tmatches (t : mtable) (stage ridx : Z) (_ : rule) (_ : mol) : list mapping := tlookup t stage ridx.

Definition collection (c : Z) : list rule :=
  if c =? 0 then double_rules else if c =? 1 then single_rules else metal_rules.
Definition nth_rule (c ridx : Z) : option rule := nth_error (collection c) (Z.to_nat ridx).

(* the log of the real code: (sorted(match), r, is `bad charge formed`) *)
Definition rlog := list (list Z * Z * bool).
Definition log_norm (l : list logentry) : rlog :=
  map (fun e => (zsort (fst (fst e)), snd (fst e), match snd e with LogBad => true | LogFixed => false end)) l.
Definition rlog_eqb (a b : rlog) : bool :=
  list_eqb (fun x y => list_eqb Z.eqb (fst (fst x)) (fst (fst y)) && (snd (fst x) =? snd (fst y)) && Bool.eqb (snd x) (snd y)) a b.

Definition result_ok (res : pyres (mol * list logentry * list Z)) (pre : list Z) (g1 : mol) (log : rlog) (fixed : list Z) : bool :=
  match res with
  | Ok (g', l', f') => mol_eqb g' g1 && rlog_eqb (log_norm l') log && list_eqb Z.eqb (zsort (union_set pre f')) fixed
  | Err _ => false
  end.

(* one rule of one pass: the recorded mappings satisfy the matcher specification the theorems assume (match_ok, on the
   molecule as it was when get_mapping was called), and the model step reproduces the molecule as it was when the next
   rule was tried *)
Definition step_ok (c stage ridx : Z) (g0 : mol) (mps : list mapping) (g1 : mol) : bool :=
  match nth_rule c ridx with
  | None => false
  | Some r =>
      forallb (match_ok r g0) mps &&
      match rules_loop (fun _ _ _ _ => mps) calc_h stage ridx [r] true g0 [] [] with
      | Ok (g', _, _) => mol_eqb g' g1
      | Err _ => false
      end
  end.
(* which of the two conjuncts fails (diagnostics only) *)
Definition step_spec (c ridx : Z) (g0 : mol) (mps : list mapping) : bool :=
  match nth_rule c ridx with None => false | Some r => forallb (match_ok r g0) mps end.

(* one private __standardize(rules, fix_tautomers) call: molecule, log and the set of recalculated atoms *)
Definition pass_ok (c stage : Z) (ft : bool) (t : mtable) (g0 g1 : mol) (log : rlog) (fixed : list Z) : bool :=
  result_ok (standardize_pass (tmatches t) calc_h stage (collection c) ft g0) [] g1 log fixed.

(* the four calls of standardize(): g0 = the molecule after fix_resonance, pre = the atoms fix_resonance reported *)
Definition passes_ok (ft : bool) (t : mtable) (pre : list Z) (g0 g1 : mol) (log : rlog) (fixed : list Z) : bool :=
  result_ok (standardize_passes (tmatches t) calc_h double_rules single_rules metal_rules ft g0) pre g1 log fixed.

(* ---- hydrogens ---- *)
Definition explicify_ok (g0 : mol) (res : pyres mol) : bool := pyres_eqb mol_eqb (explicify g0) res.

Definition edict_of (env : list (Z * Z)) : Valence.edict := fold_left (fun d k => Valence.eincr d k) env [].
Fixpoint first_rule_ge (rs : list Valence.rule) (d : Valence.edict) (i : Z) : vres :=
  match rs with
  | [] => VNone
  | r :: rest => if Valence.rule_matches r d && (i <=? Valence.r_h r) then VSome (Valence.r_h r) else first_rule_ge rest d i
  end.
Definition vlookup (a : atom) (env : list (Z * Z)) (i : Z) : vres :=
  match Valence.lookup_rules (Valence.rules_of_atom a) (a_chg a) (a_rad a) (zsum (map fst env)) with
  | Err _ => VErr
  | Ok rs => first_rule_ge rs (edict_of env) i
  end.
(* implicify deletes atoms in set order; the surviving dictionaries keep their order, so the result is compared exactly *)
Definition implicify_ok (g0 : mol) (res : pyres mol) : bool := pyres_eqb mol_eqb (implicify vlookup g0) res.

(* ---- fix_resonance: the accepted paths, in the order they were applied ---- *)
Inductive rstep := RRad (n : Z) (p : path) | RChg (n : Z) (p : path).
Fixpoint apply_rsteps (g : mol) (l : list rstep) : pyres mol :=
  match l with
  | [] => Ok g
  | RRad n p :: rest => match apply_radical_path g n p with Ok g' => apply_rsteps g' rest | Err e => Err e end
  | RChg n p :: rest => match apply_charge_path g n p with Ok g' => apply_rsteps g' rest | Err e => Err e end
  end.
Definition resonance_ok (g0 : mol) (steps : list rstep) (hs : list Z) (g1 : mol) : bool :=
  match apply_rsteps g0 steps with
  | Ok g' => mol_eqb (recalc calc_h g' hs) g1
  | Err _ => false
  end.

(* ---- standardize_charges: one accepted match ---- *)
Definition charged_ok (g0 : mol) (discharge charge_up : Z) (g1 : mol) : bool :=
  list_eqb (pair_eqb Z.eqb Z.eqb) (map (fun na => (fst na, a_chg (snd na))) (m_atoms (charged_patch g0 discharge charge_up)))
                                  (map (fun na => (fst na, a_chg (snd na))) (m_atoms g1)).
