(* Model of MoleculeStereo.fix_stereo (chython/algorithms/stereo.py), C12 extension.
   Part 1 (collection) is a function of the molecule and its registries (Model.StereoRegistry): labels on atoms that are
   stereogenic tetrahedrons / allene centres and on bonds whose first atom belongs to a registered cis/trans path are saved,
   every label is flushed.  Part 2 is the retry loop: in every round the labels of the saved centres that are in
   chiral_tetrahedrons / chiral_allenes / chiral_cis_trans NOW (i.e. given the labels restored in earlier rounds) are restored;
   the loop stops when a round restores nothing or nothing is left.  Chirality detection itself (__chiral_centers,
   _chiral_morgan) is NOT modelled: it is the parameter [chiral]. *)
From Coq Require Import ZArith List Bool.
From Model Require Import PyBase Graph Stereo StereoRegistry.
Import ListNotations.
Open Scope Z_scope.

Inductive centre := CT (n : Z) | CA (n : Z) | CC (a b : Z).    (* tetrahedron, allene centre, cis/trans registry key *)
Definition centre_eqb (x y : centre) : bool :=
  match x, y with
  | CT a, CT b | CA a, CA b => a =? b
  | CC a b, CC c d => (a =? c) && (b =? d)
  | _, _ => false
  end.
Definition label := (centre * bool)%type.
Definition label_eqb (x y : label) : bool := centre_eqb (fst x) (fst y) && Bool.eqb (snd x) (snd y).

(* Graph.bonds(): every bond once, reported from the atom that comes first in _bonds *)
Fixpoint bonds_from (adj : list (Z * list (Z * bond))) (seen : list Z) : list (Z * Z * bond) :=
  match adj with
  | [] => []
  | (n, l) :: r =>
      map (fun mb => (n, fst mb, snd mb)) (filter (fun mb => negb (zmem (fst mb) (n :: seen))) l) ++ bonds_from r (n :: seen)
  end.
Definition bonds_once (g : mol) : list (Z * Z * bond) := bonds_from (m_adj g) [].

(* the three saved lists atoms_stereo, allenes_stereo, cis_trans_stereo (in this order) *)
Definition collect_th (r : registries) (g : mol) : list label :=
  flat_map (fun na => match a_stereo (snd na) with
                      | Some s => if zmem (fst na) (keys (r_sg_th r)) then [(CT (fst na), s)] else []
                      | None => [] end) (m_atoms g).
Definition collect_al (r : registries) (g : mol) : list label :=
  flat_map (fun na => match a_stereo (snd na) with
                      | Some s => if zmem (fst na) (keys (r_sg_th r)) then []
                                  else if zmem (fst na) (keys (r_sg_al r)) then [(CA (fst na), s)] else []
                      | None => [] end) (m_atoms g).
Definition collect_ct (r : registries) (g : mol) : list label :=
  flat_map (fun nmb => match b_stereo (snd nmb) with
                       | Some s => match zget (r_ct_terminals r) (fst (fst nmb)) with
                                   | Some ab => [(CC (fst ab) (snd ab), s)]
                                   | None => [] end
                       | None => [] end) (bonds_once g).
Definition collect (r : registries) (g : mol) : list label := collect_th r g ++ collect_al r g ++ collect_ct r g.

Section Loop.
  (* chiral restored c: with exactly the labels [restored] present, c is in chiral_tetrahedrons / allenes / cis_trans *)
  Variable chiral : list label -> centre -> bool.

  Fixpoint fix_loop (fuel : nat) (restored pending : list label) : list label :=
    match fuel with
    | O => restored
    | S k =>
        match pending with
        | [] => restored                                                   (* while old_stereo: *)
        | _ =>
            let now := filter (fun cs => chiral restored (fst cs)) pending in
            let rest := filter (fun cs => negb (chiral restored (fst cs))) pending in
            match now with
            | [] => restored                                               (* fail_stereo == old_stereo: break *)
            | _ => fix_loop k (restored ++ now) rest
            end
        end
    end.

  (* the labels the molecule carries after fix_stereo *)
  Definition fix_stereo_labels (r : registries) (g : mol) : list label :=
    let l := collect r g in fix_loop (S (List.length l)) [] l.
End Loop.

(* chirality given as a finite table (for the correspondence): entries (labels present, chiral centres) *)
Definition label_mem (x : label) (l : list label) : bool := existsb (label_eqb x) l.
Definition same_labels (a b : list label) : bool := forallb (fun x => label_mem x b) a && forallb (fun x => label_mem x a) b.
Definition chiral_tab (tab : list (list label * list centre)) (restored : list label) (c : centre) : bool :=
  match find (fun e => same_labels (fst e) restored) tab with
  | Some e => existsb (centre_eqb c) (snd e)
  | None => false
  end.
Definition fix_stereo_real (g : mol) (tab : list (list label * list centre)) : pyres (list label) :=
  match registries_real g with
  | Ok r => Ok (fix_stereo_labels (chiral_tab tab) r g)
  | Err e => Err e
  end.
