(* C14 -- correspondence glue for standardize_charges: the heterocycle part run with the loop bodies TRANSLATED from the source
   (Gen.C14Charges) on what the real matcher yielded and the canonical order the real code computed, compared with the real
   result: the list `changed` (up to the atoms the ferrocene block appended afterwards) and every charge outside those atoms;
   charges_mid_ok: the charges at the end of the loop over fixed_rules (intermediate state). *)
From Coq Require Import ZArith List Bool.
From Model Require Import PyBase Graph Standardize StandardizeChargesBase StandardizeCharges StandardizeChargesPre StandardizeFerrocene.
From Gen Require Import StdRules C14Charges.
Import ListNotations.
Open Scope Z_scope.

Definition order_of (ranks : list (Z * Z)) (n : Z) : Z := match zget ranks n with Some r => r | None => 0 end.
Definition charges_of (g : mol) (skip : list Z) : list (Z * Z) :=
  map (fun na => (fst na, a_chg (snd na))) (filter (fun na => negb (zmem (fst na) skip)) (m_atoms g)).

Definition charges_ok (yf ym : list (list mapping)) (ranks : list (Z * Z)) (g0 : mol) (changed ferro : list Z) (chg : list (Z * Z)) : bool :=
  match charges_with g_fixed_step g_morgan_step g_morgan_assign fixed_rules morgan_rules yf ym (order_of ranks) g0 with
  | Ok st => list_eqb Z.eqb (cs_changed st) changed && list_eqb (pair_eqb Z.eqb Z.eqb) (charges_of (cs_mol st) ferro) chg
  | Err _ => false
  end.

Definition charges_mid_ok (yf : list (list mapping)) (g0 : mol) (chg : list (Z * Z)) : bool :=
  match run_table g_fixed_step fixed_rules yf (mkCS g0 [] [] []) with
  | Ok st => list_eqb (pair_eqb Z.eqb Z.eqb) (charges_of (cs_mol st) []) chg
  | Err _ => false
  end.

(* the hypothesis of the whole-call net-charge theorem (C14_charges_conserved) on a recorded run: at the moment of every accepted match the
   charges are what the pattern says; atom numbers are distinct *)
Definition charges_pre_ok (yf ym : list (list mapping)) (ranks : list (Z * Z)) (g0 : mol) : bool :=
  charges_pre yf ym (order_of ranks) g0 && nodup_z (ids g0).

(* the WHOLE function after thiele(): heterocycle part (translated bodies), then the ferrocene block (hand model) on the recorded SSSR and
   the canonical order recomputed for it: the complete list `changed`, every charge, and the hypothesis of C14_ferrocene_conserved *)
Definition charges_full_ok (yf ym : list (list mapping)) (ranks ranks_f : list (Z * Z)) (sssr : list (list Z)) (g0 : mol)
           (changed : list Z) (chg : list (Z * Z)) : bool :=
  match charges_with g_fixed_step g_morgan_step g_morgan_assign fixed_rules morgan_rules yf ym (order_of ranks) g0 with
  | Ok st =>
      let fs := ferrocene_block sssr (order_of ranks_f) (cs_mol st) (cs_changed st) in
      list_eqb Z.eqb (fs_changed fs) changed && list_eqb (pair_eqb Z.eqb Z.eqb) (charges_of (fs_mol fs) []) chg &&
      ferrocene_pre sssr (order_of ranks_f) (cs_mol st) (cs_changed st)
  | Err _ => false
  end.
