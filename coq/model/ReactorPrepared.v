(* C16 (strengthening 4) -- control flow of PreparedReactor.__call__ in multi-step mode (chython/reactor/reactions/__init__.py):

       molecules = fix_mapping_overlap(molecules); seen = set()
       excess = molecules if excess is None else [molecules[x] for x in excess]
       stack = deque([])
       for i, (rx, al) in enumerate(zip(self.rxn_ms, self.alerts)):
           if check_alerts and any(...): continue
           x = self.rxn_ms.copy(); del x[i]; stack.appendleft((rx, molecules, x))
       while stack:
           rx, rct, nxt_rxn = stack.pop()
           for r in rx( *rct):
               if str(r) in seen: continue
               seen.add(str(r))
               r = ReactionContainer([x.copy() for x in molecules], r.products); yield r
               x = excess.copy()
               for p in reversed(r.products): x.insert(0, p.copy())
               x = fix_mapping_overlap(x)
               if excess is not molecules:
                   for m, nrx in enumerate(nxt_rxn): z = nxt_rxn.copy(); del z[m]; stack.append((nrx, x.copy(), z))
               else:  # drop one of the reactants
                   for n in range(len(r.products), len(x)):
                       y = x.copy(); del y[n]
                       for m, nrx in enumerate(nxt_rxn): z = nxt_rxn.copy(); del z[m]; stack.append((nrx, y, z))

   Generic in the types T of the prepared reactors (the elements of rxn_ms) and M of molecules.  Section variables:
     react rx rct : the products of every reaction rx( *rct) yields, and the exception that ends it (Reactor.__call__, one_shot=False)
     key rct prods: str(r) of such a reaction
     overlap      : fix_mapping_overlap
   The stack is a list whose head is the right end of the deque (pop() takes the head, append conses, appendleft adds at the end). *)
From Coq Require Import ZArith List Bool Lia.
From Model Require Import PyBase ReactorStage.
Import ListNotations.

Section Prepared.
  Variables (T M K : Type).
  Variable key_eqb : K -> K -> bool.
  Variable react : T -> list M -> list (list M) * option pyexn.
  Variable key : list M -> list M -> K.
  Variable overlap : list M -> list M.
  Variable rxn_ms : list T.
  Variable allowed : nat -> bool.          (* the alerts of template i do not fire (or check_alerts is off) *)
  Variable molecules : list M.             (* after the initial fix_mapping_overlap *)
  Variable excess : option (list M).       (* None: excess is molecules (the default) *)

  Definition pitem : Type := T * list M * list T.

  (* what is pushed after one yielded reaction with products prods; nxt = the reactors not used yet.  The LAST pushed item is
     the head of the result (it is popped first) *)
  Definition pushes (prods : list M) (nxt : list T) : list pitem :=
    let x := overlap (prods ++ match excess with Some e => e | None => molecules end) in
    let per_y (y : list M) := map (fun mr => (snd mr, y, remove_nth (fst mr) nxt)) (number_from 0 nxt) in
    rev (match excess with
         | Some _ => per_y x
         | None => flat_map (fun n => per_y (remove_nth n x)) (seq (length prods) (length x - length prods))
         end).

  Record pacc := mkPacc { pa_seen : list K; pa_stack : list pitem; pa_yields : list (list M * list M) }.

  Definition pstep (rct : list M) (nxt : list T) (a : pacc) (prods : list M) : pacc :=
    let k := key rct prods in
    if existsb (key_eqb k) (pa_seen a) then a
    else mkPacc (k :: pa_seen a) (pushes prods nxt ++ pa_stack a) (pa_yields a ++ [(rct, prods)]).

  (* yields (the reactant list of the stage and its products), the exception, and: was the stack exhausted within the fuel *)
  Fixpoint prun (fuel : nat) (stack : list pitem) (seen : list K) : list (list M * list M) * option pyexn * bool :=
    match fuel with
    | O => ([], None, match stack with [] => true | _ => false end)
    | S f =>
        match stack with
        | [] => ([], None, true)
        | (rx, rct, nxt) :: rest =>
            let '(news, e) := react rx rct in
            let a := fold_left (pstep rct nxt) news (mkPacc seen rest []) in
            match e with
            | Some ex => (pa_yields a, Some ex, true)
            | None => let '(ys, e', ok) := prun f (pa_stack a) (pa_seen a) in (pa_yields a ++ ys, e', ok)
            end
        end
    end.

  (* runner only: the (reactor, reactants) of every stage, in the order in which they are run *)
  Fixpoint ptrace (fuel : nat) (stack : list pitem) (seen : list K) : list (T * list M) :=
    match fuel with
    | O => []
    | S f =>
        match stack with
        | [] => []
        | (rx, rct, nxt) :: rest =>
            let '(news, e) := react rx rct in
            let a := fold_left (pstep rct nxt) news (mkPacc seen rest []) in
            match e with
            | Some _ => [(rx, rct)]
            | None => (rx, rct) :: ptrace f (pa_stack a) (pa_seen a)
            end
        end
    end.

  Definition init_stack : list pitem :=
    flat_map (fun ir => if allowed (fst ir) then [(snd ir, molecules, remove_nth (fst ir) rxn_ms)] else []) (number_from 0 rxn_ms).

  Definition multistep (fuel : nat) := prun fuel init_stack [].
  Definition multistep_trace (fuel : nat) := ptrace fuel init_stack [].

  (* an item that can stand on the stack *)
  Inductive preach : pitem -> Prop :=
  | preach_init : forall it, In it init_stack -> preach it
  | preach_step : forall rx rct nxt prods it,
      preach (rx, rct, nxt) -> In prods (fst (react rx rct)) -> In it (pushes prods nxt) -> preach it.
End Prepared.

(* ---------- runner: tables over tokens ---------- *)
Definition ptab {V : Type} (t : list (Z * list Z * V)) (k1 : Z) (k2 : list Z) (d : V) : V :=
  (fix go (t : list (Z * list Z * V)) : V :=
     match t with [] => d | (a, b, v) :: r => if (k1 =? a)%Z && list_eqb Z.eqb k2 b then v else go r end) t.
Definition pyield_eqb (a b : list Z * list Z) : bool := list_eqb Z.eqb (fst a) (fst b) && list_eqb Z.eqb (snd a) (snd b).
Definition prep_eqb (model : list (list Z * list Z) * option pyexn * bool) (impl : list (list Z * list Z) * option pyexn) : bool :=
  list_eqb pyield_eqb (fst (fst model)) (fst impl) && option_eqb pyexn_eqb (snd (fst model)) (snd impl) && snd model.
Definition ptrace_eqb (model impl : list (Z * list Z)) : bool :=
  list_eqb (fun a b => (fst a =? fst b)%Z && list_eqb Z.eqb (snd a) (snd b)) model impl.
