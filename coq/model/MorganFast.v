(* A second executable instance of the hash parameter of Model.Morgan: CPython 3.12 `hash()` of a tuple of ints written
   with the kernel's primitive 63-bit integers (Uint63), so that `vm_compute` evaluates one refinement round in
   microseconds instead of milliseconds.  A 64-bit word is a pair (hi, lo) of 32-bit halves.

   Nothing is proved about this file and nothing needs to be: the theorems of C01 quantify over EVERY hash function
   `h : list Z -> Z`, hence they hold for `hash63`; that `hash63` is the hash the interpreter computes is what the
   correspondence of harness/checks/C01.py measures (exact ints on every case), and the check also compares it with
   the arbitrary-precision model Model.PyHash.hash_ztuple on random tuples inside Coq.  Not used by any theorem. *)
From Coq Require Import ZArith List Bool Uint63.
From Model Require Import PyBase PyHash Graph Morgan.
Import ListNotations.

Module U64.
  Open Scope uint63_scope.
  Definition w := (int * int)%type.                       (* (hi, lo), both < 2^32 *)
  Definition m32 : int := 4294967295.
  Definition of_Z64 (z : Z) : w :=                        (* 0 <= z < 2^64 *)
    (Uint63.of_Z (Z.shiftr z 32), Uint63.of_Z (Z.land z 4294967295)).
  Definition to_Z64 (x : w) : Z := (Uint63.to_Z (fst x) * 4294967296 + Uint63.to_Z (snd x))%Z.
  Definition add (a b : w) : w :=
    let l := snd a + snd b in
    ((fst a + fst b + (l >> 32)) land m32, l land m32).
  (* low 64 bits of the product *)
  Definition mul (a b : w) : w :=
    let '(ph, pl) := Uint63.mulc (snd a) (snd b) in      (* a0*b0 = ph * 2^63 + pl *)
    let p_hi := ((pl >> 32) lor (ph << 31)) land m32 in
    ((p_hi + fst a * snd b + snd a * fst b) land m32, pl land m32).
  Definition rotl31 (x : w) : w :=
    let '(h, l) := x in
    ((((h land 1) << 31) lor (l >> 1)) land m32, (((l land 1) << 31) lor (h >> 1)) land m32).
  Definition neg (x : w) : w := add (m32 - fst x, m32 - snd x) (0, 1).
  Definition eqb (a b : w) : bool := (fst a =? fst b) && (snd a =? snd b).
  (* x mod (2^61 - 1) as one int: x = q * 2^61 + r  ==  q + r *)
  Definition p61 : int := 2305843009213693951.
  Definition mod_p61 (x : w) : int :=
    let q := fst x >> 29 in
    let r := ((fst x land 536870911) << 32) lor snd x in
    let s := q + r in
    if p61 <=? s then s - p61 else s.
End U64.

Definition XP1 : U64.w := U64.of_Z64 XXPRIME_1.
Definition XP2 : U64.w := U64.of_Z64 XXPRIME_2.
Definition XP5 : U64.w := U64.of_Z64 XXPRIME_5.

(* to_u64 (hash_int z) *)
Definition lane63 (z : Z) : U64.w :=
  if (Z.abs z <? 18446744073709551616)%Z then
    let r := U64.mod_p61 (U64.of_Z64 (Z.abs z)) in
    if (z <? 0)%Z then
      let r' := if Uint63.eqb r 1 then 2%uint63 else r in
      if Uint63.eqb r' 0 then (0%uint63, 0%uint63) else U64.neg (Uint63.lsr r' 32, Uint63.land r' U64.m32)
    else (Uint63.lsr r 32, Uint63.land r U64.m32)
  else U64.of_Z64 (to_u64 (hash_int z)).

Definition round63 (acc : U64.w) (z : Z) : U64.w :=
  U64.mul (U64.rotl31 (U64.add acc (U64.mul (lane63 z) XP2))) XP1.

Definition hash63 (l : list Z) : Z :=
  let acc := fold_left round63 l XP5 in
  let acc' := U64.add acc (U64.of_Z64 (Z.lxor (Z.of_nat (length l)) (Z.lxor XXPRIME_5 3527539))) in
  if U64.eqb acc' (U64.m32, U64.m32) then 1546275796%Z else to_s64 (U64.to_Z64 acc').

(* executable instances for the correspondence *)
Definition fast_morgan := morgan hash63.
Definition fast_morgan_labels := morgan_labels hash63.
Definition fast_atoms_order (rings : list Z) (g : mol) := atoms_order hash63 (fun n => zmem n rings) g.
Definition fast_atom_labels (rings : list Z) (g : mol) := atom_labels hash63 (fun n => zmem n rings) g.

(* agreement with the arbitrary-precision model on a list of tuples (used by the check on random tuples) *)
Definition hash63_agrees (ls : list (list Z)) : bool := forallb (fun l => Z.eqb (hash63 l) (hash_ztuple l)) ls.
