(* C06 -- executable well-formedness of the path tables of _make_pid (evaluated per molecule by the check; hypothesis of the
   theorems on _c_set in proofs/RingsGenProofs.v).  Definitions only. *)
From Coq Require Import ZArith List Bool Lia.
From Model Require Import PyBase Graph Rings RingsFilter RingsGen.
Import ListNotations.
Open Scope Z_scope.

Definition walkb (g : graph) (p : path) : bool := forallb (fun ab => has_edge g (fst ab) (snd ab)) (seq_pairs p).
(* a walk of g from i to j with [len] atoms *)
Definition path_okb (g : graph) (i j len : Z) (p : path) : bool :=
  (Z.of_nat (length p) =? len) && (hd 0 p =? i) && (last p 0 =? j) && walkb g p.
Definition cell_okb (g : graph) (i j len : Z) (c : d3) : bool := forallb (fun kp => path_okb g i j len (snd kp)) c.
(* every stored shortest path has distance + 1 atoms, every stored "shortest + 1" path distance + 2; bonded atoms have one
   shortest path *)
Definition cell_check (g : graph) (p2 : d1) (d : dist) (i : Z) (jc : Z * d3) : bool :=
  let j := fst jc in let dij := dist_get d i j in
  (1 <=? dij) && cell_okb g i j (dij + 1) (snd jc) && cell_okb g i j (dij + 2) (lookup2 p2 i j) &&
  (negb (dij =? 1) || Nat.leb (length (snd jc)) 1).
Definition row_check (g : graph) (p2 : d1) (d : dist) (irow : Z * d2) : bool := forallb (cell_check g p2 d (fst irow)) (snd irow).
Definition pid_ok (g : graph) (pids : d1 * d1 * dist) : bool :=
  let '(p1, p2, d) := pids in forallb (row_check g p2 d) p1.

Definition c_pidok (g : graph) (paths : list path) : bool := pid_ok g (make_pid paths).

(* the selection finishes in its first phase (executable form of Proofs.RingsGenProofs.first_phase) *)
Definition first_phase_b (cands : list ring) (n : nat) : bool :=
  match cands with
  | [] => false
  | c :: rest => Nat.eqb n 1 || fst (fst (fst (rf_phase1 n rest [c] c [c] [])))
  end.

(* intermediate states of _make_pid: after the first loop (r = 0) and after r rounds of the main loop *)
Definition make_pid_rounds (paths : list path) (r : nat) : d1 * d1 * dist :=
  let st := fold_left pid_init_step (sort_paths paths) ([], [], []) in
  let ks := keys (fst (fst st)) in
  fold_left (pid_k ks) (firstn r ks) st.
Definition c_pid_round (paths : list path) (r : nat) (e1 e2 : d1) : bool :=
  let st := make_pid_rounds paths r in d1_eqb (fst (fst st)) e1 && d1_eqb (snd (fst st)) e2.
