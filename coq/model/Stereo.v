(* Model of the sign translation functions of chython/algorithms/stereo.py (C12, used by C02/C16/C20).
   The two translation tables are generated (Gen.StereoTables). *)
From Coq Require Import ZArith List Bool.
From Model Require Import PyBase.
From Gen Require Import StereoTables.
Import ListNotations.
Open Scope Z_scope.

(* dict lookup: the last binding of a key wins *)
Fixpoint th_lookup_in (t : list (Z * Z * Z * bool)) (a b c : Z) : option bool :=
  match t with
  | [] => None
  | (a', b', c', v) :: r =>
      match th_lookup_in r a b c with
      | Some w => Some w
      | None => if (a =? a') && (b =? b') && (c =? c') then Some v else None
      end
  end.
Definition th_lookup := th_lookup_in tetrahedron_translate.

Fixpoint ct_lookup_in (t : list (Z * Z * bool)) (a b : Z) : option bool :=
  match t with
  | [] => None
  | (a', b', v) :: r =>
      match ct_lookup_in r a b with
      | Some w => Some w
      | None => if (a =? a') && (b =? b') then Some v else None
      end
  end.
Definition ct_lookup := ct_lookup_in alkene_translate.

(* _translate_tetrahedron_sign(n, env, s) with s given.
   order = stereogenic_tetrahedrons[n] (3 or 4 non-hydrogen neighbours), isH = "atom is a hydrogen" *)
Definition translate_th (isH : Z -> bool) (order env : list Z) (s : bool) : pyres bool :=
  let ne := Z.of_nat (length env) in
  let order' :=
    if Z.of_nat (length order) =? 3 then
      if ne =? 4 then match find isH env with Some h => Ok (order ++ [h]) | None => Err KeyError end
      else if ne =? 3 then Ok order else Err ValueError
    else if (ne =? 3) || (ne =? 4) then Ok order else Err ValueError in
  match order' with
  | Err e => Err e
  | Ok o =>
      match map (index_of o) (firstn 3 env) with
      | [Some a; Some b; Some c] =>
          match th_lookup a b c with
          | Some true => Ok (negb s)
          | Some false => Ok s
          | None => Err KeyError
          end
      | _ => Err ValueError
      end
  end.

(* the common tail of _translate_cis_trans_sign and _translate_allene_sign *)
Definition opt_is (o : option Z) (x : Z) (isH : Z -> bool) : bool :=
  match o with Some y => x =? y | None => isH x end.

Definition translate_env (isH : Z -> bool) (env : Z * Z * option Z * option Z) (nn nm : Z) (s : bool) : pyres bool :=
  let '(n0, n1, n2, n3) := env in
  let second13 :=  (* nm must be n1 or n3 *)
    if nm =? n1 then Some 1 else if opt_is n3 nm isH then Some 3 else None in
  let second02 :=
    if nm =? n0 then Some 0 else if opt_is n2 nm isH then Some 2 else None in
  let t :=
    if nn =? n0 then option_map (fun t1 => (0, t1)) second13
    else if nn =? n1 then option_map (fun t1 => (1, t1)) second02
    else if opt_is n2 nn isH then option_map (fun t1 => (2, t1)) second13
    else if opt_is n3 nn isH then option_map (fun t1 => (3, t1)) second02
    else None in
  match t with
  | None => Err KeyError
  | Some (t0, t1) =>
      match ct_lookup t0 t1 with
      | Some true => Ok (negb s)
      | Some false => Ok s
      | None => Err KeyError
      end
  end.

(* _translate_cis_trans_sign(n, m, nn, nm, s): the registry stereogenic_cis_trans is keyed by one orientation;
   when only (m, n) is a key, ends are exchanged first. [env_nm] / [env_mn] are the two possible entries. *)
Definition translate_ct (isH : Z -> bool) (env_nm env_mn : option (Z * Z * option Z * option Z))
           (nn nm : Z) (s : bool) : pyres bool :=
  match env_nm with
  | Some e => translate_env isH e nn nm s
  | None => match env_mn with
            | Some e => translate_env isH e nm nn s
            | None => Err KeyError
            end
  end.

Definition translate_al := translate_env.

(* ---- geometric sign functions over Z ---- *)
Definition sgn (x : Z) : Z := if 0 <? x then 1 else if x <? 0 then -1 else 0.

Definition pyramid_vol (n u v w : Z * Z * Z) : Z :=
  let '(nx, ny, nz) := n in let '(ux, uy, uz) := u in let '(vx, vy, vz) := v in let '(wx, wy, wz) := w in
  let q1x := ux - nx in let q1y := uy - ny in let q1z := uz - nz in
  let q2x := vx - nx in let q2y := vy - ny in let q2z := vz - nz in
  let q3x := wx - nx in let q3y := wy - ny in let q3z := wz - nz in
  q1x * (q2y * q3z - q2z * q3y) + q1y * (q2z * q3x - q2x * q3z) + q1z * (q2x * q3y - q2y * q3x).
Definition pyramid_sign n u v w : Z := sgn (pyramid_vol n u v w).

Definition cis_trans_dot (n u v w : Z * Z) : Z :=
  let '(nx, ny) := n in let '(ux, uy) := u in let '(vx, vy) := v in let '(wx, wy) := w in
  let q1x := ux - nx in let q1y := uy - ny in
  let q2x := vx - ux in let q2y := vy - uy in
  let q3x := wx - vx in let q3y := wy - vy in
  (q1x * q2y - q1y * q2x) * (q2x * q3y - q2y * q3x).
Definition cis_trans_sign n u v w : Z := sgn (cis_trans_dot n u v w).

Definition allene_dot (mark : Z) (u v w : Z * Z) : Z :=
  let '(ux, uy) := u in let '(vx, vy) := v in let '(wx, wy) := w in
  let q2x := vx - ux in let q2y := vy - uy in
  let q3x := wx - vx in let q3y := wy - vy in
  - mark * (q2x * q3y - q2y * q3x).
Definition allene_sign mark u v w : Z := sgn (allene_dot mark u v w).

(* ---- permutation parity (specification side) ---- *)
Fixpoint count_lt (x : Z) (l : list Z) : nat :=
  match l with [] => O | y :: r => if y <? x then S (count_lt x r) else count_lt x r end.
Fixpoint inversions (l : list Z) : nat :=
  match l with [] => O | x :: r => (count_lt x r + inversions r)%nat end.
Definition odd_perm (l : list Z) : bool := Nat.odd (inversions l).
