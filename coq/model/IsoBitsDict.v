(* C09 -- a Python dict of ints as an association list in insertion order, with the store `d[k] = v`:
   an existing key keeps its position and gets the new value, a new key is appended.  Definitions only. *)
From Coq Require Import ZArith List Bool.
Import ListNotations.
Open Scope Z_scope.

Fixpoint dset (d : list (Z * Z)) (k v : Z) : list (Z * Z) :=
  match d with
  | [] => [(k, v)]
  | (k', v') :: r => if k =? k' then (k', v) :: r else (k', v') :: dset r k v
  end.
