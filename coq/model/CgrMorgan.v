(* C15 -- Morgan.atoms_order on a condensed graph (chython/algorithms/morgan.py applied to CGRContainer):
     DynamicElement.__hash__  hash((isotope or 0, atomic_number, charge, p_charge, is_radical, p_is_radical))
     DynamicBond.__hash__     hash((order or 0, p_order or 0))
     Morgan.int_adjacency     {n: {m: hash(b) for m, b in mb.items()} for n, mb in self._bonds.items()}
     Morgan.atoms_order       {} for an empty container, all 1 for a single atom, else _morgan(labels, int_adjacency)
   `_morgan` itself is Model.Morgan.morgan (C01), generic in the tuple hash h and in the labels; nothing of it is
   repeated here.  Definitions only; proofs in Proofs.CgrMorganProofs. *)
From Coq Require Import ZArith List Bool.
From Model Require Import PyBase PyHash Graph Morgan Compose.
Import ListNotations.
Open Scope Z_scope.

Section CgrMorgan.
  Variable h : list Z -> Z.
  Definition oz (o : option Z) : Z := match o with Some x => x | None => 0 end.     (* `x or 0` *)
  Definition datom_invariant (a : datom) : Z :=
    h [oz (d_iso a); d_num a; d_chg a; d_pchg a; b2z (d_rad a); b2z (d_prad a)].
  Definition dbond_invariant (b : dbond) : Z := h [oz (db_ord b); oz (db_pord b)].
  (* DynamicBond.__int__ = hash(self): the value the SMILES traversal uses to order neighbours of equal Morgan class *)
  Definition dbond_int (b : dbond) : Z := dbond_invariant b.
  Definition cgr_int_adjacency (c : cgr) : iadj :=
    map (fun nl => (fst nl, map (fun mb => (fst mb, dbond_invariant (snd mb))) (snd nl))) (c_adj c).
  Definition cgr_atom_labels (c : cgr) : labels := map (fun na => (fst na, datom_invariant (snd na))) (c_atoms c).
  Definition cgr_atoms_order (c : cgr) : pyres labels :=
    match c_atoms c with
    | [] => Ok []
    | [na] => Ok [(fst na, 1)]
    | _ => morgan h (cgr_atom_labels c) (cgr_int_adjacency c)
    end.
  (* atoms_order of the result of compose *)
  Definition order_of (x : pyres cgr) : pyres labels := match x with Ok c => cgr_atoms_order c | Err e => Err e end.
End CgrMorgan.

(* the instance with the reference definition of the CPython tuple hash over Z (the correspondence evaluates the same
   functions with MorganFast.hash63, the machine-integer implementation of that hash, and checks their agreement) *)
Definition z_cgr_atoms_order := cgr_atoms_order hash_ztuple.
