(* Model of chython/files/daylight/tokenize.py : _tokenize, _atom_parse, smiles_tokenize.

   INTERFACE (used by Parser.v / Reader.v and by C02):
     token            := (Z * payload)      the Python pair (token_type, value)
     payload          := PNone | PStr s | PInt z | PBool b | PZs l | PQB orders in_ring | PChars l | PAtom a
     atomtok          the atom dictionary {'element', 'isotope', 'parsed_mapping', 'charge', 'implicit_hydrogens', 'stereo'}
                      (a simple organic-subset atom is the dictionary {'element': s}: at_h = None, all other fields default)
     tokenize_raw     : string -> pyres (list token)        = _tokenize
     atom_parse       : string -> pyres token               = _atom_parse
     tokenize         : string -> pyres (list token)        = smiles_tokenize
   Strings are Coq strings; a character is a code point 0..255 (Latin-1).
   Exceptions are explicit: every place where the Python code indexes / pops / looks up without a guard returns the
   exception Python raises there (IndexError, KeyError, TypeError).
   Shapes that cannot occur (e.g. `token.append` on something that is not a list) return Err OtherError; TokenizeProofs
   shows they are unreachable. *)
From Coq Require Import ZArith List String Ascii Bool.
From Model Require Import PyBase.
From Gen Require Import TokenTables.
Import ListNotations.
Open Scope Z_scope.

(* ------------------------------------------------------------------------------------------------ characters *)
Definition code (c : ascii) : Z := Z.of_N (N_of_ascii c).
Definition is_digit (c : ascii) : bool := (48 <=? code c) && (code c <=? 57).
(* str.isnumeric() on a Latin-1 code point: 0-9, superscripts 2 3 1, fractions 1/4 1/2 3/4 *)
Definition is_numeric (c : ascii) : bool :=
  is_digit c || zmem (code c) [178; 179; 185; 188; 189; 190].
Definition chr_in (c : ascii) (s : string) : bool := existsb (Ascii.eqb c) (list_ascii_of_string s).
Definition str1 (c : ascii) : string := String c EmptyString.
Definition is_upper (c : ascii) : bool := (65 <=? code c) && (code c <=? 90).
Definition is_lower (c : ascii) : bool := (97 <=? code c) && (code c <=? 122).
Definition upper (c : ascii) : ascii := if is_lower c then ascii_of_N (Z.to_N (code c - 32)) else c.
Definition lower (c : ascii) : ascii := if is_upper c then ascii_of_N (Z.to_N (code c + 32)) else c.
(* str.capitalize() (ASCII letters) *)
Definition capitalize (s : string) : string :=
  match s with EmptyString => EmptyString | String c r => String (upper c) (string_of_list_ascii (map lower (list_ascii_of_string r))) end.

(* int(<text>) for a text of Latin-1 characters: only ASCII digits are decimal digits; the empty text, any other
   character, or more than 4300 digits (CPython's int_max_str_digits) raise ValueError *)
Fixpoint digits_value (l : list ascii) (acc : Z) : Z :=
  match l with [] => acc | c :: r => digits_value r (acc * 10 + (code c - 48)) end.
Definition py_int (l : list ascii) : pyres Z :=
  match l with
  | [] => Err ValueError
  | _ => if forallb is_digit l && (Z.of_nat (List.length l) <=? 4300) then Ok (digits_value l 0) else Err ValueError
  end.

Fixpoint sget {V : Type} (d : list (string * V)) (k : string) : option V :=
  match d with [] => None | (k', v) :: r => if String.eqb k k' then Some v else sget r k end.

(* ------------------------------------------------------------------------------------------------ tokens *)
Record atomtok := mkAt {
  at_el : string;             (* 'element' *)
  at_iso : option Z;          (* 'isotope' *)
  at_map : option Z;          (* 'parsed_mapping' *)
  at_chg : Z;                 (* 'charge' *)
  at_h : option Z;            (* 'implicit_hydrogens'; None = simple atom (key absent) *)
  at_stereo : option bool     (* 'stereo' *)
}.
Definition simple_atom (s : string) : atomtok := mkAt s None None 0 None None.

Inductive payload :=
| PNone
| PStr (s : string)
| PInt (z : Z)
| PBool (b : bool)
| PZs (l : list Z)                              (* list of bond orders of a query OR / NOT bond *)
| PQB (orders : list Z) (in_ring : bool)        (* QueryBond(order, in_ring): order is the sorted tuple *)
| PChars (l : list ascii)                       (* a list of characters (pending bracket / %closure text) *)
| PAtom (a : atomtok).
Definition token := (Z * payload)%type.

(* QueryBond(order, in_ring) as called by _tokenize: int or list of int -> sorted tuple of distinct orders;
   anything else TypeError *)
Definition valid_order (o : Z) : bool := zmem o [1; 4; 2; 3; 8].
Fixpoint zinsert (x : Z) (l : list Z) : list Z :=
  match l with [] => [x] | y :: r => if x <? y then x :: l else if x =? y then l else y :: zinsert x r end.
Definition sorted_set (l : list Z) : list Z := fold_right zinsert [] l.
Definition query_bond (p : payload) (in_ring : bool) : pyres payload :=
  match p with
  | PInt o => if valid_order o then Ok (PQB [o] in_ring) else Err ValueError
  | PZs l => if forallb valid_order l then Ok (PQB (sorted_set l) in_ring) else Err ValueError
  | _ => Err TypeError
  end.

(* ------------------------------------------------------------------------------------------------ _tokenize *)
(* the local variable `token`: None, a str ('C' / 'B'), a list of characters, True, or a list of bond orders *)
Inductive pend := PdNone | PdStr (s : string) | PdChars (l : list ascii) | PdTrue | PdOrders (l : list Z).
Definition truthy (p : pend) : bool :=
  match p with
  | PdNone => false
  | PdStr s => negb (String.eqb s "")
  | PdChars l => match l with [] => false | _ => true end
  | PdTrue => true
  | PdOrders l => match l with [] => false | _ => true end
  end.
Definition payload_of_pend (p : pend) : payload :=
  match p with PdNone => PNone | PdStr s => PStr s | PdChars l => PChars l | PdTrue => PBool true | PdOrders l => PZs l end.

(* t_toks is the list `tokens` REVERSED (head = last appended) *)
Record tstate := mkT { t_type : option Z; t_pend : pend; t_toks : list token }.
Definition t_init : tstate := mkT None PdNone [].

Definition tt_is (st : tstate) (k : Z) : bool := match t_type st with Some t => t =? k | None => false end.
Definition tt_in (st : tstate) (l : list Z) : bool := match t_type st with Some t => zmem t l | None => false end.
(* the integer stored for token_type = None if it were ever appended (it never is: TokenizeProofs.flush_typed) *)
Definition tyZ (t : option Z) : Z := match t with Some z => z | None => -1 end.

(* `if token: tokens.append((token_type, token)); token = None`  (the pending value is kept when it is falsy) *)
Definition flushed (st : tstate) : list token :=
  if truthy (t_pend st) then (tyZ (t_type st), payload_of_pend (t_pend st)) :: t_toks st else t_toks st.
Definition pend_after (st : tstate) : pend := if truthy (t_pend st) then PdNone else t_pend st.

Definition ISm {A} : pyres A := Err IncorrectSmiles.
Definition ISa {A} : pyres A := Err IncorrectSmarts.

Definition tok_step (st : tstate) (s : ascii) : pyres tstate :=
  if tt_is st 12 then
    if Ascii.eqb s "!" then
      if truthy (t_pend st) then ISa else Ok (mkT (t_type st) PdTrue (t_toks st))
    else if Ascii.eqb s "@" then
      match t_toks st with
      | [] => ISa                                               (* if not tokens or tokens[-1][0] not in (1, 10) *)
      | (ty, p) :: r =>
          if negb (zmem ty [1; 10]) then ISa else
          match query_bond p (negb (truthy (t_pend st))) with
          | Ok q => Ok (mkT None PdNone ((12, q) :: r))
          | Err e => Err e
          end
      end
    else ISa
  else if Ascii.eqb s "[" then
    if tt_is st 5 then ISm
    else if tt_in st [10; 11] then ISa
    else if tt_is st 7 then ISm
    else Ok (mkT (Some 5) (PdChars []) (flushed st))
  else if Ascii.eqb s "]" then
    if negb (tt_is st 5) then ISm
    else if negb (truthy (t_pend st)) then ISm
    else match t_pend st with
         | PdChars l => Ok (mkT (Some 0) PdNone ((5, PStr (string_of_list_ascii l)) :: t_toks st))
         | _ => Err OtherError
         end
  else if tt_is st 5 then
    match t_pend st with
    | PdChars l => Ok (mkT (t_type st) (PdChars (l ++ [s])) (t_toks st))
    | _ => Err OtherError
    end
  else if is_digit s then                                       (* '0' <= s <= '9' *)
    if tt_in st [10; 11] then ISa
    else if tt_is st 2 then ISm
    else if tt_is st 7 then
      if negb (truthy (t_pend st)) && Ascii.eqb s "0" then ISm
      else match t_pend st with
           | PdChars l =>
               let l' := l ++ [s] in
               if (Z.of_nat (List.length l') =? 2) then
                 match py_int l' with
                 | Ok v => Ok (mkT (Some 6) PdNone ((6, PInt v) :: t_toks st))
                 | Err e => Err e
                 end
               else Ok (mkT (t_type st) (PdChars l') (t_toks st))
           | _ => Err OtherError
           end
    else
      if Ascii.eqb s "0" then ISm
      else match py_int [s] with
           | Ok v => Ok (mkT (Some 6) (pend_after st) ((6, PInt v) :: flushed st))
           | Err e => Err e
           end
  else if tt_is st 7 then ISm
  else if Ascii.eqb s "%" then
    if tt_in st [10; 11] then ISa
    else if tt_is st 2 then ISm
    else Ok (mkT (Some 7) (PdChars []) (flushed st))
  else if chr_in s bond_chars then
    if tt_is st 10 then
      match t_pend st, sget replace_dict (str1 s) with
      | PdOrders l, Some o => Ok (mkT None PdNone ((10, PZs (l ++ [o])) :: t_toks st))
      | PdOrders _, None => Err KeyError
      | _, _ => Err OtherError
      end
    else if tt_is st 11 then
      match sget not_dict (str1 s) with
      | Some l => Ok (mkT None (t_pend st) ((10, PZs l) :: t_toks st))
      | None => ISa                                             (* if s not in not_dict: raise IncorrectSmarts   ('!~') *)
      end
    else
      match sget replace_dict (str1 s) with
      | Some o => Ok (mkT (Some 1) (pend_after st) ((1, PInt o) :: flushed st))
      | None => Err KeyError
      end
  else if tt_in st [10; 11] then ISa
  else if chr_in s updown_chars then
    Ok (mkT (Some 9) (pend_after st) ((9, PBool (Ascii.eqb s "/")) :: flushed st))
  else if Ascii.eqb s "." then
    Ok (mkT (Some 4) (pend_after st) ((4, PNone) :: flushed st))
  else if Ascii.eqb s ";" then
    match t_type st with
    | None => Ok (mkT (Some 12) (t_pend st) (t_toks st))
    | Some t => if t =? 1 then Ok (mkT (Some 12) (t_pend st) (t_toks st)) else ISa
    end
  else if Ascii.eqb s "," then
    if negb (tt_is st 1) then ISa
    else match t_toks st with
         | [] => Err IndexError
         | (_, PInt o) :: r => Ok (mkT (Some 10) (PdOrders [o]) r)
         | _ :: _ => Err OtherError
         end
  else if Ascii.eqb s "!" then
    if negb (tt_in st [0; 2; 3; 6; 8]) then ISa
    else Ok (mkT (Some 11) (pend_after st) (flushed st))
  else if Ascii.eqb s "(" then
    if tt_is st 2 then ISm
    else Ok (mkT (Some 2) (pend_after st) ((2, PNone) :: flushed st))
  else if Ascii.eqb s ")" then
    if tt_is st 2 then ISm
    else Ok (mkT (Some 3) (pend_after st) ((3, PNone) :: flushed st))
  else if chr_in s organic_chars then
    Ok (mkT (Some 0) (pend_after st) ((0, PStr (str1 s)) :: flushed st))
  else if chr_in s aromatic_chars then
    Ok (mkT (Some 8) (pend_after st) ((8, PStr (str1 (upper s))) :: flushed st))
  else if chr_in s cb_chars then
    Ok (mkT (Some 0) (PdStr (str1 s)) (flushed st))
  else if tt_is st 0 then
    if Ascii.eqb s "l" then
      match t_pend st with
      | PdStr "C" => Ok (mkT (t_type st) PdNone ((0, PStr "Cl") :: t_toks st))
      | _ => ISm
      end
    else if Ascii.eqb s "r" then
      match t_pend st with
      | PdStr "B" => Ok (mkT (t_type st) PdNone ((0, PStr "Br") :: t_toks st))
      | _ => ISm
      end
    else ISm
  else ISm.

(* the loop; the step is a parameter so that the guarded variant of TokenizeProofs shares it *)
Fixpoint tok_loop (step : tstate -> ascii -> pyres tstate) (st : tstate) (l : list ascii) : pyres tstate :=
  match l with
  | [] => Ok st
  | c :: r => match step st c with Ok st' => tok_loop step st' r | Err e => Err e end
  end.

Definition tok_finish (st : tstate) : pyres (list token) :=
  if tt_is st 5 then ISm
  else if tt_is st 7 then
    if truthy (t_pend st) then
      match t_pend st with
      | PdChars (c :: _) => match py_int [c] with Ok v => Ok (rev ((6, PInt v) :: t_toks st)) | Err e => Err e end
      | _ => Err OtherError
      end
    else ISm
  else if tt_is st 11 then ISa                       (* a '!' with no bond symbol after it *)
  else if tt_is st 12 then ISa                       (* an unfinished ring-bond mark ';' / ';!' *)
  else Ok (rev (flushed st)).

Definition tokenize_raw_with (step : tstate -> ascii -> pyres tstate) (s : string) : pyres (list token) :=
  match tok_loop step t_init (list_ascii_of_string s) with
  | Ok st => tok_finish st
  | Err e => Err e
  end.
Definition tokenize_raw : string -> pyres (list token) := tokenize_raw_with tok_step.

(* ------------------------------------------------------------------------------------------------ _atom_parse *)
(* atom_re, written as the deterministic greedy matcher it is equivalent to (TokenTables.atom_re_src is pinned to
   the pattern this was written for; no alternative of the pattern can succeed where the greedy choice fails,
   because the characters that may follow each optional group are disjoint from what the group may still consume):
     ([1-9][0-9]{0,2})?([A-IK-PR-Zacnopsbt][a-ik-pr-vy]?)(@@|@)?(H[1-4]?)?([+-][1-4+-]?)?(:[0-9]+)?   fullmatch *)
Definition in_range (c : ascii) (a b : ascii) : bool := (code a <=? code c) && (code c <=? code b).
Definition el_first (c : ascii) : bool :=
  in_range c "A" "I" || in_range c "K" "P" || in_range c "R" "Z" || chr_in c "acnopsbt".
Definition el_second (c : ascii) : bool :=
  in_range c "a" "i" || in_range c "k" "p" || in_range c "r" "v" || Ascii.eqb c "y".
Definition chg_second (c : ascii) : bool := in_range c "1" "4" || Ascii.eqb c "+" || Ascii.eqb c "-".

(* up to n more characters satisfying f *)
Fixpoint take_upto (n : nat) (f : ascii -> bool) (l : list ascii) : list ascii * list ascii :=
  match n, l with
  | S k, c :: r => if f c then let '(a, b) := take_upto k f r in (c :: a, b) else ([], l)
  | _, _ => ([], l)
  end.

(* all leading characters satisfying f *)
Fixpoint take_while (f : ascii -> bool) (l : list ascii) : list ascii * list ascii :=
  match l with
  | c :: r => if f c then let '(a, b) := take_while f r in (c :: a, b) else ([], l)
  | [] => ([], [])
  end.

Record atom_groups := mkGroups {
  g_iso : option (list ascii); g_el : list ascii; g_stereo : option (list ascii);
  g_h : option (list ascii); g_chg : option (list ascii); g_map : option (list ascii) }.

Definition atom_re_match (l : list ascii) : option atom_groups :=
  (* isotope *)
  let '(iso, l1) := match l with
                    | c :: r => if in_range c "1" "9" then let '(d, r') := take_upto 2 is_digit r in (Some (c :: d), r')
                                else (None, l)
                    | [] => (None, l)
                    end in
  (* element: mandatory *)
  match l1 with
  | [] => None
  | e1 :: r1 =>
    if negb (el_first e1) then None else
    let '(e2, l2) := take_upto 1 el_second r1 in
    (* stereo *)
    let '(st, l3) := match l2 with
                     | "@"%char :: "@"%char :: r => (Some ["@"%char; "@"%char], r)
                     | "@"%char :: r => (Some ["@"%char], r)
                     | _ => (None, l2)
                     end in
    (* hydrogens *)
    let '(h, l4) := match l3 with
                    | "H"%char :: r => let '(d, r') := take_upto 1 (fun c => in_range c "1" "4") r in (Some ("H"%char :: d), r')
                    | _ => (None, l3)
                    end in
    (* charge *)
    let '(ch, l5) := match l4 with
                     | c :: r => if Ascii.eqb c "+" || Ascii.eqb c "-"
                                 then let '(d, r') := take_upto 1 chg_second r in (Some (c :: d), r')
                                 else (None, l4)
                     | [] => (None, l4)
                     end in
    (* mapping *)
    let '(mp, l6) := match l5 with
                     | ":"%char :: (d1 :: r) => if is_digit d1 then let '(d, r') := take_while is_digit r in (Some (":"%char :: d1 :: d), r')
                                                else (None, l5)
                     | _ => (None, l5)
                     end in
    match l6 with
    | [] => Some (mkGroups iso (e1 :: e2) st h ch mp)
    | _ => None
    end
  end.

Definition opt_bind_res {A B} (o : option A) (f : A -> pyres B) : pyres (option B) :=
  match o with None => Ok None | Some a => match f a with Ok b => Ok (Some b) | Err e => Err e end end.

Definition atom_parse (tok : string) : pyres token :=
  match atom_re_match (list_ascii_of_string tok) with
  | None => ISm
  | Some g =>
    match opt_bind_res (g_iso g) py_int with                                  (* int(isotope) *)
    | Err e => Err e
    | Ok iso =>
      let stereo := match g_stereo g with Some s => Some (list_eqb Ascii.eqb s ["@"%char]) | None => None end in
      match (match g_h g with
             | Some (_ :: (_ :: _) as d) => py_int d       (* int(hydrogen[1:]) *)
             | Some _ => Ok 1
             | None => Ok 0
             end) with
      | Err e => Err e
      | Ok hyd =>
        match (match g_chg g with
               | Some c => match sget charge_dict (string_of_list_ascii c) with Some v => Ok v | None => ISm end   (* KeyError caught *)
               | None => Ok 0
               end) with
        | Err e => Err e
        | Ok chg =>
          match opt_bind_res (g_map g) (fun m => match py_int (tl m) with Ok v => Ok v | Err _ => ISm end) with  (* ValueError caught *)
          | Err e => Err e
          | Ok mp =>
            let el := string_of_list_ascii (g_el g) in
            if smem el aromatic_elements
            then Ok (8, PAtom (mkAt (capitalize el) iso mp chg (Some hyd) stereo))
            else Ok (0, PAtom (mkAt el iso mp chg (Some hyd) stereo))
          end
        end
      end
    end
  end.

(* ------------------------------------------------------------------------------------------------ smiles_tokenize *)
Fixpoint post_tokens (l : list token) : pyres (list token) :=
  match l with
  | [] => Ok []
  | (ty, p) :: r =>
    match (if zmem ty [0; 8] then
             match p with PStr s => Ok (ty, PAtom (simple_atom s)) | _ => Err OtherError end
           else if ty =? 5 then
             match p with PStr s => atom_parse s | _ => Err OtherError end
           else if zmem ty [10; 12] then ISm                       (* SMARTS detected *)
           else Ok (ty, p)) with
    | Err e => Err e
    | Ok t => match post_tokens r with Ok r' => Ok (t :: r') | Err e => Err e end
    end
  end.

Definition tokenize_with (step : tstate -> ascii -> pyres tstate) (s : string) : pyres (list token) :=
  match tokenize_raw_with step s with Ok l => post_tokens l | Err e => Err e end.
Definition tokenize : string -> pyres (list token) := tokenize_with tok_step.

(* ------------------------------------------------------------------------------------------------ equality (for the correspondence) *)
Definition atomtok_eqb (a b : atomtok) : bool :=
  String.eqb (at_el a) (at_el b) && option_eqb Z.eqb (at_iso a) (at_iso b) && option_eqb Z.eqb (at_map a) (at_map b) &&
  (at_chg a =? at_chg b) && option_eqb Z.eqb (at_h a) (at_h b) && option_eqb Bool.eqb (at_stereo a) (at_stereo b).
Definition payload_eqb (a b : payload) : bool :=
  match a, b with
  | PNone, PNone => true
  | PStr x, PStr y => String.eqb x y
  | PInt x, PInt y => x =? y
  | PBool x, PBool y => Bool.eqb x y
  | PZs x, PZs y => list_eqb Z.eqb x y
  | PQB x i, PQB y j => list_eqb Z.eqb x y && Bool.eqb i j
  | PChars x, PChars y => list_eqb Ascii.eqb x y
  | PAtom x, PAtom y => atomtok_eqb x y
  | _, _ => false
  end.
Definition token_eqb (a b : token) : bool := (fst a =? fst b) && payload_eqb (snd a) (snd b).
Definition tokens_res_eqb (a b : pyres (list token)) : bool := pyres_eqb (list_eqb token_eqb) a b.

(* ------------------------------------------------------------------------------------------------ text form of results
   (used only by the correspondence runner harness/checks/C03.py, which prints the implementation's results in the
   same form and compares texts; batches are joined by new lines) *)
From Coq Require DecimalString.
Open Scope string_scope.
Definition show_z (z : Z) : string := DecimalString.NilZero.string_of_int (Z.to_int z).
Definition show_opt {A} (f : A -> string) (o : option A) : string := match o with None => "-" | Some a => f a end.
Definition show_bool (b : bool) : string := if b then "T" else "F".
Definition show_zs (l : list Z) : string := "[" ++ String.concat "," (map show_z l) ++ "]".
Definition show_atom (a : atomtok) : string :=
  "{" ++ at_el a ++ "|" ++ show_opt show_z (at_iso a) ++ "|" ++ show_opt show_z (at_map a) ++ "|" ++ show_z (at_chg a) ++ "|" ++
  show_opt show_z (at_h a) ++ "|" ++ show_opt show_bool (at_stereo a) ++ "}".
Definition show_payload (p : payload) : string :=
  match p with
  | PNone => "~"
  | PStr s => "'" ++ s ++ "'"
  | PInt z => "i" ++ show_z z
  | PBool b => show_bool b
  | PZs l => show_zs l
  | PQB l b => "q" ++ show_zs l ++ show_bool b
  | PChars l => "c'" ++ string_of_list_ascii l ++ "'"
  | PAtom a => show_atom a
  end.
Definition show_token (t : token) : string := show_z (fst t) ++ show_payload (snd t).
Definition show_exn (e : pyexn) : string :=
  match e with
  | IncorrectSmiles => "!S" | IncorrectSmarts => "!A" | ValueError => "!V" | IndexError => "!I" | KeyError => "!K"
  | TypeError => "!T" | AttributeError => "!U" | _ => "!?"
  end.
Definition show_res {A} (f : A -> string) (r : pyres A) : string := match r with Ok a => f a | Err e => show_exn e end.
Definition show_tokens (l : list token) : string := String.concat " " (map show_token l).
Definition nl : string := String "010"%char EmptyString.
(* all one-character extensions of a prefix *)
Definition sweep (prefix alpha : string) : list string := map (fun c => prefix ++ str1 c) (list_ascii_of_string alpha).
Definition batch {A} (f : A -> string) (inputs : list A) (expected : string) : bool :=
  String.eqb (String.concat nl (map f inputs)) expected.
Definition b_raw (inputs : list string) := batch (fun s => show_res show_tokens (tokenize_raw s)) inputs.
Definition b_tok (inputs : list string) := batch (fun s => show_res show_tokens (tokenize s)) inputs.
Definition b_atom (inputs : list string) := batch (fun s => show_res show_token (atom_parse s)) inputs.
(* a string given by its character codes (for characters that cannot be written in a literal) *)
Definition of_codes (l : list Z) : string := string_of_list_ascii (map (fun z => ascii_of_N (Z.to_N z)) l).
Close Scope string_scope.
