(* Semantic primitives for the TRANSLATED CXSMILES fragment-contraction block of smiles.py:smiles() (tools/gen_c03cx.py ->
   Gen.ContractBody).  Besides these, the generated code uses the helper functions of Model.Reader as primitives for the Python
   expression forms they model: cr_joined src shift c = '.'.join(src[x - shift] for x in c); cr_set_new nm i v = `nm[i] = v`;
   cr_fill src shift xs nm = `for x in xs: nm[x] = src[x - shift]`; zdiff = set.difference_update; subset_z c s = s.issuperset(c);
   cr_some = [x for x in <list> if x is not None]; zrange a b = set(range(a, b)) (iterated in increasing order). *)
From Coq Require Import ZArith List Bool Ascii.
From Model Require Import PyBase Tokenize Parser Reader.
Import ListNotations.
Open Scope Z_scope.

Definition cbind {A B} (r : pyres A) (f : A -> pyres B) : pyres B := match r with Ok v => f v | Err e => Err e end.
(* c[0] *)
Definition py_head (c : list Z) : pyres Z := match c with x :: _ => Ok x | [] => Err IndexError end.
(* for c in contract: <step> *)
Fixpoint cfold {S} (f : S -> list Z -> pyres S) (st : S) (cs : list (list Z)) : pyres S :=
  match cs with
  | [] => Ok st
  | c :: r => match f st c with Ok st' => cfold f st' r | Err e => Err e end
  end.
(* <list>[lo:hi] with Python's rules: a missing bound is the end of the list, a negative bound counts from the end, bounds are clamped *)
Definition py_slice {A} (l : list A) (lo hi : option Z) : list A :=
  let n := Z.of_nat (List.length l) in
  let norm (o : option Z) (d : Z) := match o with None => d | Some i => let j := if i <? 0 then i + n else i in Z.max 0 (Z.min j n) end in
  let a := norm lo 0 in
  let b := norm hi n in
  firstn (Z.to_nat (b - a)) (skipn (Z.to_nat a) l).
