(* Model of MorganFingerprint.morgan_hash_smiles / morgan_smiles_hash (morgan.py) (C17, second extension round (2)).

     smiles_dict = defaultdict(set)
     for radius, hash_dict in enumerate(self._morgan_hash_dict(min_radius, max_radius), min_radius - 1):
         for atom, morgan_hash in hash_dict.items():
             smiles_dict[morgan_hash].add(format(self.augmented_substructure((atom,), deep=radius), 'A'))
     return {k: sorted(v) for k, v in smiles_dict.items()}

   augmented_substructure((atom,), deep) = substructure of the atoms within `deep` bonds of atom
   (MoleculeContainer._augmented_substructure: nodes = [{atom}]; deep times: n = neighbours(nodes[-1]) | nodes[-1]; stop early
   when n was already seen; the last set).  Modelled: the atom set `ball g atom deep`.
   NOT modelled, a parameter: cs g S = format(self.substructure(S), 'A'), the canonical string of the substructure on the atom
   set S (substructure construction with hydrogen recalculation and stereo fixing + the SMILES writer of C01).  The
   correspondence check feeds the strings observed on the implementation.
   Values are sets of strings (duplicate-free lists, compared as sets; the final sorted() is a function of the set). *)
From Coq Require Import String ZArith List Bool.
From Model Require Import PyBase Graph PyHash Fingerprint LinearSmiles.
Import ListNotations.
Open Scope Z_scope.

(* n = {y for x in nodes[-1] for y in bonds[x]} | nodes[-1]   (as a duplicate-free list) *)
Fixpoint dedup_z_acc (seen l : list Z) : list Z :=
  match l with
  | [] => []
  | x :: r => if zmem x seen then dedup_z_acc seen r else x :: dedup_z_acc (x :: seen) r
  end.
Definition expand (g : mol) (l : list Z) : list Z := dedup_z_acc [] (l ++ flat_map (nbr_ids g) l).
Fixpoint ball_from (g : mol) (r : nat) (l : list Z) : list Z :=
  match r with
  | O => l
  | S r' => ball_from g r' (expand g l)
  end.
Definition ball (g : mol) (a : Z) (r : nat) : list Z := ball_from g r [a].

Section MorganSmiles.
  Variable h : list Z -> Z.
  Variable cs : mol -> list Z -> string.

  (* the (hash, SMILES) pairs in the order of the two loops *)
  Definition mhs_level (g : mol) (radius : nat) (d : list (Z * Z)) : list (Z * string) :=
    map (fun kv => (snd kv, cs g (ball g (fst kv) radius))) d.
  Definition mhs_pairs (g : mol) (lo : Z) (ds : list (list (Z * Z))) : list (Z * string) :=
    flat_map (fun rd => mhs_level g (fst rd) (snd rd)) (combine (seq (Z.to_nat (lo - 1)) (length ds)) ds).
  Definition sdict_of (pairs : list (Z * string)) : list (Z * list string) :=
    fold_left (fun d kv => sdict_add d (fst kv) (snd kv)) pairs [].

  Definition morgan_hash_smiles (g : mol) (lo hi : Z) : pyres (list (Z * list string)) :=
    match morgan_hash_dict h g lo hi with
    | Ok ds => Ok (sdict_of (mhs_pairs g lo ds))
    | Err e => Err e
    end.
End MorganSmiles.

(* morgan_smiles_hash:
     out = defaultdict(list)
     for k, sl in self.morgan_hash_smiles(min_radius, max_radius).items():
         for s in sl: out[s].append(k)
     return dict(out)                                                    *)
Fixpoint strdict_append (d : list (string * list Z)) (s : string) (k : Z) : list (string * list Z) :=
  match d with
  | [] => [(s, [k])]
  | (s', ks) :: r => if String.eqb s s' then (s', ks ++ [k]) :: r else (s', ks) :: strdict_append r s k
  end.
Definition smiles_hash_of (d : list (Z * list string)) : list (string * list Z) :=
  fold_left (fun out ksl => fold_left (fun out s => strdict_append out s (fst ksl)) (snd ksl) out) d [].
Definition morgan_smiles_hash (h : list Z -> Z) (cs : mol -> list Z -> string) (g : mol) (lo hi : Z)
    : pyres (list (string * list Z)) :=
  match morgan_hash_smiles h cs g lo hi with
  | Ok d => Ok (smiles_hash_of d)
  | Err e => Err e
  end.
Fixpoint strget (d : list (string * list Z)) (s : string) : list Z :=
  match d with
  | [] => []
  | (s', ks) :: r => if String.eqb s s' then ks else strget r s
  end.

(* the canonical strings observed on the implementation, as a function: table of (sorted atom set, string) *)
Fixpoint cs_lookup (t : list (list Z * string)) (k : list Z) : string :=
  match t with
  | [] => EmptyString
  | (k', s) :: r => if list_eqb Z.eqb k k' then s else cs_lookup r k
  end.
Definition cs_of (t : list (list Z * string)) (g : mol) (S : list Z) : string := cs_lookup t (set_z S).
