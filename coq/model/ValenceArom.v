(* C04 extension -- additions to Model.Valence (which stays unchanged: C05 and C14 use it).
     1. the delocalised (aromatic) branch of MoleculeContainer.calc_implicit as a closed form, the Kekule spelling of an
        aromatic environment, and the enumeration of the aromatic environment space of the exhaustive correspondence;
     2. Graph.union (chython/containers/graph.py), MoleculeContainer.substructure and MoleculeContainer.split
        (chython/containers/molecule.py) as far as atoms, bonds and hydrogen counts go (stereo labels and ring labels are
        not part of this model: fix_stereo / calc_labels do not touch hydrogen counts). *)
From Coq Require Import ZArith List String Bool.
From Model Require Import PyBase Graph PeriodicTable Valence.
From Gen Require Import Elements.
Import ListNotations.
Open Scope Z_scope.

(* ------------------------------------------------------------------------------------------------
   1. aromatic branch
   ------------------------------------------------------------------------------------------------ *)
(* number of aromatic bonds of the atom; sum of the orders of its localised bonds (order-8 bonds are ignored) *)
Definition arom_bonds (e : env) : Z := Z.of_nat (List.length (filter (fun oz => fst oz =? 4) e)).
Definition sigma_sum (e : env) : Z :=
  fold_right (fun oz acc => if (fst oz =? 4) || (fst oz =? 8) then acc else fst oz + acc) 0 e.
Definition has_arom (e : env) : bool := existsb (fun oz => fst oz =? 4) e.

(* "only neutral carbon aromatic rings supported" *)
Definition arom_supported (num chg : Z) (rad : bool) : bool := (chg =? 0) && negb rad && (num =? 6).

(* what calc_implicit stores for a non-hydrogen atom that has at least one aromatic bond (all neighbours exist):
     not a neutral, non-radical carbon                      -> None   ("use kekule()")
     2 aromatic bonds, nothing else                         -> 1      (H-Ar)
     2 aromatic bonds, localised orders summing to 1        -> 0      (R-Ar)
     3 aromatic bonds, nothing else                         -> 0      (condensed rings)
     everything else                                        -> None   (invalid aromaticity)            *)
Definition arom_h (num chg : Z) (rad : bool) (e : env) : option Z :=
  if arom_supported num chg rad then
    if arom_bonds e =? 2 then (if sigma_sum e =? 0 then Some 1 else if sigma_sum e =? 1 then Some 0 else None)
    else if arom_bonds e =? 3 then (if sigma_sum e =? 0 then Some 0 else None)
    else None
  else None.

(* Kekule spelling of an aromatic environment: the first aromatic bond becomes double, the others single *)
Fixpoint kekule_env (first : bool) (e : env) : env :=
  match e with
  | [] => []
  | (o, z) :: r => if o =? 4 then (if first then 2 else 1, z) :: kekule_env false r else (o, z) :: kekule_env first r
  end.

(* the space of the exhaustive aromatic correspondence: ORDERED neighbour lists (so that the real code is exercised in
   every neighbour order) of length <= 4 over nine bond types and of length 5 over three, with an aromatic bond *)
Fixpoint seqs (alpha : list (Z * Z)) (k : nat) : list env :=
  match k with
  | O => [[]]
  | S k' => flat_map (fun x => map (cons x) (seqs alpha k')) alpha
  end.
Definition arom_alpha9 : list (Z * Z) := [(4, 6); (4, 7); (1, 6); (1, 8); (2, 8); (2, 6); (3, 6); (8, 26); (1, 1)].
Definition arom_alpha3 : list (Z * Z) := [(4, 6); (1, 6); (2, 8)].
Definition arom_space : list env :=
  filter has_arom (flat_map (seqs arom_alpha9) [1; 2; 3; 4]%nat ++ seqs arom_alpha3 5%nat).

(* ------------------------------------------------------------------------------------------------
   2. union / substructure / split
   ------------------------------------------------------------------------------------------------ *)
(* the two dictionaries concatenated: dict.update with disjoint keys *)
Definition union_cat (g1 g2 : mol) : mol := mkMol (m_atoms g1 ++ m_atoms g2) (m_adj g1 ++ m_adj g2).

(* max(self._atoms) of a non-empty dictionary *)
Definition max_id (g : mol) : Z := fold_left Z.max (ids g) (match ids g with x :: _ => x | [] => 0 end).

(* {n: i for i, n in enumerate(other, start=s)} applied with mapping.get(n, n) *)
Definition renum_of (g : mol) (s : Z) (n : Z) : Z :=
  match index_of (ids g) n with Some i => s + i | None => n end.
(* other.remap(mapping): atoms and both levels of the bond dictionary renamed, order kept *)
Definition renumber (g : mol) (s : Z) : mol :=
  mkMol (map (fun na => (renum_of g s (fst na), snd na)) (m_atoms g))
        (map (fun nl => (renum_of g s (fst nl), map (fun mb => (renum_of g s (fst mb), snd mb)) (snd nl))) (m_adj g)).

(* Graph.union(other, remap=..., copy=True); MappingError is a ValueError.  The copies keep every hydrogen count
   (Element.copy(full=True)); nothing is recalculated *)
Definition union_py (g1 g2 : mol) (remap : bool) : pyres mol :=
  if existsb (fun k => zmem k (ids g1)) (ids g2) then
    (if remap then Ok (union_cat g1 (renumber g2 (max_id g1 + 1))) else Err ValueError)
  else Ok (union_cat g1 g2).

Definition clear_h (a : atom) : atom := mkAtom (a_num a) (a_iso a) (a_chg a) (a_rad a) None (a_stereo a).

(* sub._atoms = {n: self._atoms[n].copy(hydrogens=not recalculate_hydrogens, stereo=True) for n in atoms}, atoms in the
   order of the molecule *)
Definition sub_atoms (g : mol) (sel : list Z) (recalc : bool) : list (Z * atom) :=
  map (fun na => (fst na, if recalc then clear_h (snd na) else snd na)) (filter (fun na => zmem (fst na) sel) (m_atoms g)).

(* sub._bonds: for n in atoms: {m: bond for m, bond in self._bonds[n].items() if m in atoms}; KeyError when an atom has
   no bond dictionary.  (The code takes the bond object of an already copied neighbour from sb[m][n]: on a symmetric bond
   dictionary - every molecule the public API can build - that is the same order; an asymmetric one is outside this model.) *)
Fixpoint sub_adj (g : mol) (sel : list Z) (ns : list Z) : pyres (list (Z * list (Z * bond))) :=
  match ns with
  | [] => Ok []
  | n :: r => match zget (m_adj g) n with
              | None => Err KeyError
              | Some nb => match sub_adj g sel r with
                           | Err e => Err e
                           | Ok rest => Ok ((n, filter (fun mb => zmem (fst mb) sel) nb) :: rest)
                           end
              end
  end.

(* MoleculeContainer.substructure(atoms, recalculate_hydrogens=...) *)
Definition substructure (g : mol) (sel : list Z) (recalc : bool) : pyres mol :=
  match sel with
  | [] => Err ValueError                                             (* empty atoms list not allowed *)
  | _ =>
      if negb (forallb (fun k => zmem k (ids g)) sel) then Err ValueError     (* invalid atom numbers *)
      else
        let atoms := sub_atoms g sel recalc in
        match sub_adj g sel (keys atoms) with
        | Err e => Err e
        | Ok adj => if recalc then fix_hydrogens (mkMol atoms adj) else Ok (mkMol atoms adj)
        end
  end.

(* [self.substructure(c, recalculate_hydrogens=False) for c in self.connected_components]; the components are an input
   (ring / component perception is property C06) *)
Fixpoint split_with (g : mol) (comps : list (list Z)) : pyres (list mol) :=
  match comps with
  | [] => Ok []
  | c :: r => match substructure g c false with
              | Err e => Err e
              | Ok s => match split_with g r with Err e => Err e | Ok l => Ok (s :: l) end
              end
  end.

(* a set of atoms that no bond (of any order, 8 included) leaves *)
Definition closed_sel (g : mol) (sel : list Z) : bool :=
  forallb (fun nl => negb (zmem (fst nl) sel) || forallb (fun mb => zmem (fst mb) sel) (snd nl)) (m_adj g).
(* the components cover every atom exactly once *)
Definition is_partition (g : mol) (comps : list (list Z)) : bool :=
  forallb (fun n => Nat.eqb (List.length (filter (fun c => zmem n c) comps)) 1) (ids g) &&
  forallb (fun c => forallb (fun k => zmem k (ids g)) c && nodup_z c) comps.

(* ------------------------------------------------------------------------------------------------
   3. comparison helpers for the correspondence runner
   ------------------------------------------------------------------------------------------------ *)
(* what the hydrogen model sees of a molecule: atoms (number, isotope, charge, radical, hydrogens) and bond orders, in
   dictionary order *)
Definition atom_core_eqb (a b : atom) : bool :=
  (a_num a =? a_num b) && option_eqb Z.eqb (a_iso a) (a_iso b) && (a_chg a =? a_chg b) && Bool.eqb (a_rad a) (a_rad b) &&
  option_eqb Z.eqb (a_h a) (a_h b).
Definition mol_core_eqb (g h : mol) : bool :=
  list_eqb (pair_eqb Z.eqb atom_core_eqb) (m_atoms g) (m_atoms h) &&
  list_eqb (pair_eqb Z.eqb (list_eqb (pair_eqb Z.eqb (fun a b => b_ord a =? b_ord b)))) (m_adj g) (m_adj h).

Definition union_case (g1 g2 : mol) (remap : bool) (expected : pyres mol) : bool :=
  pyres_eqb mol_core_eqb (union_py g1 g2 remap) expected.
Definition sub_case (g : mol) (sel : list Z) (recalc : bool) (expected : pyres mol) : bool :=
  pyres_eqb mol_core_eqb (substructure g sel recalc) expected.
Definition split_case (g : mol) (comps : list (list Z)) (expected : pyres (list mol)) : bool :=
  pyres_eqb (list_eqb mol_core_eqb) (split_with g comps) expected &&
  is_partition g comps && forallb (closed_sel g) comps.
(* the closed form against the model of the loop, and the Kekule spelling through the localised rules *)
Definition arom_case (sym : string) (chg : Z) (rad : bool) (e : env) (code : Z) : bool :=
  match from_symbol sym with
  | Some el => (calc_code (calc_env (compiled_rules el) (e_num el) chg rad e) =? code) &&
               (if has_arom e && negb (e_num el =? 1) then calc_code (Ok (arom_h (e_num el) chg rad e)) =? code else true)
  | None => false
  end.

(* ------------------------------------------------------------------------------------------------
   4. Standardize.implicify_hydrogens (chython/algorithms/standardize/molecule.py): atoms, bonds and hydrogen counts of the
      result (calc_labels / fix_stereo afterwards do not touch hydrogen counts)
   ------------------------------------------------------------------------------------------------ *)
(* atom == H and (atom.isotope is None or atom.isotope == 1) *)
Definition plain_h (a : atom) : bool := (a_num a =? 1) && match a_iso a with None => true | Some i => i =? 1 end.

(* explicit[m].append(n) on a defaultdict(list) *)
Fixpoint lappend (d : list (Z * list Z)) (k v : Z) : list (Z * list Z) :=
  match d with
  | [] => [(k, [v])]
  | (k', l) :: r => if k =? k' then (k', l ++ [v]) :: r else (k', l) :: lappend r k v
  end.

(* for m, b in bonds[n].items(): single bond to a non-hydrogen -> explicit[m].append(n); order 8 ignored; other orders raise *)
Fixpoint h_bonds (g : mol) (n : Z) (nb : list (Z * bond)) (ex : list (Z * list Z)) : pyres (list (Z * list Z)) :=
  match nb with
  | [] => Ok ex
  | (m, b) :: r =>
      if b_ord b =? 1 then
        match atom_of g m with
        | None => Err KeyError
        | Some am => if a_num am =? 1 then h_bonds g n r ex else h_bonds g n r (lappend ex m n)
        end
      else if negb (b_ord b =? 8) then Err ValenceError
      else h_bonds g n r ex
  end.

Fixpoint collect_explicit (g : mol) (l : list (Z * atom)) (ex : list (Z * list Z)) : pyres (list (Z * list Z)) :=
  match l with
  | [] => Ok ex
  | (n, a) :: r =>
      if plain_h a then
        match zget (m_adj g) n with
        | None => Err KeyError
        | Some nb =>
            if 1 <? Z.of_nat (List.length (filter (fun mb => negb (b_ord (snd mb) =? 8)) nb)) then Err ValenceError
            else match h_bonds g n nb ex with Err e => Err e | Ok ex' => collect_explicit g r ex' end
        end
      else collect_explicit g r ex
  end.

(* the bonds of the atom that stay when the hydrogens hi go: every order counts as written (an aromatic bond as 4) *)
Fixpoint scan_rest (g : mol) (hi : list Z) (nb : list (Z * bond)) (sum : Z) (d : edict) : pyres (Z * edict) :=
  match nb with
  | [] => Ok (sum, d)
  | (m, b) :: r =>
      if negb (zmem m hi) && negb (b_ord b =? 8) then
        match atom_of g m with
        | None => Err KeyError
        | Some am => scan_rest g hi r (sum + b_ord b) (eincr d (b_ord b, a_num am))
        end
      else scan_rest g hi r sum d
  end.

(* for s, d, h in rules: if <matches> and h >= i: ...  -- the first rule that has room for the i hydrogens *)
Fixpoint first_rule_ge (rs : list rule) (d : edict) (i : Z) : option Z :=
  match rs with
  | [] => None
  | r :: rest => if rule_matches r d && (i <=? r_h r) then Some (r_h r) else first_rule_ge rest d i
  end.

(* for i in range(len_h, 0, -1): try to make the first i hydrogens implicit; a ValenceError of the lookup ends the attempts *)
Fixpoint try_remove (g : mol) (a : atom) (nb : list (Z * bond)) (hs : list Z) (i : nat) : pyres (option (Z * list Z)) :=
  match i with
  | O => Ok None
  | S i' =>
      let hi := firstn i hs in
      match scan_rest g hi nb 0 [] with
      | Err e => Err e
      | Ok (sum, d) =>
          match lookup_rules (rules_of_atom a) (a_chg a) (a_rad a) sum with
          | Err ValenceError => Ok None
          | Err e => Err e
          | Ok rules => match first_rule_ge rules d (Z.of_nat i) with
                        | Some h => Ok (Some (h, hi))
                        | None => try_remove g a nb hs i'
                        end
          end
      end
  end.

(* second loop: (to_remove, fixed) *)
Fixpoint decide_all (g : mol) (ex : list (Z * list Z)) (rem : list Z) (fixed : list (Z * Z)) : pyres (list Z * list (Z * Z)) :=
  match ex with
  | [] => Ok (rem, fixed)
  | (n, hs) :: r =>
      match atom_of g n, zget (m_adj g) n with
      | Some a, Some nb =>
          match try_remove g a nb hs (List.length hs) with
          | Err e => Err e
          | Ok None => decide_all g r rem fixed
          | Ok (Some (h, hi)) => decide_all g r (rem ++ hi) (fixed ++ [(n, h)])
          end
      | _, _ => Err KeyError
      end
  end.

Definition implicify (g : mol) : pyres mol :=
  match collect_explicit g (m_atoms g) [] with
  | Err e => Err e
  | Ok ex =>
      match decide_all g ex [] [] with
      | Err e => Err e
      | Ok (rem, fixed) =>
          Ok (mkMol (map (fun na => match zget fixed (fst na) with
                                    | Some h => (fst na, mkAtom (a_num (snd na)) (a_iso (snd na)) (a_chg (snd na)) (a_rad (snd na)) (Some h) (a_stereo (snd na)))
                                    | None => na
                                    end) (filter (fun na => negb (zmem (fst na) rem)) (m_atoms g)))
                    (map (fun nl => (fst nl, filter (fun mb => negb (zmem (fst mb) rem)) (snd nl)))
                         (filter (fun nl => negb (zmem (fst nl) rem)) (m_adj g))))
      end
  end.

Definition implicify_case (g : mol) (expected : pyres mol) : bool := pyres_eqb mol_core_eqb (implicify g) expected.

(* intermediate states of implicify_hydrogens read from the running function: the dictionary `explicit` after the first loop
   (insertion order), the set `to_remove` and the dictionary `fixed` after the second *)
Definition implicify_trace_case (g : mol) (ex : list (Z * list Z)) (rem : list Z) (fixed : list (Z * Z)) : bool :=
  match collect_explicit g (m_atoms g) [] with
  | Ok ex' =>
      list_eqb (pair_eqb Z.eqb (list_eqb Z.eqb)) ex' ex &&
      match decide_all g ex' [] [] with
      | Ok (rem', fixed') => same_keys_z rem' rem && list_eqb (pair_eqb Z.eqb Z.eqb) fixed' fixed
      | Err _ => false
      end
  | Err _ => false
  end.

(* every atom of ns carries the count calc_implicit gives it in this molecule (what fix_structure leaves behind for the atoms
   recorded as changed) *)
Definition fresh_on (g : mol) (ns : list Z) : bool :=
  forallb (fun n => match atom_of g n, calc_implicit g n with
                    | Some a, Ok v => option_eqb Z.eqb (a_h a) v
                    | _, _ => false
                    end) ns.
(* result of an edit history: the atoms the edits touched are fresh, every stored count is a valence state *)
Definition history_case (g : mol) (touched : list Z) (localised : bool) : bool :=
  fresh_on g touched && (if localised then stored_ok g else true).
