(* C10: the Python level entry point MoleculeContainer.pack(compressed=False, check=..., version=2): the format
   restrictions that are checked before the .pyx packer runs (molecule.py) *)
From Coq Require Import ZArith List Bool.
From Model Require Import PyBase Pack.
Import ListNotations.
Open Scope Z_scope.

(*  if check:
        bonds = self._bonds
        if not bonds: raise ValueError('Empty molecules not supported')
        if min(bonds) < 1 or max(bonds) > 4095: raise ValueError('Big molecules not supported')     (min: fix c3175c9)
        if any(len(x) > 15 for x in bonds.values()): raise ValueError('To many neighbors not supported')  *)
Definition py_max (l : list Z) (d : Z) : Z := match l with [] => d | x :: r => fold_left Z.max r x end.
Definition py_min (l : list Z) (d : Z) : Z := match l with [] => d | x :: r => fold_left Z.min r x end.

Definition mol_pack_check (m : pmol) : pyres unit :=
  match pm_atoms m with
  | [] => Err ValueError
  | _ => if (py_min (map pa_n (pm_atoms m)) 1 <? 1) || (4095 <? py_max (map pa_n (pm_atoms m)) 0) then Err ValueError
         else if existsb (fun a => (15 <? length (pa_nbrs a))%nat) (pm_atoms m) then Err ValueError
         else Ok tt
  end.

Definition mol_pack (check : bool) (m : pmol) : pyres (list Z) :=
  if check then match mol_pack_check m with Err e => Err e | Ok _ => pack m end else pack m.
