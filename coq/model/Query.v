(* C08 -- model of the query-atom / query-bond comparison methods (chython/periodictable/base/query.py,
   chython/containers/bonds.py), of the labels they read (MoleculeContainer.calc_labels), of the SMARTS bracket-atom
   parser _query_parse (chython/files/daylight/tokenize.py) with its four regex scans written as explicit functions,
   of the query-atom construction done by smarts() (class dispatch + the normalising setters), and of the
   tokenizer _tokenize (bond lists, not-bonds, ring bonds).  Definitions only. *)
From Coq Require Import ZArith List String Ascii Bool Lia.
From Model Require Import PyBase Graph PeriodicTable.
From Gen Require Import Elements.
Import ListNotations.
Open Scope Z_scope.

(* ------------------------------------------------------------------------------------------------------------ *)
(* 1. molecule atoms as the comparison methods see them: the Element attributes + the labels of calc_labels       *)

Record latom := mkLA {
  la_num : Z;               (* atomic_number *)
  la_iso : option Z;        (* isotope *)
  la_chg : Z;               (* charge *)
  la_rad : bool;            (* is_radical *)
  la_nb : Z;                (* neighbors *)
  la_hyb : Z;               (* hybridization 1..4 *)
  la_h : option Z;          (* implicit_hydrogens (None = valence error / unknown) *)
  la_het : Z;               (* heteroatoms *)
  la_rings : list Z         (* ring_sizes: a Python set; order irrelevant *)
}.

(* molecule bond as QueryBond.__eq__ sees it *)
Record lbond := mkLB { lb_ord : Z; lb_ring : bool }.

(* ------------------------------------------------------------------------------------------------------------ *)
(* 2. query atoms.  Tuple-valued fields are Python tuples ("empty tuple = unconstrained");
      x_rings_set = true when the object holds a *set* in _ring_sizes (only reachable by writing the private slot:
      from_atom(ring_sizes=True) stored one before fix e7bbf46; the field is kept for the C09 development)            *)

Record qx := mkQX {
  x_chg : Z; x_rad : bool;
  x_nb : list Z; x_hyb : list Z; x_h : list Z; x_het : list Z;
  x_rings : list Z; x_rings_set : bool
}.

Inductive qatom :=
| QElem (num : Z) (iso : option Z) (x : qx)     (* QueryElement subclass QueryXx *)
| QAny (x : qx)                                 (* AnyElement *)
| QList (nums : list Z) (x : qx)                (* ListElement: atomic_numbers *)
| QMetal (nb hyb : list Z).                     (* AnyMetal *)

Definition nonempty {A} (l : list A) : bool := match l with [] => false | _ => true end.
Definition disjoint_z (a b : list Z) : bool := forallb (fun x => negb (zmem x b)) a.
Definition opt_mem (o : option Z) (l : list Z) : bool := match o with Some v => zmem v l | None => false end.
(* Python truthiness of an Optional[int] *)
Definition iso_truthy (o : option Z) : bool := match o with Some i => negb (i =? 0) | None => false end.

(*  if self.ring_sizes:
        if self.ring_sizes[0]:
            if other.ring_sizes.isdisjoint(self.ring_sizes): return False
        elif other.ring_sizes: return False                                          *)
Definition ring_step (x : qx) (a : latom) : pyres bool :=
  match x_rings x with
  | [] => Ok true
  | r0 :: _ =>
      if x_rings_set x then Err TypeError                       (* 'set' object is not subscriptable *)
      else if negb (r0 =? 0) then Ok (negb (disjoint_z (la_rings a) (x_rings x)))
      else Ok (negb (nonempty (la_rings a)))
  end.

(* the common tail of QueryElement / AnyElement / ListElement.__eq__, from the neighbors test on *)
Definition match_tail (x : qx) (a : latom) : pyres bool :=
  if nonempty (x_nb x) && negb (zmem (la_nb a) (x_nb x)) then Ok false
  else if nonempty (x_hyb x) && negb (zmem (la_hyb a) (x_hyb x)) then Ok false
  else match ring_step x a with
       | Err e => Err e
       | Ok false => Ok false
       | Ok true =>
           if nonempty (x_h x) && negb (opt_mem (la_h a) (x_h x)) then Ok false
           else if nonempty (x_het x) && negb (zmem (la_het a) (x_het x)) then Ok false
           else Ok true
       end.

(* QueryElement.__eq__ *)
Definition match_q (num : Z) (iso : option Z) (x : qx) (a : latom) : pyres bool :=
  if negb (num =? la_num a) then Ok false
  else if negb (x_chg x =? la_chg a) then Ok false
  else if negb (Bool.eqb (x_rad x) (la_rad a)) then Ok false
  else if iso_truthy iso && negb (option_eqb Z.eqb iso (la_iso a)) then Ok false
  else match_tail x a.

(* AnyElement.__eq__ *)
Definition match_any (x : qx) (a : latom) : pyres bool :=
  if negb (x_chg x =? la_chg a) then Ok false
  else if negb (Bool.eqb (x_rad x) (la_rad a)) then Ok false
  else match_tail x a.

(* ListElement.__eq__ *)
Definition match_list (nums : list Z) (x : qx) (a : latom) : pyres bool :=
  if negb (zmem (la_num a) nums) then Ok false
  else if negb (x_chg x =? la_chg a) then Ok false
  else if negb (Bool.eqb (x_rad x) (la_rad a)) then Ok false
  else match_tail x a.

(* AnyMetal.__eq__: other.is_forming_single_bonds or isinstance(other, GroupXVIII) read from the generated tables *)
Definition non_metal (num : Z) : bool :=
  match from_number num with
  | Some e => e_single e || (e_group e =? 18)
  | None => false
  end.
Definition match_metal (nb hyb : list Z) (a : latom) : pyres bool :=
  if non_metal (la_num a) then Ok false
  else if nonempty nb && negb (zmem (la_nb a) nb) then Ok false
  else if nonempty hyb && negb (zmem (la_hyb a) hyb) then Ok false
  else Ok true.

Definition match_atom (q : qatom) (a : latom) : pyres bool :=
  match q with
  | QElem num iso x => match_q num iso x a
  | QAny x => match_any x a
  | QList nums x => match_list nums x a
  | QMetal nb hyb => match_metal nb hyb a
  end.

(* QueryBond.__eq__(Bond):  if self.in_ring is not None and self.in_ring != other.in_ring: False
                            return other.order in self.order *)
Record qbond := mkQB { qb_ord : list Z; qb_ring : option bool }.
Definition qbond_match (q : qbond) (b : lbond) : bool :=
  match qb_ring q with
  | Some r => if negb (Bool.eqb r (lb_ring b)) then false else zmem (lb_ord b) (qb_ord q)
  | None => zmem (lb_ord b) (qb_ord q)
  end.

(* QueryElement.from_atom(atom, neighbors, hybridization, heteroatoms, hydrogens, ring_sizes) (stereo left out);
   ring_sizes=True stores  tuple(sorted(atom.ring_sizes)) or (0,)  *)
Fixpoint insert_z (x : Z) (l : list Z) : list Z :=
  match l with [] => [x] | y :: r => if x <=? y then x :: l else y :: insert_z x r end.
Definition sort_z (l : list Z) : list Z := fold_right insert_z [] l.
Definition from_atom (a : latom) (f_nb f_hyb f_het f_h f_rings : bool) : qatom :=
  QElem (la_num a) (la_iso a)
    (mkQX (la_chg a) (la_rad a)
          (if f_nb then [la_nb a] else [])
          (if f_hyb then [la_hyb a] else [])
          (if f_h then match la_h a with Some h => [h] | None => [] end else [])
          (if f_het then [la_het a] else [])
          (if f_rings then match sort_z (la_rings a) with [] => [0] | l => l end else [])
          false).

(* ------------------------------------------------------------------------------------------------------------ *)
(* 3. calc_labels                                                                                                 *)

(* one iteration of the inner loop; state (neighbors, heteroatoms, hybridization, explicit_hydrogens);
   input (atomic number of the neighbour, bond order) *)
Definition label_step (st : Z * Z * Z * Z) (mb : Z * Z) : Z * Z * Z * Z :=
  let '(nb, het, hyb, eh) := st in
  let '(num, ord) := mb in
  if ord =? 8 then st
  else
    let hyb' :=
      if ord =? 4 then 4
      else if negb (hyb =? 4) then
             if ord =? 3 then 3
             else if ord =? 2 then (if hyb =? 1 then 2 else if hyb =? 2 then 3 else hyb)
             else hyb
           else hyb in
    (nb + 1,
     (if num =? 1 then het else if negb (num =? 6) then het + 1 else het),
     hyb',
     (if num =? 1 then eh + 1 else eh)).

Definition labels_of (env : list (Z * Z)) : Z * Z * Z * Z := fold_left label_step env (0, 0, 1, 0).

Definition atom_env (g : mol) (n : Z) : list (Z * Z) :=
  map (fun mb => (match atom_of g (fst mb) with Some a => a_num a | None => 0 end, b_ord (snd mb))) (nbrs g n).

(* ring marks from the SSSR (a list of rings, each a list of atom numbers; computed by C06's code) *)
Fixpoint dedup (l : list Z) : list Z :=
  match l with [] => [] | x :: r => if zmem x r then dedup r else x :: dedup r end.
Definition rings_of (sssr : list (list Z)) (n : Z) : list (list Z) := filter (fun r => zmem n r) sssr.
Definition ring_sizes_of (sssr : list (list Z)) (n : Z) : list Z :=
  dedup (map (fun r => Z.of_nat (List.length r)) (rings_of sssr n)).
Definition atom_in_ring (sssr : list (list Z)) (n : Z) : bool := nonempty (rings_of sssr n).
(* bond._in_ring = anr and amr and not anr.isdisjoint(amr): the two ends have a common SSSR ring *)
Definition bond_in_ring (sssr : list (list Z)) (n m : Z) : bool :=
  existsb (fun r => zmem n r && zmem m r) sssr.

Definition labelled (g : mol) (sssr : list (list Z)) (n : Z) : option latom :=
  match atom_of g n with
  | None => None
  | Some a =>
      let '(nb, het, hyb, _) := labels_of (atom_env g n) in
      Some (mkLA (a_num a) (a_iso a) (a_chg a) (a_rad a) nb hyb (a_h a) het (ring_sizes_of sssr n))
  end.

(* ------------------------------------------------------------------------------------------------------------ *)
(* 4. _query_parse.  Strings are lists of characters; domain of the model: ASCII without white space              *)

Definition str := list ascii.
Definition ch (c : ascii) : N := N_of_ascii c.
Definition is_digit (c : ascii) : bool := (48 <=? ch c)%N && (ch c <=? 57)%N.
Definition digit_val (c : ascii) : Z := Z.of_N (ch c) - 48.
Definition ceq (a b : ascii) : bool := Ascii.eqb a b.
Definition str_eqb (a b : str) : bool := list_eqb Ascii.eqb a b.

(* Horner evaluation of a digit string *)
Definition horner (ds : str) : Z := fold_left (fun acc c => acc * 10 + digit_val c) ds 0.

(* Python int(text) on ASCII text without white space: [+-]? digits ('_' digits)*  *)
Fixpoint int_body (l : str) (acc : Z) (prev_digit : bool) : option Z :=
  match l with
  | [] => if prev_digit then Some acc else None
  | c :: r =>
      if is_digit c then int_body r (acc * 10 + digit_val c) true
      else if ceq c "_" then (if prev_digit then match r with [] => None | _ => int_body r acc false end else None)
      else None
  end.
Definition py_int (l : str) : option Z :=
  match l with
  | "+"%char :: r => int_body r 0 false
  | "-"%char :: r => option_map Z.opp (int_body r 0 false)
  | _ => int_body l 0 false
  end.

Fixpoint span (p : ascii -> bool) (l : str) : str * str :=
  match l with
  | [] => ([], [])
  | c :: r => if p c then let '(a, b) := span p r in (c :: a, b) else ([], l)
  end.

(* re.search(r'[+-][1-4+-]?', token): (before, group, after) of the leftmost match *)
Definition is_sign (c : ascii) : bool := ceq c "+" || ceq c "-".
Definition is_chg2 (c : ascii) : bool := ((49 <=? ch c)%N && (ch c <=? 52)%N) || is_sign c.
Fixpoint chg_search (l : str) : option (str * str * str) :=
  match l with
  | [] => None
  | c :: r =>
      if is_sign c then
        match r with
        | d :: r' => if is_chg2 d then Some ([], [c; d], r') else Some ([], [c], r)
        | [] => Some ([], [c], [])
        end
      else match chg_search r with
           | Some (a, g, b) => Some (c :: a, g, b)
           | None => None
           end
  end.

(* charge_dict[group] for the groups the regex can produce; None = KeyError, which _query_parse turns into
   IncorrectSmarts('charge token invalid') *)
Definition charge_dict (g : str) : option Z :=
  match g with
  | ["+"%char] => Some 1 | ["+"%char; "1"%char] => Some 1 | ["+"%char; "+"%char] => Some 2 | ["+"%char; "2"%char] => Some 2
  | ["+"%char; "3"%char] => Some 3 | ["+"%char; "4"%char] => Some 4
  | ["-"%char] => Some (-1) | ["-"%char; "1"%char] => Some (-1) | ["-"%char; "-"%char] => Some (-2) | ["-"%char; "2"%char] => Some (-2)
  | ["-"%char; "3"%char] => Some (-3) | ["-"%char; "4"%char] => Some (-4)
  | _ => None
  end.

(* re.search(r':[1-9][0-9]*$', token): (before, digits) of the leftmost match *)
Definition mpp_here (r : str) : bool :=
  match r with
  | d :: ds => is_digit d && negb (ceq d "0") && forallb is_digit ds
  | [] => false
  end.
Fixpoint mpp_search (l : str) : option (str * str) :=
  match l with
  | [] => None
  | c :: r =>
      if ceq c ":" && mpp_here r then Some ([], r)
      else match mpp_search r with
           | Some (a, d) => Some (c :: a, d)
           | None => None
           end
  end.

(* re.search(r'@[@?]?', token) *)
Fixpoint str_search (l : str) : option (str * str * str) :=
  match l with
  | [] => None
  | c :: r =>
      if ceq c "@" then
        match r with
        | d :: r' => if ceq d "@" || ceq d "?" then Some ([], [c; d], r') else Some ([], [c], r)
        | [] => Some ([], [c], [])
        end
      else match str_search r with
           | Some (a, g, b) => Some (c :: a, g, b)
           | None => None
           end
  end.

(* text.split(sep): at least one piece, empty pieces kept *)
Fixpoint split_on (sep : ascii) (l : str) : list str :=
  match l with
  | [] => [[]]
  | c :: r =>
      match split_on sep r with
      | p :: ps => if ceq c sep then [] :: p :: ps else (c :: p) :: ps
      | [] => [[]]   (* unreachable *)
      end
  end.

Inductive elt := ENum (n : Z) | ESym (s : str).
Inductive ival := IInt (z : Z) | IList (l : list Z).

(* the dict returned by _query_parse (keys absent = None / false) *)
Record parsed := mkParsed {
  p_isotope : option Z; p_charge : option Z; p_mapping : option Z; p_stereo : option bool;
  p_element : list elt;           (* one item = the scalar case of the code, >= 2 items = a list *)
  p_nb : option (list Z); p_h : option (list Z); p_rings : option ival; p_het : option (list Z);
  p_hyb : option ival; p_masked : bool
}.

Fixpoint map_res {A B} (f : A -> pyres B) (l : list A) : pyres (list B) :=
  match l with
  | [] => Ok []
  | x :: r => match f x with
              | Err e => Err e
              | Ok y => match map_res f r with Err e => Err e | Ok ys => Ok (y :: ys) end
              end
  end.

(* [int(x[1:]) if x.startswith('#') else x for x in element.split(',')] *)
Definition parse_elt (x : str) : pyres elt :=
  match x with
  | "#"%char :: r => match py_int r with Some n => Ok (ENum n) | None => Err ValueError end
  | _ => Ok (ESym x)
  end.

Definition first_chars_res (ps : list str) : pyres (list ascii) :=
  map_res (fun x => match x with c :: _ => Ok c | [] => Err IndexError end) ps.
Fixpoint all_same (l : list ascii) : bool :=
  match l with
  | a :: ((b :: _) as r) => ceq a b && all_same r
  | _ => true
  end.

Definition prim_letter (c : ascii) : bool := ceq c "D" || ceq c "h" || ceq c "r" || ceq c "x" || ceq c "z".

(* one pass of the loop `for p in primitives[1:]` *)
Definition prim_step (out : parsed) (p : str) : pyres parsed :=
  let upd nb h rings het hyb masked :=
    mkParsed (p_isotope out) (p_charge out) (p_mapping out) (p_stereo out) (p_element out) nb h rings het hyb masked in
  if str_eqb p [] then Ok out
  else if str_eqb p ["a"%char] then Ok (upd (p_nb out) (p_h out) (p_rings out) (p_het out) (Some (IInt 4)) (p_masked out))
  else if str_eqb p ["A"%char] then Ok out
  else if str_eqb p ["!"%char; "R"%char] then Ok (upd (p_nb out) (p_h out) (Some (IInt 0)) (p_het out) (p_hyb out) (p_masked out))
  else if str_eqb p ["M"%char] then Ok (upd (p_nb out) (p_h out) (p_rings out) (p_het out) (p_hyb out) true)
  else
    let ps := split_on "," p in
    let multi := negb (Nat.eqb (List.length ps) 1) in
    if existsb (fun x => str_eqb x []) ps then Err IncorrectSmarts       (* if not all(p): 'Empty OR statement' *)
    else
    match (if multi then first_chars_res ps else Ok []) with
    | Err e => Err e
    | Ok firsts =>
        if multi && negb (all_same firsts) then Err IncorrectSmarts
        else
          match ps with
          | (t :: _) :: _ =>
              if negb (prim_letter t) then Err IncorrectSmarts
              else match map_res (fun x => match py_int (tl x) with Some n => Ok n | None => Err IncorrectSmarts end) ps with
                   | Err e => Err e
                   | Ok vs =>
                       if ceq t "D" then Ok (upd (Some vs) (p_h out) (p_rings out) (p_het out) (p_hyb out) (p_masked out))
                       else if ceq t "h" then Ok (upd (p_nb out) (Some vs) (p_rings out) (p_het out) (p_hyb out) (p_masked out))
                       else if ceq t "r" then Ok (upd (p_nb out) (p_h out) (Some (IList vs)) (p_het out) (p_hyb out) (p_masked out))
                       else if ceq t "x" then Ok (upd (p_nb out) (p_h out) (p_rings out) (Some vs) (p_hyb out) (p_masked out))
                       else Ok (upd (p_nb out) (p_h out) (p_rings out) (p_het out) (Some (IList vs)) (p_masked out))
                   end
          | _ => Err IndexError       (* p[0][0] on an empty first piece: only reachable through the branch above *)
          end
    end.

Fixpoint prim_loop (out : parsed) (ps : list str) : pyres parsed :=
  match ps with
  | [] => Ok out
  | p :: r => match prim_step out p with Err e => Err e | Ok out' => prim_loop out' r end
  end.

Definition query_parse (token : str) : pyres parsed :=
  let '(ds, t1) := span is_digit token in
  let iso := match ds with [] => None | _ => Some (horner ds) end in
  let t1 := match ds with [] => token | _ => t1 end in
  let chg := chg_search t1 in
  match (match chg with
         | None => Ok (None, t1)
         | Some (a, g, b) => match charge_dict g with Some c => Ok (Some c, (a ++ b)%list) | None => Err IncorrectSmarts end
         end) with
  | Err e => Err e
  | Ok (charge, t2) =>
      let '(mapping, t3) := match mpp_search t2 with Some (a, d) => (Some (horner d), a) | None => (None, t2) end in
      let '(stereo, t4) := match str_search t3 with
                           | Some (a, g, b) => (Some (str_eqb g ["@"%char]), (a ++ b)%list)
                           | None => (None, t3)
                           end in
      match split_on ";" t4 with
      | [] => Err IncorrectSmarts
      | e0 :: prims =>
          if str_eqb e0 [] then Err IncorrectSmarts
          else match map_res parse_elt (split_on "," e0) with
               | Err e => Err e
               | Ok els => prim_loop (mkParsed iso charge mapping stereo els None None None None None false) prims
               end
      end
  end.

(* ------------------------------------------------------------------------------------------------------------ *)
(* 5. what smarts() builds from the parsed dict: class dispatch and the normalising setters                       *)

(* _validate(value, prop) on a list / the ints the parser produces *)
Definition validate_list (lo hi : Z) (l : list Z) : pyres (list Z) :=
  if existsb (fun x => (x <? lo) || (hi <? x)) l then Err ValueError
  else if negb (nodup_z l) then Err ValueError
  else Ok (sort_z l).
Definition validate_opt (lo hi : Z) (o : option (list Z)) : pyres (list Z) :=
  match o with None => Ok [] | Some l => validate_list lo hi l end.

(* hybridization setter: int 4 (from `a`) or a list (from z) *)
Definition validate_hyb (o : option ival) : pyres (list Z) :=
  match o with
  | None => Ok []
  | Some (IInt v) => if (v <? 1) || (4 <? v) then Err ValueError else Ok [v]
  | Some (IList l) => validate_list 1 4 l
  end.

(* ring_sizes setter: int 0 (from !R) or a list (from r) *)
Definition validate_rings (o : option ival) : pyres (list Z) :=
  match o with
  | None => Ok []
  | Some (IInt v) => if (v <? 3) && negb (v =? 0) then Err ValueError else Ok [v]
  | Some (IList l) =>
      if existsb (fun x => x <? 3) l then Err ValueError
      else if negb (nodup_z l) then Err ValueError
      else Ok (sort_z l)
  end.

Definition bind {A B} (x : pyres A) (f : A -> pyres B) : pyres B := match x with Ok a => f a | Err e => Err e end.

(* the setters run in the order Query.__init__ (neighbors, hybridization, masked), ExtendedQuery.__init__
   (charge, is_radical, heteroatoms, ring_sizes, implicit_hydrogens, stereo) *)
Definition build_qx (p : parsed) : pyres qx :=
  bind (validate_opt 0 14 (p_nb p)) (fun nb =>
  bind (validate_hyb (p_hyb p)) (fun hyb =>
  bind (validate_opt 0 14 (p_het p)) (fun het =>
  bind (validate_rings (p_rings p)) (fun rings =>
  bind (validate_opt 0 14 (p_h p)) (fun h =>
  Ok (mkQX (match p_charge p with Some c => c | None => 0 end) false nb hyb h het rings false)))))).

Definition sym_number (s : str) : option Z :=
  option_map e_num (from_symbol (string_of_list_ascii s)).
Definition valid_number (n : Z) : bool := match from_number n with Some _ => true | None => false end.

(* keyword arguments only ExtendedQuery / QueryElement accept *)
Definition has_extended_kw (p : parsed) : bool :=
  match p_charge p, p_stereo p, p_het p, p_rings p, p_h p with
  | None, None, None, None, None => false
  | _, _, _, _, _ => true
  end.
Definition has_isotope_kw (p : parsed) : bool := match p_isotope p with Some _ => true | None => false end.

(* the element dispatch of smarts() followed by  try: e(kwargs)  except TypeError: raise IncorrectSmarts
   (a keyword argument the chosen class does not accept) *)
Definition build_atom (p : parsed) : pyres qatom :=
  match p_element p with
  | [ENum n] =>
      if valid_number n then bind (build_qx p) (fun x => Ok (QElem n (p_isotope p) x)) else Err ValueError
  | [ESym s] =>
      if str_eqb s ["A"%char] then
        if has_isotope_kw p then Err IncorrectSmarts else bind (build_qx p) (fun x => Ok (QAny x))
      else if str_eqb s ["M"%char] then
        if has_isotope_kw p || has_extended_kw p then Err IncorrectSmarts
        else bind (validate_opt 0 14 (p_nb p)) (fun nb => bind (validate_hyb (p_hyb p)) (fun hyb => Ok (QMetal nb hyb)))
      else match sym_number s with
           | Some n => bind (build_qx p) (fun x => Ok (QElem n (p_isotope p) x))
           | None => Err ValueError
           end
  | els =>
      (* ListElement.__init__: the element list is resolved first, then super().__init__(kwargs) *)
      bind (map_res (fun e => match e with
                              | ENum n => if valid_number n then Ok n else Err ValueError
                              | ESym s => match sym_number s with Some n => Ok n | None => Err ValueError end
                              end) els) (fun nums =>
      if has_isotope_kw p then Err IncorrectSmarts else bind (build_qx p) (fun x => Ok (QList nums x)))
  end.

Definition smarts_atom (body : str) : pyres qatom := bind (query_parse body) build_atom.

(* ------------------------------------------------------------------------------------------------------------ *)
(* 6. printer for the documented subset: [isotope]element[,element][@|@@][charge];D..;h..;r..|!R;x..;z..|a;M:map *)

Definition digit_char (d : Z) : ascii := ascii_of_N (Z.to_N (48 + d)).
Fixpoint digits_fuel (fuel : nat) (n : Z) (acc : str) : str :=
  match fuel with
  | O => acc
  | S k => let acc' := digit_char (n mod 10) :: acc in
           if n <? 10 then acc' else digits_fuel k (n / 10) acc'
  end.
Definition spell_nat (n : Z) : str := digits_fuel (S (Z.to_nat (Z.log2 n))) n [].

Definition spell_charge (c : Z) : str :=
  match c with
  | 1 => ["+"%char] | 2 => ["+"%char; "+"%char] | 3 => ["+"%char; "3"%char] | 4 => ["+"%char; "4"%char]
  | -1 => ["-"%char] | -2 => ["-"%char; "-"%char] | -3 => ["-"%char; "3"%char] | -4 => ["-"%char; "4"%char]
  | _ => []
  end.

Fixpoint join (sep : ascii) (l : list str) : str :=
  match l with
  | [] => []
  | [x] => x
  | x :: r => (x ++ sep :: join sep r)%list
  end.

Definition spell_elt (e : elt) : str := match e with ENum n => "#"%char :: spell_nat n | ESym s => s end.
Definition spell_prim (t : ascii) (vs : list Z) : str := join "," (map (fun v => t :: spell_nat v) vs).
Definition opt_prim (t : ascii) (o : option (list Z)) : list str := match o with Some vs => [spell_prim t vs] | None => [] end.

Definition spell_query (p : parsed) : str :=
  let prims :=
    (opt_prim "D" (p_nb p) ++ opt_prim "h" (p_h p) ++
     (match p_rings p with Some (IInt _) => [["!"%char; "R"%char]] | Some (IList vs) => [spell_prim "r" vs] | None => [] end) ++
     opt_prim "x" (p_het p) ++
     (match p_hyb p with Some (IInt _) => [["a"%char]] | Some (IList vs) => [spell_prim "z" vs] | None => [] end) ++
     (if p_masked p then [["M"%char]] else []))%list in
  ((match p_isotope p with Some i => spell_nat i | None => [] end) ++
   join "," (map spell_elt (p_element p)) ++
   (match p_stereo p with Some true => ["@"%char] | Some false => ["@"%char; "@"%char] | None => [] end) ++
   (match p_charge p with Some c => spell_charge c | None => [] end) ++
   flat_map (fun s => ";"%char :: s) prims ++
   (match p_mapping p with Some m => ":"%char :: spell_nat m | None => [] end))%list.

(* ------------------------------------------------------------------------------------------------------------ *)
(* 7. boolean equalities used by the correspondence cases                                                         *)

Definition elt_eqb (a b : elt) : bool :=
  match a, b with ENum x, ENum y => x =? y | ESym x, ESym y => str_eqb x y | _, _ => false end.
Definition ival_eqb (a b : ival) : bool :=
  match a, b with IInt x, IInt y => x =? y | IList x, IList y => list_eqb Z.eqb x y | _, _ => false end.
Definition parsed_eqb (a b : parsed) : bool :=
  option_eqb Z.eqb (p_isotope a) (p_isotope b) && option_eqb Z.eqb (p_charge a) (p_charge b) &&
  option_eqb Z.eqb (p_mapping a) (p_mapping b) && option_eqb Bool.eqb (p_stereo a) (p_stereo b) &&
  list_eqb elt_eqb (p_element a) (p_element b) &&
  option_eqb (list_eqb Z.eqb) (p_nb a) (p_nb b) && option_eqb (list_eqb Z.eqb) (p_h a) (p_h b) &&
  option_eqb ival_eqb (p_rings a) (p_rings b) && option_eqb (list_eqb Z.eqb) (p_het a) (p_het b) &&
  option_eqb ival_eqb (p_hyb a) (p_hyb b) && Bool.eqb (p_masked a) (p_masked b).
Definition qx_eqb (a b : qx) : bool :=
  (x_chg a =? x_chg b) && Bool.eqb (x_rad a) (x_rad b) && list_eqb Z.eqb (x_nb a) (x_nb b) &&
  list_eqb Z.eqb (x_hyb a) (x_hyb b) && list_eqb Z.eqb (x_h a) (x_h b) && list_eqb Z.eqb (x_het a) (x_het b) &&
  list_eqb Z.eqb (x_rings a) (x_rings b) && Bool.eqb (x_rings_set a) (x_rings_set b).
Definition qatom_eqb (a b : qatom) : bool :=
  match a, b with
  | QElem n i x, QElem m j y => (n =? m) && option_eqb Z.eqb i j && qx_eqb x y
  | QAny x, QAny y => qx_eqb x y
  | QList l x, QList k y => list_eqb Z.eqb l k && qx_eqb x y
  | QMetal a1 b1, QMetal a2 b2 => list_eqb Z.eqb a1 a2 && list_eqb Z.eqb b1 b2
  | _, _ => false
  end.
Definition s2l (s : string) : str := list_ascii_of_string s.
