(* Model of the lookups and table-derived quantities of chython.periodictable (C18).
   The tables themselves are generated (Gen.Elements); this file holds the functions over them. *)
From Coq Require Import ZArith List String Bool.
From Model Require Import PyBase.
From Gen Require Import Elements.
Import ListNotations.
Open Scope Z_scope.

(* Element.from_symbol: first subclass whose name is the symbol *)
Definition from_symbol (s : string) : option elem :=
  find (fun e => String.eqb (e_sym e) s) elements.

(* Element.from_atomic_number: dict comprehension over the subclasses, the last duplicate wins *)
Definition from_number (n : Z) : option elem :=
  zget_last (map (fun e => (e_num e, e)) elements) n.

(* Element(isotope): the isotope setter accepts exactly the keys of isotopes_distribution *)
Definition isotope_accepted (e : elem) (i : Z) : bool := zmem i (keys (e_dist e)).

(* atomic_mass: sum(x * mass[i] for i, x in dist.items()) or mass[isotope] -- evaluates iff the keys exist *)
Definition mass_computable (e : elem) : bool :=
  forallb (fun k => zmem k (keys (e_mass e))) (keys (e_dist e)).

(* exact value of the average mass as a rational: sum of mantissa products, common denominator 10^24 *)
Definition dec_scale (d : dec) (digits : nat) : Z := fst d * 10 ^ (Z.of_nat (digits - snd d)).
Definition avg_mass_e24 (e : elem) : option Z :=
  fold_left (fun acc kv =>
      match acc, zget (e_mass e) (fst kv) with
      | Some a, Some m => Some (a + dec_scale (snd kv) 12 * dec_scale m 12)
      | _, _ => None
      end) (e_dist e) (Some 0).

(* pack format: 5-bit isotope field, 0 = unspecified, value = isotope - common_isotopes[number] *)
Definition pack_isotope_field (e : elem) (i : Z) : Z := i - znth pack_common_isotopes (e_num e) 0.
Definition unpack_isotope (e : elem) (field : Z) : Z := znth unpack_common_isotopes (e_num e) 0 + field.

(* matcher bit layout (long III): bit (isotope - mdl_isotope + 54) must fall into the 17 isotope bits 46..62 *)
Definition matcher_isotope_bit (e : elem) (i : Z) : Z := i - e_mdl e + 54.

(* hydrogen counts the valence tables can produce *)
Definition tabulated_h (e : elem) : list Z :=
  match e_common e with
  | v :: _ => (if (v =? 0) || (e_num e =? 1) then 0 else v) :: map (fun r => snd (fst r)) (e_exc e)
  | [] => map (fun r => snd (fst r)) (e_exc e)
  end.

(* symbols used in valence exception environments *)
Definition env_symbols (e : elem) : list string :=
  flat_map (fun r => map snd (snd r)) (e_exc e).
