(* C20 -- model of chython/utils/rdkit.py: to_rdkit_molecule / from_rdkit_molecule.

   What is modelled (mirrors the Python code, statement by statement):
     - the two bond-type dictionaries, the `_inorganic` set and the four enum constants: GENERATED (Gen.RdkitTables);
     - atom attribute transfer in both directions, as functions between a record of the chython atom attributes the
       bridge reads/writes and a record of the RDKit atom properties it sets/gets;
     - bond transfer incl. the "fix direction of dative bond" swap;
     - conformer / 2D coordinate transfer;
     - the assembly over a whole molecule (index dictionaries `mapping`, enumeration order of atoms()/bonds());
     - stereo label transfer through Model.Stereo.translate_th / translate_ct.

   What is RDKit's own behaviour and therefore an INPUT of the model (Section variables / explicit arguments in the
   theorems of Proofs.RdkitProofs, observed values in the correspondence):
     - [impl]   : the number of implicit hydrogens RDKit computes for an atom (GetNumImplicitHs);
     - [symbol] : RDKit's element symbol of an atomic number (GetSymbol);
     - the ORDER in which RDKit lists the neighbours of a chiral centre (GetNeighbors) -- any arrangement;
     - which two atoms RDKit names as the reference ("stereo") atoms of a double bond and the label it reports
       relative to them;
     - that an RDKit atom/bond/conformer property that was set is what the getter returns (record semantics), and what
       SanitizeMol / AssignStereochemistry do to a molecule (not modelled: search on the real code only).

   Numbers are Z.  Coordinates are opaque 64-bit doubles copied unchanged by the code: modelled as Z (the
   correspondence passes the IEEE bit pattern); [czero] is the double 0.0. *)
From Coq Require Import ZArith List String Bool.
From Model Require Import PyBase PeriodicTable Stereo.
From Gen Require Import Elements RdkitTables.
Import ListNotations.
Open Scope Z_scope.

(* ------------------------------------------------------------------------------------------------ *)
(* dictionaries: the LAST binding of a key in a dict display wins *)
Fixpoint sget_last {V : Type} (d : list (string * V)) (k : string) : option V :=
  match d with
  | [] => None
  | (k', v) :: r => match sget_last r k with
                    | Some w => Some w
                    | None => if String.eqb k k' then Some v else None
                    end
  end.

(* _rdkit_bond_map[b.GetBondType()] *)
Definition rdkit_bond_order (t : string) : pyres Z :=
  match sget_last rdkit_bond_map t with Some o => Ok o | None => Err KeyError end.
(* _bond_map[b.order] *)
Definition bond_type (o : Z) : pyres string :=
  match zget_last bond_map o with Some t => Ok t | None => Err KeyError end.

(* ------------------------------------------------------------------------------------------------ *)
(* atoms *)
Record catom := mkC {            (* what the bridge reads from / writes to a chython Element *)
  c_num : Z;                     (* atomic_number *)
  c_iso : option Z;              (* isotope *)
  c_chg : Z;                     (* charge *)
  c_rad : bool;                  (* is_radical *)
  c_hyd : option Z;              (* implicit_hydrogens (None = not calculable) *)
  c_map : option Z;              (* _parsed_mapping *)
  c_x : Z; c_y : Z               (* xy *)
}.
Record ratom := mkR {            (* RDKit Atom properties the bridge sets / gets *)
  r_num : Z;                     (* GetAtomicNum *)
  r_iso : Z;                     (* GetIsotope, 0 = unset *)
  r_chg : Z;                     (* GetFormalCharge *)
  r_nrad : Z;                    (* GetNumRadicalElectrons *)
  r_exph : Z;                    (* GetNumExplicitHs *)
  r_map : Z                      (* GetAtomMapNum, 0 = unset *)
}.

Definition catom_eqb (a b : catom) : bool :=
  (c_num a =? c_num b) && option_eqb Z.eqb (c_iso a) (c_iso b) && (c_chg a =? c_chg b) && Bool.eqb (c_rad a) (c_rad b) &&
  option_eqb Z.eqb (c_hyd a) (c_hyd b) && option_eqb Z.eqb (c_map a) (c_map b) && (c_x a =? c_x b) && (c_y a =? c_y b).
Definition ratom_eqb (a b : ratom) : bool :=
  (r_num a =? r_num b) && (r_iso a =? r_iso b) && (r_chg a =? r_chg b) && (r_nrad a =? r_nrad b) &&
  (r_exph a =? r_exph b) && (r_map a =? r_map b).

(* to_rdkit_molecule, first loop body:
     ra = Atom(a.atomic_number); ra.SetNumExplicitHs(a.implicit_hydrogens)
     if keep_mapping: ra.SetAtomMapNum(n)
     if a.charge: ra.SetFormalCharge(a.charge)
     if a.isotope: ra.SetIsotope(a.isotope)
     if a.is_radical: ra.SetNumRadicalElectrons(1)
   SetNumExplicitHs(None) raises Boost.Python.ArgumentError (a TypeError); a negative count OverflowError. *)
Definition to_atom (n : Z) (keep : bool) (a : catom) : pyres ratom :=
  match c_hyd a with
  | None => Err TypeError
  | Some h =>
      if h <? 0 then Err OtherError else
      Ok (mkR (c_num a)
              (match c_iso a with Some i => if i =? 0 then 0 else i | None => 0 end)
              (if c_chg a =? 0 then 0 else c_chg a)
              (if c_rad a then 1 else 0)
              h
              (if keep then n else 0))
  end.

(* from_rdkit_molecule, first loop body:
     e = Element.from_symbol(ra.GetSymbol())
     a = e(ra.GetIsotope() or None, charge=ra.GetFormalCharge(), is_radical=bool(ra.GetNumRadicalElectrons()),
           parsed_mapping=ra.GetAtomMapNum(), implicit_hydrogens=ra.GetNumExplicitHs() + ra.GetNumImplicitHs())
   Element.__init__ validates the isotope (key of isotopes_distribution) and then the charge (-4..4): ValueError.
   [symbol] is RDKit's GetSymbol, [impl] RDKit's GetNumImplicitHs of this atom; [x], [y] come from the first conformer
   (0.0 = Vector default when the molecule has no conformer). *)
Definition from_atom (symbol : Z -> string) (impl : Z) (x y : Z) (r : ratom) : pyres catom :=
  match from_symbol (symbol (r_num r)) with
  | None => Err ValueError
  | Some e =>
      let iso := if r_iso r =? 0 then None else Some (r_iso r) in
      if match iso with Some i => negb (isotope_accepted e i) | None => false end then Err ValueError
      else if (4 <? r_chg r) || (r_chg r <? -4) then Err ValueError
      else Ok (mkC (e_num e) iso (r_chg r) (negb (r_nrad r =? 0)) (Some (r_exph r + impl)) (Some (r_map r)) x y)
  end.

(* chython's own symbol of an atomic number (used for the non-vacuity instance and as the reference RDKit's symbols are
   compared with in the correspondence) *)
Definition chython_symbol (z : Z) : string :=
  match from_number z with Some e => e_sym e | None => ""%string end.

(* ------------------------------------------------------------------------------------------------ *)
(* bonds *)
(* to_rdkit_molecule, second loop body, in chython atom numbers:
     if data.atom(n).atomic_symbol not in _inorganic: n, m = m, n
     mol.AddBond(mapping[n], mapping[m], _bond_map[b.order])
   [sym_n] = atomic symbol of atom n (the FIRST atom of the pair yielded by data.bonds()).  Result (begin, end, type). *)
Definition to_bond (sym_n : string) (n m o : Z) : pyres (Z * Z * string) :=
  let '(b, e) := if negb (smem sym_n inorganic) then (m, n) else (n, m) in
  match bond_type o with
  | Ok t => Ok (b, e, t)
  | Err x => Err x
  end.

(* from_rdkit_molecule, second loop body: mol.add_bond(begin, end, _rdkit_bond_map[b.GetBondType()]) *)
Definition from_bond (b e : Z) (t : string) : pyres (Z * Z * Z) :=
  match rdkit_bond_order t with
  | Ok o => Ok (b, e, o)
  | Err x => Err x
  end.

(* chython bonds are undirected: (n, m, o) and (m, n, o) are the same bond *)
Definition same_bond (p q : Z * Z * Z) : bool :=
  let '(a, b, o) := p in let '(c, d, o') := q in
  (o =? o') && (((a =? c) && (b =? d)) || ((a =? d) && (b =? c))).

(* ------------------------------------------------------------------------------------------------ *)
(* coordinates / conformers.  A conformer: (Is3D, positions by atom index). *)
Definition czero : Z := 0.          (* bit pattern of the double 0.0 *)
Definition pos3 := (Z * Z * Z)%type.
Definition conformer := (bool * list pos3)%type.

(* to_rdkit_molecule: one 2D conformer from a.x, a.y, then one (3D: RDKit's Conformer() default) per entry of _conformers *)
Definition to_conformers (xy : list (Z * Z)) (confs : list (list pos3)) : list conformer :=
  (false, map (fun p => (fst p, snd p, czero)) xy) :: map (fun c => (true, c)) confs.

(* from_rdkit_molecule: xy of every atom from the FIRST conformer (zip: stops at the shorter), _conformers = the 3D ones;
   without conformers atoms keep Vector(0, 0) and _conformers is not set (modelled as []) *)
Fixpoint zip_xy (natoms : nat) (ps : list pos3) : list (Z * Z) :=
  match natoms with
  | O => []
  | S k => match ps with
           | (x, y, _) :: r => (x, y) :: zip_xy k r
           | [] => (czero, czero) :: zip_xy k []          (* atoms beyond the positions keep the default *)
           end
  end.
Definition from_conformers (natoms : nat) (cs : list conformer) : list (Z * Z) * list (list pos3) :=
  match cs with
  | [] => (zip_xy natoms [], [])
  | (_, ps) :: _ => (zip_xy natoms ps, map snd (filter fst cs))
  end.

(* ------------------------------------------------------------------------------------------------ *)
(* whole molecule (structure part).
   chython side: atoms() in dict order with their numbers, bonds() as (n, m, order) in enumeration order.
   RDKit side: atoms by index (position in the list), bonds as (begin index, end index, type name). *)
Definition cmol := (list (Z * catom) * list (Z * Z * Z))%type.
Definition rmol := (list ratom * list (Z * Z * string))%type.

Fixpoint mapM {A B : Type} (f : A -> pyres B) (l : list A) : pyres (list B) :=
  match l with
  | [] => Ok []
  | x :: r => match f x with
              | Err e => Err e
              | Ok y => match mapM f r with Err e => Err e | Ok ys => Ok (y :: ys) end
              end
  end.

(* mapping[n] = mol.AddAtom(ra): index = position; dict semantics: a repeated key keeps the LAST index *)
Fixpoint enum_from {A : Type} (i : Z) (l : list A) : list (Z * A) :=
  match l with [] => [] | x :: r => (i, x) :: enum_from (i + 1) r end.
Definition index_map (nums : list Z) : list (Z * Z) := map (fun p => (snd p, fst p)) (enum_from 0 nums).
Definition midx (mp : list (Z * Z)) (n : Z) : pyres Z :=
  match zget_last mp n with Some i => Ok i | None => Err KeyError end.

Definition to_mol (keep : bool) (m : cmol) : pyres rmol :=
  let '(atoms, bonds) := m in
  match mapM (fun na => to_atom (fst na) keep (snd na)) atoms with
  | Err e => Err e
  | Ok ras =>
      let mp := index_map (map fst atoms) in
      match mapM (fun b => let '(n, m', o) := b in
                           match zget atoms n with
                           | None => Err KeyError                          (* data.atom(n) *)
                           | Some a =>
                               match to_bond (chython_symbol (c_num a)) n m' o with
                               | Err e => Err e
                               | Ok (bn, en, t) =>
                                   match midx mp bn, midx mp en with
                                   | Ok bi, Ok ei => Ok (bi, ei, t)
                                   | Err e, _ => Err e
                                   | _, Err e => Err e
                                   end
                               end
                           end) bonds with
      | Err e => Err e
      | Ok rbs => Ok (ras, rbs)
      end
  end.

(* from_rdkit_molecule: atom idx i becomes chython atom i + 1 (add_atom on an empty container numbers 1, 2, ...);
   [impls] = RDKit's implicit hydrogen counts by index, [xy] = coordinates by index *)
Fixpoint from_atoms (symbol : Z -> string) (i : Z) (ras : list ratom) (impls : list Z) (xy : list (Z * Z)) : pyres (list (Z * catom)) :=
  match ras with
  | [] => Ok []
  | r :: rest =>
      let impl := match impls with h :: _ => h | [] => 0 end in
      let '(x, y) := match xy with p :: _ => p | [] => (czero, czero) end in
      match from_atom symbol impl x y r with
      | Err e => Err e
      | Ok a => match from_atoms symbol (i + 1) rest (tl impls) (tl xy) with
                | Err e => Err e
                | Ok l => Ok ((i + 1, a) :: l)
                end
      end
  end.

Definition from_mol (symbol : Z -> string) (impls : list Z) (xy : list (Z * Z)) (r : rmol) : pyres cmol :=
  let '(ras, rbs) := r in
  match from_atoms symbol 0 ras impls xy with
  | Err e => Err e
  | Ok atoms =>
      match mapM (fun b => let '(bi, ei, t) := b in from_bond (bi + 1) (ei + 1) t) rbs with
      | Err e => Err e
      | Ok bonds => Ok (atoms, bonds)
      end
  end.

(* ------------------------------------------------------------------------------------------------ *)
(* stereo labels *)

(* RDKit chiral tag names <-> the boolean the code works with *)
Definition tag_of_sign (s : bool) : string := if s then chiral_ccw else chiral_cw.      (* _chiral_ccw if s else _chiral_cw *)
Definition sign_of_tag (t : string) : option bool :=                                     (* s in (_chiral_cw, _chiral_ccw); s == _chiral_ccw *)
  if String.eqb t chiral_cw || String.eqb t chiral_ccw then Some (String.eqb t chiral_ccw) else None.
Definition bs_of_sign (s : bool) : string := if s then bs_cis else bs_trans.              (* _cis if b.stereo else _trans *)
Definition sign_of_bs (t : string) : option bool :=                                       (* s in (_cis, _trans); s == _cis *)
  if String.eqb t bs_cis || String.eqb t bs_trans then Some (String.eqb t bs_cis) else None.

(* to_rdkit_molecule, third loop: for an atom with label s that is a key of stereogenic_tetrahedrons ([order] = its value):
     env = RDKit's neighbour order (in chython numbers); tag = CCW if _translate_tetrahedron_sign(n, env) else CW.
   [order = None]: not a stereogenic tetrahedron -> skipped (no tag). *)
Definition to_chiral_tag (isH : Z -> bool) (order : option (list Z)) (rd_env : list Z) (s : option bool) : pyres (option string) :=
  match s with
  | None => Ok None
  | Some s' =>
      match order with
      | None => Ok None
      | Some o => match translate_th isH o rd_env s' with
                  | Ok r => Ok (Some (tag_of_sign r))
                  | Err e => Err e
                  end
      end
  end.

(* from_rdkit_molecule: a CW/CCW tag with RDKit's neighbour list is translated to the label; KeyError -> no label *)
Definition from_chiral_tag (isH : Z -> bool) (order : option (list Z)) (rd_env : list Z) (tag : string) : pyres (option bool) :=
  match sign_of_tag tag with
  | None => Ok None
  | Some s =>
      match order with
      | None => Ok None                     (* stereogenic_tetrahedrons[n] raises KeyError: pass *)
      | Some o => match translate_th isH o rd_env s with
                  | Ok r => Ok (Some r)
                  | Err KeyError => Ok None
                  | Err e => Err e
                  end
      end
  end.

(* to_rdkit_molecule, fourth loop, for a simple double bond whose registry entry is env = (n0, n1, n2, n3):
     rb.SetStereoAtoms(n0, n1); rb.SetStereo(_cis if b.stereo else _trans)       -- the label is used as it is *)
Definition to_bond_stereo (env : Z * Z * option Z * option Z) (s : bool) : (Z * Z * string) :=
  let '(n0, n1, _, _) := env in (n0, n1, bs_of_sign s).

(* from_rdkit_molecule: Z/E label with RDKit's stereo atoms (nn at the begin atom, nm at the end atom) ->
   _translate_cis_trans_sign(begin, end, nn, nm, s == _cis); KeyError -> no label *)
Definition from_bond_stereo (isH : Z -> bool) (env_be env_eb : option (Z * Z * option Z * option Z))
           (nn nm : Z) (label : string) : pyres (option bool) :=
  match sign_of_bs label with
  | None => Ok None
  | Some s => match translate_ct isH env_be env_eb nn nm s with
              | Ok r => Ok (Some r)
              | Err KeyError => Ok None
              | Err e => Err e
              end
  end.

(* to_rdkit_molecule, fourth loop, the whole body for the bond (n, m) yielded by data.bonds() with label [s]:
     if b.stereo is None: continue
     nm = data._stereo_cis_trans_centers.get(n)                      -- [center]
     if nm is None or n not in nm or m not in nm: continue           -- only plain double bonds, no cumulenes
     n1, m1, *_ = data.stereogenic_cis_trans[nm]                     -- [env] = the registry entry under the key nm
     rb.SetStereoAtoms(n1, m1); rb.SetStereo(_cis if b.stereo else _trans)
   Result: None = bond left without a label, Some (ref atom at begin, ref atom at end, label). *)
Definition to_bond_stereo_sel (center : option (Z * Z)) (n m : Z) (env : option (Z * Z * option Z * option Z))
           (s : option bool) : pyres (option (Z * Z * string)) :=
  match s with
  | None => Ok None
  | Some s' =>
      match center with
      | None => Ok None
      | Some (a, b) =>
          if negb ((n =? a) || (n =? b)) || negb ((m =? a) || (m =? b)) then Ok None
          else match env with
               | None => Err KeyError
               | Some e => Ok (Some (to_bond_stereo e s'))
               end
      end
  end.

(* ------------------------------------------------------------------------------------------------ *)
(* whole molecule: configuration labels.
   chython side: atoms as (number, label) in enumeration order, bonds as (n, m, label) in enumeration order, the registries
   stereogenic_tetrahedrons [th], _stereo_cis_trans_centers [centers], stereogenic_cis_trans [ct] as association lists.
   RDKit side: the atom of the k-th chython atom has index k; [nb k] = GetNeighbors() of atom k as indices, in RDKit's order. *)
Definition tag_name (o : option string) : string := match o with Some t => t | None => "CHI_UNSPECIFIED" end.

(* to_rdkit_molecule, third loop over all atoms; inverted[idx] = the idx-th atom number *)
Fixpoint to_tags (isH : Z -> bool) (th : list (Z * list Z)) (nums : list Z) (nb : Z -> list Z) (k : Z)
         (atoms : list (Z * option bool)) : pyres (list (option string)) :=
  match atoms with
  | [] => Ok []
  | (n, s) :: r =>
      match to_chiral_tag isH (zget th n) (map (fun j => znth nums j 0) (nb k)) s with
      | Err e => Err e
      | Ok t => match to_tags isH th nums nb (k + 1) r with Err e => Err e | Ok ts => Ok (t :: ts) end
      end
  end.

(* from_rdkit_molecule: (idx, [x.GetIdx() for x in GetNeighbors()], tag) collected in the first loop, then
   mol.atom(n)._stereo = _translate_tetrahedron_sign(n, [mapping[x] for x in env], s) with mapping[i] = i + 1 *)
Fixpoint from_tags (isH : Z -> bool) (th : list (Z * list Z)) (nb : Z -> list Z) (k : Z) (tags : list string)
  : pyres (list (Z * option bool)) :=
  match tags with
  | [] => Ok []
  | t :: r =>
      match from_chiral_tag isH (zget th (k + 1)) (map (fun j => j + 1) (nb k)) t with
      | Err e => Err e
      | Ok l => match from_tags isH th nb (k + 1) r with Err e => Err e | Ok ls => Ok ((k + 1, l) :: ls) end
      end
  end.

Fixpoint pget {V : Type} (d : list (Z * Z * V)) (k : Z * Z) : option V :=
  match d with
  | [] => None
  | (a, b, v) :: r => if (fst k =? a) && (snd k =? b) then Some v else pget r k
  end.

(* to_rdkit_molecule, fourth loop over data.bonds(): per bond None or (reference atom at n, reference atom at m, label), in
   chython numbers (the code passes them through `mapping`) *)
Definition to_bond_labels (centers : list (Z * (Z * Z))) (ct : list (Z * Z * (Z * Z * option Z * option Z)))
           (bonds : list (Z * Z * option bool)) : pyres (list (option (Z * Z * string))) :=
  mapM (fun b => let '(n, m, s) := b in
                 to_bond_stereo_sel (zget centers n) n m (match zget centers n with Some c => pget ct c | None => None end) s) bonds.

(* from_rdkit_molecule: for every RDKit bond (begin idx, end idx, label, stereo atom idx at begin, at end):
   mol.bond(n, m)._stereo = _translate_cis_trans_sign(n, m, mapping[nn], mapping[nm], s == _cis) *)
Definition from_bond_labels (isH : Z -> bool) (ct : list (Z * Z * (Z * Z * option Z * option Z)))
           (rbonds : list (Z * Z * string * Z * Z)) : pyres (list (Z * Z * option bool)) :=
  mapM (fun b => let '(bi, ei, label, sb, se) := b in
                 match from_bond_stereo isH (pget ct (bi + 1, ei + 1)) (pget ct (ei + 1, bi + 1)) (sb + 1) (se + 1) label with
                 | Err e => Err e
                 | Ok l => Ok (bi + 1, ei + 1, l)
                 end) rbonds.

(* ------------------------------------------------------------------------------------------------ *)
(* conformers, as the code builds them from the dictionaries in data._conformers:
     conf = Conformer()
     for n, xyz in c.items(): conf.SetAtomPosition(mapping[n], xyz)      -- KeyError for a key that is no atom
     mol.AddConformer(conf, assignId=True)                               -- RuntimeError unless one position per atom
   SetAtomPosition(idx, p) grows the conformer to idx + 1 positions, the new ones (0, 0, 0). *)
Fixpoint set_pos (ps : list pos3) (i : nat) (p : pos3) : list pos3 :=
  match i, ps with
  | O, [] => [p]
  | O, _ :: r => p :: r
  | S k, [] => (czero, czero, czero) :: set_pos [] k p
  | S k, q :: r => q :: set_pos r k p
  end.
Fixpoint fill_conf (mp : list (Z * Z)) (ps : list pos3) (c : list (Z * pos3)) : pyres (list pos3) :=
  match c with
  | [] => Ok ps
  | (n, p) :: r => match midx mp n with
                   | Err e => Err e
                   | Ok i => fill_conf mp (set_pos ps (Z.to_nat i) p) r
                   end
  end.
Definition to_conformers_dict (nums : list Z) (xy : list (Z * Z)) (confs : list (list (Z * pos3))) : pyres (list conformer) :=
  match mapM (fun c => match fill_conf (index_map nums) [] c with
                       | Err e => Err e
                       | Ok ps => if Nat.eqb (List.length ps) (List.length nums) then Ok (true, ps) else Err OtherError
                       end) confs with
  | Err e => Err e
  | Ok cs => Ok ((false, map (fun p => (fst p, snd p, czero)) xy) :: cs)
  end.

(* ------------------------------------------------------------------------------------------------ *)
(* from_rdkit_molecule after the label loops:
     mol.fix_structure(recalculate_hydrogens=False)            -- touches no label
     if tetrahedron_stereo or cis_trans_stereo: mol.fix_stereo()
   tetrahedron_stereo / cis_trans_stereo are non-empty iff some atom carries a CW/CCW tag / some bond an E/Z label.
   fix_stereo itself is NOT modelled: it is the parameter [fix] (atom labels, bond labels) -> (atom labels, bond labels). *)
Definition stereo_labels := (list (Z * option bool) * list (Z * Z * option bool))%type.
Definition has_tag (tags : list string) : bool :=
  existsb (fun t => match sign_of_tag t with Some _ => true | None => false end) tags.
Definition has_bond_label (rbonds : list (Z * Z * string * Z * Z)) : bool :=
  existsb (fun b => let '(_, _, label, _, _) := b in match sign_of_bs label with Some _ => true | None => false end) rbonds.
Definition from_stereo_final (fixs : stereo_labels -> stereo_labels) (isH : Z -> bool) (th : list (Z * list Z))
           (ct : list (Z * Z * (Z * Z * option Z * option Z))) (nb : Z -> list Z) (tags : list string)
           (rbonds : list (Z * Z * string * Z * Z)) : pyres stereo_labels :=
  match from_tags isH th nb 0 tags with
  | Err e => Err e
  | Ok la => match from_bond_labels isH ct rbonds with
             | Err e => Err e
             | Ok lb => Ok (if has_tag tags || has_bond_label rbonds then fixs (la, lb) else (la, lb))
             end
  end.

(* ------------------------------------------------------------------------------------------------ *)
(* the one rule of MoleculeStereo.__chiral_centers the bridge depends on for ring double bonds (it decides whether fix_stereo
   keeps their label):   for n, m in ring_cumulenes_terminals: if any(len(x) < 8 for x in atoms_rings[n]): <not chiral>
                                                               elif (n, m) in cis_trans: chiral
   [sizes] = the sizes of the rings through the first atom of the bond *)
Definition ring_bond_chiral (sizes : list Z) : bool := negb (existsb (fun x => x <? 8) sizes).

(* the entry test of MoleculeStereo._chiral_morgan (the atom order fix_stereo and the chirality perception work with):
     if not stereo_atoms and not stereo_bonds: return self.atoms_order       -- the plain, stereo-blind order
   otherwise the order is refined by the labels.  [atoms] = labelled atoms, [bond_atoms] = atoms of labelled bonds. *)
Definition uses_plain_order (atoms bond_atoms : list Z) : bool :=
  match atoms, bond_atoms with
  | [], [] => true
  | _, _ => false
  end.
