(* The two spelling calls of linear_hash_smiles (C17, extension round 3), modelled on Model.Graph.mol:
     self._format_atom(n, None, stereo=False)                    (MoleculeSmiles._format_atom, chython/algorithms/smiles.py)
     self._format_bond(n, m, None, stereo=False, aromatic=False) (MoleculeSmiles._format_bond)
   i.e. the keyword defaults charges=True, hydrogens=False, mapping=False and, for atoms, aromatic=True.  With stereo=False
   the adjacency argument (None) is never read.  Tables from the source, regenerated on every run: element symbols
   (Gen.Elements via Model.PeriodicTable.from_number), charge_str, organic_set, the atomic numbers of B C N P S
   (Gen.SmilesTables).  atom.hybridization is the label set by MoleculeContainer.calc_labels (a fold over the bonds of the
   atom, order 8 skipped); not_special_connectivity[n] is the set of neighbours over bonds other than order 8. *)
From Coq Require Import String Ascii ZArith List Bool.
From Model Require Import PyBase Graph PeriodicTable.
From Gen Require Import Elements SmilesTables.
Import ListNotations.
Open Scope Z_scope.

(* str(int) for a positive isotope / hydrogen count *)
Fixpoint dec_fuel (fuel : nat) (n : Z) (acc : string) : string :=
  match fuel with
  | O => acc
  | S f => let acc' := String (ascii_of_nat (48 + Z.to_nat (n mod 10))) acc in
           if n <? 10 then acc' else dec_fuel f (n / 10) acc'
  end.
Definition dec_str (n : Z) : string :=
  if n <? 0 then String "-"%char (dec_fuel (S (Z.to_nat (Z.log2 (- n)))) (- n) EmptyString)
  else dec_fuel (S (Z.to_nat (Z.log2 n))) n EmptyString.

Definition lower_char (c : ascii) : ascii :=
  let n := nat_of_ascii c in if (Nat.leb 65 n && Nat.leb n 90)%bool then ascii_of_nat (n + 32) else c.
Fixpoint lower_str (s : string) : string :=
  match s with EmptyString => EmptyString | String c r => String (lower_char c) (lower_str r) end.
Definition nonempty_s (s : string) : bool := match s with EmptyString => false | _ => true end.

(* calc_labels: hybridization (1 sp3, 2 sp2, 3 sp, 4 aromatic) *)
Definition hyb_step (h o : Z) : Z :=
  if o =? 8 then h
  else if o =? 4 then 4
  else if h =? 4 then h
  else if o =? 3 then 3
  else if o =? 2 then (if h =? 1 then 2 else if h =? 2 then 3 else h)
  else h.
Definition hyb_of (l : list (Z * bond)) : Z := fold_left (fun h mb => hyb_step h (b_ord (snd mb))) l 1.
(* not self.not_special_connectivity[n] *)
Definition only_special (l : list (Z * bond)) : bool := forallb (fun mb => b_ord (snd mb) =? 8) l.

(* the hydrogen field:  'H' for 1, 'H<k>' for another non-zero count, nothing for 0 / None *)
Definition h_field (h : option Z) : string :=
  match h with
  | Some x => if x =? 1 then "H"%string else if x =? 0 then EmptyString else String "H"%char (dec_str x)
  | None => EmptyString
  end.
Definition truthy (h : option Z) : bool := match h with Some x => negb (x =? 0) | None => false end.

(* _format_atom(n, None, stereo=False) as a function of the atom record and of its bonds; KeyError for an element number
   without a class or a charge outside charge_str *)
Definition spell_atom_of (a : atom) (l : list (Z * bond)) : pyres string :=
  match from_number (a_num a) with
  | None => Err KeyError
  | Some e =>
    let sym := e_sym e in
    let iso := match a_iso a with Some i => if i =? 0 then EmptyString else dec_str i | None => EmptyString end in
    match (if a_chg a =? 0 then Ok EmptyString
           else match zget charge_str (a_chg a) with Some s => Ok s | None => Err KeyError end) with
    | Err x => Err x
    | Ok chg =>
      let hyb := hyb_of l in
      let num := a_num a in
      let ih := truthy (a_h a) in
      let brh :=
        if nonempty_s iso || nonempty_s chg || negb (smem sym organic_set) || a_rad a
        then (true, h_field (a_h a))
        else if (hyb =? 4) && ih && ((num =? num_B) || (num =? num_N) || (num =? num_P))       (* pyrrole *)
        then (true, h_field (a_h a))
        else if negb ih && ((num =? num_B) || (num =? num_C) || (num =? num_P) || (num =? num_S)) && only_special l
        then (true, EmptyString)                                                               (* elemental B, C, P, S *)
        else if ih && (num =? num_P) && negb (hyb =? 1)
        then (true, h_field (a_h a))
        else (false, EmptyString) in
      let sym' := if hyb =? 4 then lower_str sym else sym in
      Ok (append (if fst brh then "[" else "") (append iso (append sym' (append (snd brh) (append chg (if fst brh then "]" else ""))))))%string
    end
  end.

(* _format_bond(n, m, None, stereo=False, aromatic=False) as a function of the bond order *)
Definition spell_bond_of (o : Z) : string :=
  if o =? 4 then ":"%string
  else if o =? 1 then EmptyString
  else if o =? 2 then "="%string
  else if o =? 3 then "#"%string
  else "~"%string.

(* on a molecule; a missing atom / bond (KeyError in Python) cannot occur for the chains of a well-formed molecule *)
Definition lhs_fa (g : mol) (n : Z) : string :=
  match atom_of g n with
  | Some a => match spell_atom_of a (nbrs g n) with Ok s => s | Err _ => EmptyString end
  | None => EmptyString
  end.
Definition lhs_fa_res (g : mol) (n : Z) : pyres string :=
  match atom_of g n with Some a => spell_atom_of a (nbrs g n) | None => Err KeyError end.
Definition lhs_fb (g : mol) (n m : Z) : string :=
  match bond_of g n m with Some b => spell_bond_of (b_ord b) | None => EmptyString end.
