(* C10: MoleculeContainer.pack / MoleculeContainer.unpack on ONE object, the shared molecule representation Graph.mol
   (_atoms / _bonds as insertion ordered association lists).  Nothing is an input besides the molecule and the four
   coordinate bytes of every atom: the record the .pyx packer reads (atoms, neighbour dicts, _cis_trans_count,
   _stereo_cis_trans_terminals) is derived from the molecule, the registered cumulene paths are computed by the registry
   model of algorithms/stereo.py (Model.StereoRegistry, property C12) -- on the packed molecule for pack and on the
   DECODED molecule for unpack, as the code does -- and the result of unpack is a Graph.mol again. *)
From Coq Require Import ZArith List Bool.
From Model Require Import PyBase Graph StereoRegistry Pack PackSpec PackApi PackStereo PackStereoSpec.
Import ListNotations.
Open Scope Z_scope.

Definition nbr_of_bond (mb : Z * bond) : nbr := (fst mb, (b_ord (snd mb), b_stereo (snd mb))).
Definition bond_of_nbr (x : nbr) : Z * bond := (fst x, mkBond (fst (snd x)) (snd (snd x))).

(* what pack reads: _atoms in order, for each atom its attributes, its coordinate bytes and _bonds[n] in order *)
Definition atoms_of_mol (g : mol) (xyf : Z -> list Z) : list patom :=
  map (fun na => let a := snd na in
                 mkPAtom (fst na) (a_num a) (a_iso a) (a_stereo a) (a_h a) (a_chg a) (a_rad a) (xyf (fst na))
                         (map nbr_of_bond (nbrs g (fst na)))) (m_atoms g).

(* list(mol.stereogenic_cumulenes) *)
Definition reg_paths (g : mol) : pyres (list (list Z)) :=
  match cumulenes el_double g with
  | Ok ps => Ok (map fst (sg_cumulenes_of el_single g ps))
  | Err e => Err e
  end.

(* MoleculeContainer.pack(compressed=False, check=True) *)
Definition mc_pack (g : mol) (xyf : Z -> list Z) : pyres (list Z) :=
  match reg_paths g with
  | Err e => Err e
  | Ok paths => mol_pack true (api_pmol (atoms_of_mol g xyf) paths)
  end.

(* the molecule object the decoder builds *)
Definition mol_of_unpacked (ua : list uatom) (adj : ladj) : mol :=
  mkMol (map (fun u => (ua_n u, mkAtom (ua_an u) (ua_iso u) (ua_chg u) (ua_rad u) (ua_h u) (ua_stereo u))) ua)
        (map (fun e => (fst e, map bond_of_nbr (snd e))) adj).

(* MoleculeContainer.unpack(data, compressed=False, skip_labels_calculation=True, _return_pack_length=True):
   decode, compute _stereo_cis_trans_centers of the decoded molecule, attach the labels; also returns the coordinate
   bytes of the atoms in order *)
Definition mc_unpack (data : list Z) : pyres (mol * list (list Z) * Z) :=
  match getb data 0 with
  | None => Err IndexError
  | Some v =>
      if negb ((v =? 0) || (v =? 2)) then Err ValueError
      else match unpack data with
           | Err e => Err e
           | Ok u =>
               let g0 := mol_of_unpacked (up_atoms u) (ladj_of_unpacked u) in
               match reg_paths g0 with
               | Err e => Err e
               | Ok paths =>
                   match reattach (centers_of paths) (up_ct u) (ladj_of_unpacked u) with
                   | Err e => Err e
                   | Ok adj => Ok (mol_of_unpacked (up_atoms u) adj, map ua_xy (up_atoms u), up_size u)
                   end
               end
           end
  end.

(* the executable precondition, computed from the molecule alone: well formed (same keys in _atoms and _bonds, no loops,
   both directions of a bond carry equal Bond records), not empty, within the format limits, every labelled bond is the
   central bond of a registered path *)
Definition mc_ok (g : mol) (xyf : Z -> list Z) : bool :=
  wf_mol g &&
  match reg_paths g with
  | Err _ => false
  | Ok paths => negb (match m_atoms g with [] => true | _ => false end) &&
                pack_ok (api_pmol (atoms_of_mol g xyf) paths) && labelled_registered_b (atoms_of_mol g xyf) paths
  end.

(* an instance: F/C(Cl)=C=C=C(/F)Cl with the label on the central bond, atom 2 with an isotope, atom 6 a stereo label free
   carbon; coordinates 1.0, -2.5 on every atom *)
Definition ex_mol : mol :=
  mkMol [(1, mkAtom 9 None 0 false (Some 0) None); (2, mkAtom 6 (Some 13) 0 false (Some 0) None); (3, mkAtom 17 None 0 false (Some 0) None);
         (4, mkAtom 6 None 0 false (Some 0) None); (5, mkAtom 6 None 0 false (Some 0) None); (6, mkAtom 6 None 0 false (Some 0) None);
         (7, mkAtom 9 None 0 false (Some 0) None); (8, mkAtom 17 None (-1) true None None)]
        [(1, [(2, mkBond 1 None)]); (2, [(1, mkBond 1 None); (3, mkBond 1 None); (4, mkBond 2 None)]); (3, [(2, mkBond 1 None)]);
         (4, [(2, mkBond 2 None); (5, mkBond 2 (Some true))]); (5, [(4, mkBond 2 (Some true)); (6, mkBond 2 None)]);
         (6, [(5, mkBond 2 None); (7, mkBond 1 None); (8, mkBond 1 None)]); (7, [(6, mkBond 1 None)]); (8, [(6, mkBond 1 None)])].
Definition ex_xy (n : Z) : list Z := [60; 0; 193; 0].
