(* Model of chython/files/daylight/parser.py : parser(tokens, strong_cycle).

   INTERFACE (used by Reader.v and by C02):
     parse  : list token -> bool (* strong_cycle *) -> pyres parsed
     parsed : the returned dictionary {'atoms', 'bonds', 'order', 'stereo_atoms', 'stereo_bonds', 'log'}
              (dictionaries are association lists in insertion order; 'log' is the number of log lines, every line
               being the text 'ignored difference in cycle bonds')
     step / loop / finish / guard : one iteration of the `for` loop, the loop, the three final checks, the check of
              the first token(s); the machine state `pstate` holds exactly the local variables of the function.
   Token shapes the tokenizer cannot produce (e.g. a type-9 token whose value is not a bool) return Err OtherError;
   ParserProofs shows this is unreachable for well-shaped tokens (tok_wf).  An atom branch reached with a non-dict
   value returns the AttributeError Python raises on `token.get`. *)
From Coq Require Import ZArith List String Ascii Bool.
From Model Require Import PyBase Tokenize.
Import ListNotations.
Open Scope Z_scope.

(* Python `==` between the values a bond token can carry (int, bool, list, QueryBond) *)
Definition bool_z (b : bool) : Z := if b then 1 else 0.
Definition py_eq (a b : payload) : bool :=
  match a, b with
  | PInt x, PInt y => x =? y
  | PInt x, PBool y | PBool y, PInt x => x =? bool_z y
  | PBool x, PBool y => Bool.eqb x y
  | PInt x, PQB os _ | PQB os _, PInt x => zmem x os            (* QueryBond.__eq__(int): order in self.order *)
  | PBool x, PQB os _ | PQB os _, PBool x => zmem (bool_z x) os
  | PQB x i, PQB y j => list_eqb Z.eqb x y && Bool.eqb i j
  | PZs x, PZs y => list_eqb Z.eqb x y
  | PNone, PNone => true
  | PStr x, PStr y => String.eqb x y
  | _, _ => false
  end.

(* ---- order: defaultdict(list) of neighbour numbers (None = place reserved for a ring closure) *)
Definition odict := list (Z * list (option Z)).
Fixpoint od_upd (o : odict) (k : Z) (f : list (option Z) -> list (option Z)) : odict :=
  match o with
  | [] => []
  | (k', v) :: r => if k =? k' then (k', f v) :: r else (k', v) :: od_upd r k f
  end.
Definition od_touch (o : odict) (k : Z) : odict := match zget o k with Some _ => o | None => o ++ [(k, [])] end.
Definition od_get (o : odict) (k : Z) : list (option Z) := match zget o k with Some l => l | None => [] end.
Definition od_append (o : odict) (k : Z) (v : option Z) : odict := od_upd (od_touch o k) k (fun l => l ++ [v]).
Fixpoint list_set {A} (l : list A) (i : nat) (v : A) : option (list A) :=
  match l, i with
  | [], _ => None
  | _ :: r, O => Some (v :: r)
  | x :: r, S k => match list_set r k v with Some r' => Some (x :: r') | None => None end
  end.
(* order[k][ind] = v *)
Definition od_set (o : odict) (k : Z) (ind : Z) (v : option Z) : pyres odict :=
  let o' := od_touch o k in
  if ind <? 0 then Err IndexError else
  match list_set (od_get o' k) (Z.to_nat ind) v with
  | Some l' => Ok (od_upd o' k (fun _ => l'))
  | None => Err IndexError
  end.

(* ---- stereo_bonds: defaultdict(dict) *)
Definition sdict := list (Z * list (Z * bool)).
Fixpoint zset {V} (d : list (Z * V)) (k : Z) (v : V) : list (Z * V) :=
  match d with
  | [] => [(k, v)]
  | (k', v') :: r => if k =? k' then (k', v) :: r else (k', v') :: zset r k v
  end.
Fixpoint zdel {V} (d : list (Z * V)) (k : Z) : list (Z * V) :=
  match d with
  | [] => []
  | (k', v') :: r => if k =? k' then r else (k', v') :: zdel r k
  end.
(* stereo_bonds[a][m] = v *)
Definition sb_set (s : sdict) (a m : Z) (v : bool) : sdict :=
  zset s a (zset (match zget s a with Some d => d | None => [] end) m v).

(* ---- the machine *)
Definition cyc := (Z * option token * Z)%type.       (* cycles[token] = (last_num, previous, len(order[last_num])) *)
Record pstate := mkP {
  ps_atoms : list atomtok;
  ps_types : list Z;                      (* atoms_types *)
  ps_bonds : list (Z * Z * payload);
  ps_order : odict;
  ps_n : Z;                               (* atom_num *)
  ps_last : Z;                            (* last_num *)
  ps_stack : list Z;                      (* head = top of the Python list *)
  ps_cycles : list (Z * cyc);
  ps_satoms : list (Z * bool);            (* stereo_atoms *)
  ps_sbonds : sdict;                      (* stereo_bonds *)
  ps_prev : option token;                 (* previous *)
  ps_log : Z
}.
Definition p_init : pstate := mkP [] [] [] [] 0 0 [] [] [] [] None 0.

Definition set_prev (s : pstate) (p : option token) : pstate :=
  mkP (ps_atoms s) (ps_types s) (ps_bonds s) (ps_order s) (ps_n s) (ps_last s) (ps_stack s) (ps_cycles s) (ps_satoms s) (ps_sbonds s) p (ps_log s).
Definition set_last_stack (s : pstate) (l : Z) (st : list Z) : pstate :=
  mkP (ps_atoms s) (ps_types s) (ps_bonds s) (ps_order s) (ps_n s) l st (ps_cycles s) (ps_satoms s) (ps_sbonds s) (ps_prev s) (ps_log s).

(* atoms_types[i] *)
Definition type_at (s : pstate) (i : Z) : pyres Z :=
  if i <? 0 then Err IndexError else match nth_error (ps_types s) (Z.to_nat i) with Some t => Ok t | None => Err IndexError end.
(* the value of a type-9 token as a bool *)
Definition as_bool (p : payload) : pyres bool := match p with PBool b => Ok b | _ => Err OtherError end.

(* 4 if x == y == 8 else 1 *)
Definition arom_or_single (x y : Z) : payload := if (x =? y) && (y =? 8) then PInt 4 else PInt 1.

(* 4 if atoms_types[last_num] == atoms_types[a] == 8 else 1 *)
Definition arom_at (s : pstate) (a : Z) : pyres payload :=
  match type_at s (ps_last s) with
  | Err e => Err e
  | Ok tl => match type_at s a with
             | Err e => Err e
             | Ok ta => Ok (arom_or_single tl ta)
             end
  end.

(* closing of ring closure `k` opened as (a, ob, ind): the bond value, stereo_bonds, log; or the raise *)
Definition close_bond (strong : bool) (s : pstate) (a : Z) (ob : option token) : pyres (payload * sdict * Z * option token) :=
  let last := ps_last s in
  match ob with
  | Some (obt, obv) =>
    match ps_prev s with
    | None =>
        if obt =? 9 then match as_bool obv with
                         | Ok v => match arom_at s a with
                                   | Ok b => Ok (b, sb_set (sb_set (ps_sbonds s) a last v) last a (negb v), ps_log s, None)
                                   | Err e => Err e end
                         | Err e => Err e end
        else if strong then ISm
        else Ok (obv, ps_sbonds s, ps_log s + 1, None)
    | Some (bt, b) =>
        if bt =? 9 then
          match as_bool b with
          | Err e => Err e
          | Ok v =>
            let sb1 := sb_set (ps_sbonds s) last a v in                       (* stereo_bonds[last_num][a] = b *)
            if obt =? 9 then
              match as_bool obv with
              | Err e => Err e
              | Ok ov => match arom_at s a with
                         | Ok b' => Ok (b', sb_set sb1 a last ov, ps_log s, None)
                         | Err e => Err e end
              end
            else if negb (py_eq obv (PInt 1)) then ISm
            else Ok (PInt 1, sb_set sb1 a last (negb v), ps_log s, None)
          end
        else if obt =? 9 then
          if negb (py_eq b (PInt 1)) then ISm
          else match as_bool obv with
               | Ok v => Ok (b, sb_set (sb_set (ps_sbonds s) a last v) last a (negb v), ps_log s, None)
               | Err e => Err e end
        else if negb (py_eq b obv) then ISm
        else Ok (b, ps_sbonds s, ps_log s, None)
    end
  | None =>
    match ps_prev s with
    | Some (bt, b) =>
        if bt =? 9 then match as_bool b with
                        | Ok v => match arom_at s a with
                                  | Ok b' => Ok (b', sb_set (sb_set (ps_sbonds s) last a v) a last (negb v), ps_log s, None)
                                  | Err e => Err e end
                        | Err e => Err e end
        else if strong then ISm
        else Ok (b, ps_sbonds s, ps_log s + 1, None)
    | None =>
        match arom_at s a with
        | Ok b => Ok (b, ps_sbonds s, ps_log s, None)
        | Err e => Err e
        end
    end
  end.

Definition step (strong : bool) (s : pstate) (tok : token) : pyres pstate :=
  let '(ty, v) := tok in
  if ty =? 2 then
    match ps_prev s with
    | Some (pt, _) => if negb (pt =? 4) then ISm
                      else Ok (set_last_stack (set_prev s None) (ps_last s) (ps_last s :: ps_stack s))
    | None => Ok (set_last_stack s (ps_last s) (ps_last s :: ps_stack s))
    end
  else if ty =? 3 then
    match ps_prev s with
    | Some _ => ISm
    | None => match ps_stack s with
              | [] => ISm                                                 (* IndexError of stack.pop() is caught *)
              | x :: r => Ok (set_last_stack s x r)
              end
    end
  else if zmem ty [1; 4; 9; 10; 12] then
    match ps_prev s with
    | Some _ => ISm
    | None => match ps_atoms s with
              | [] => ISm
              | _ => Ok (set_prev s (Some (ty, v)))
              end
    end
  else if ty =? 6 then
    if (match ps_prev s with Some (pt, _) => pt =? 4 | None => false end) then ISm
    else match v with
         | PInt k =>
           match zget (ps_cycles s) k with
           | None =>
               let o1 := od_touch (ps_order s) (ps_last s) in
               let ind := Z.of_nat (List.length (od_get o1 (ps_last s))) in
               Ok (mkP (ps_atoms s) (ps_types s) (ps_bonds s) (od_append o1 (ps_last s) None) (ps_n s) (ps_last s) (ps_stack s)
                       (ps_cycles s ++ [(k, (ps_last s, ps_prev s, ind))]) (ps_satoms s) (ps_sbonds s) None (ps_log s))
           | Some (a, ob, ind) =>
               match close_bond strong s a ob with
               | Err e => Err e
               | Ok (b, sb, lg, _) =>
                   match od_set (ps_order s) a ind (Some (ps_last s)) with
                   | Err e => Err e
                   | Ok o1 =>
                       Ok (mkP (ps_atoms s) (ps_types s) (ps_bonds s ++ [(ps_last s, a, b)]) (od_append o1 (ps_last s) (Some a))
                               (ps_n s) (ps_last s) (ps_stack s) (zdel (ps_cycles s) k) (ps_satoms s) sb None lg)
                   end
               end
           end
         | _ => Err TypeError                                            (* model only: closure numbers are ints *)
         end
  else (* atom *)
    match (match ps_atoms s with
           | [] => Ok (ps_bonds s, ps_order s, ps_sbonds s)
           | _ =>
             let n := ps_n s in let last := ps_last s in
             let link o := od_append (od_append o last (Some n)) n (Some last) in
             match ps_prev s with
             | None =>
                 match type_at s last with
                 | Err e => Err e
                 | Ok tl => Ok (ps_bonds s ++ [(n, last, arom_or_single ty tl)], link (ps_order s), ps_sbonds s)
                 end
             | Some (bt, b) =>
                 if bt =? 9 then
                   match type_at s last with
                   | Err e => Err e
                   | Ok tl => match as_bool b with
                              | Err e => Err e
                              | Ok bv => Ok (ps_bonds s ++ [(n, last, arom_or_single ty tl)], link (ps_order s),
                                             sb_set (sb_set (ps_sbonds s) last n bv) n last (negb bv))
                              end
                   end
                 else if zmem bt [1; 10; 12] then Ok (ps_bonds s ++ [(n, last, b)], link (ps_order s), ps_sbonds s)
                 else Ok (ps_bonds s, ps_order s, ps_sbonds s)
             end
           end) with
    | Err e => Err e
    | Ok (bonds, order, sb) =>
      match v with
      | PAtom a =>
          let sat := match at_stereo a with Some x => ps_satoms s ++ [(ps_n s, x)] | None => ps_satoms s end in
          let a' := mkAt (at_el a) (at_iso a) (at_map a) (at_chg a) (at_h a) None in
          let prev := match ps_atoms s with [] => ps_prev s | _ => None end in
          Ok (mkP (ps_atoms s ++ [a']) (ps_types s ++ [ty]) bonds order (ps_n s + 1) (ps_n s) (ps_stack s) (ps_cycles s)
                  sat sb prev (ps_log s))
      | _ => Err AttributeError
      end
    end.

Fixpoint loop (strong : bool) (s : pstate) (ts : list token) : pyres pstate :=
  match ts with
  | [] => Ok s
  | t :: r => match step strong s t with Ok s' => loop strong s' r | Err e => Err e end
  end.

Record parsed := mkParsed {
  p_atoms : list atomtok;
  p_bonds : list (Z * Z * payload);
  p_order : odict;
  p_stereo_atoms : list (Z * bool);
  p_stereo_bonds : sdict;
  p_log : Z
}.

Definition finish (s : pstate) : pyres parsed :=
  match ps_stack s with
  | _ :: _ => ISm
  | [] => match ps_cycles s with
          | _ :: _ => ISm
          | [] => match ps_prev s with
                  | Some _ => ISm
                  | None => Ok (mkParsed (ps_atoms s) (ps_bonds s) (ps_order s) (ps_satoms s) (ps_sbonds s) (ps_log s))
                  end
          end
  end.

(* t1 = tokens[0][0]; if t1 == 2: tokens[1][0] must be an atom; elif t1 not an atom: raise *)
Definition guard (ts : list token) : pyres unit :=
  match ts with
  | [] => Err IndexError
  | (t1, _) :: r =>
      if t1 =? 2 then
        match r with
        | [] => ISm                                   (* len(tokens) < 2 *)
        | (t2, _) :: _ => if zmem t2 [0; 8] then Ok tt else ISm
        end
      else if zmem t1 [0; 8] then Ok tt else ISm
  end.

Definition parse (ts : list token) (strong : bool) : pyres parsed :=
  match guard ts with
  | Err e => Err e
  | Ok _ => match loop strong p_init ts with
            | Err e => Err e
            | Ok s => finish s
            end
  end.

(* ---- equality for the correspondence *)
Definition triple_eqb (x y : Z * Z * payload) : bool :=
  let '(a, b, c) := x in let '(a', b', c') := y in (a =? a') && (b =? b') && payload_eqb c c'.
Definition parsed_eqb (x y : parsed) : bool :=
  list_eqb atomtok_eqb (p_atoms x) (p_atoms y) &&
  list_eqb triple_eqb (p_bonds x) (p_bonds y) &&
  list_eqb (fun a b => (fst a =? fst b) && list_eqb (option_eqb Z.eqb) (snd a) (snd b)) (p_order x) (p_order y) &&
  list_eqb (fun a b => (fst a =? fst b) && Bool.eqb (snd a) (snd b)) (p_stereo_atoms x) (p_stereo_atoms y) &&
  list_eqb (fun a b => (fst a =? fst b) && list_eqb (fun c d => (fst c =? fst d) && Bool.eqb (snd c) (snd d)) (snd a) (snd b))
           (p_stereo_bonds x) (p_stereo_bonds y) &&
  (p_log x =? p_log y).

(* ------------------------------------------------------------------------------------------------ text form (correspondence) *)
Open Scope string_scope.
Definition show_list {A} (f : A -> string) (l : list A) : string := String.concat "," (map f l).
Definition show_parsed (p : parsed) : string :=
  show_list show_atom (p_atoms p) ++ ";" ++
  show_list (fun t => let '(a, b, c) := t in "(" ++ show_z a ++ "." ++ show_z b ++ "." ++ show_payload c ++ ")") (p_bonds p) ++ ";" ++
  show_list (fun kv => show_z (fst kv) ++ ":[" ++ String.concat "." (map (show_opt show_z) (snd kv)) ++ "]") (p_order p) ++ ";" ++
  show_list (fun kv => show_z (fst kv) ++ ":" ++ show_bool (snd kv)) (p_stereo_atoms p) ++ ";" ++
  show_list (fun kv => show_z (fst kv) ++ ":{" ++ String.concat "." (map (fun mv => show_z (fst mv) ++ ":" ++ show_bool (snd mv)) (snd kv)) ++ "}")
            (p_stereo_bonds p) ++ ";" ++ show_z (p_log p).
(* token sequences over an alphabet, given by indices *)
Definition pick (alpha : list token) (idx : list nat) : list token := map (fun i => nth i alpha (0, PNone)) idx.
Definition psweep (alpha : list token) (prefix : list nat) : list (list token) :=
  map (fun t => (pick alpha prefix ++ [t])%list) alpha.
(* prefix over the alphabet `alpha`, last token over `last` *)
Definition psweep2 (alpha last : list token) (prefix : list nat) : list (list token) :=
  map (fun t => (pick alpha prefix ++ [t])%list) last.
Definition b_parse (strong : bool) (inputs : list (list token)) := batch (fun ts => show_res show_parsed (parse ts strong)) inputs.
Definition b_parse_str (strong : bool) (inputs : list string) :=
  batch (fun s => show_res show_parsed (match tokenize s with Ok ts => parse ts strong | Err e => Err e end)) inputs.
Close Scope string_scope.
