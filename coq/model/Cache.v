(* C13 -- model of the mutable state of chython MoleculeContainer objects:
     chython/containers/graph.py      Graph.add_atom add_bond copy remap union flush_cache
     chython/containers/molecule.py   MoleculeContainer.add_atom add_bond delete_atom delete_bond copy union substructure
                                      fix_structure calc_labels calc_implicit flush_cache __enter__ __exit__
     chython/algorithms/standardize/molecule.py   the patch step of __standardize (one matched bond)
     chython/algorithms/stereo.py     fix_stereo (only its effect on the cache)

   A world holds a heap of bond objects (references = Python object identity), the current molecule and the
   other live molecules (results of copy / substructure / union, and the argument of union).

   Derived data are modelled as SNAPSHOTS of what they were computed from:
     - a cached property (an entry of the instance __dict__) is the pair (key, view of the molecule it was computed from);
     - the implicit-hydrogen count of an atom is the local environment calc_implicit read;
     - the labels calc_labels writes on an atom are the local environment it read; on a bond: written or not.
   So "the stored value is what a freshly rebuilt molecule reports" becomes "the snapshot equals (for the key:
   is equivalent to) the current view", and for any derive function the cached value derive k snapshot equals
   derive k (current view)  (Proofs.CacheProofs).

   The model mirrors the code as it is after the fix: commits 2606b7c .. 84053d6 (delete_* flush, copy()/substructure()
   set _changed/_backup, __exit__ restores _changed / flushes / tracks setter edits, add_bond(.., 8) labels, remap maps
   _changed). *)
From Coq Require Import ZArith List Bool.
From Model Require Import PyBase.
Import ListNotations.
Open Scope Z_scope.

(* ------------------------------------------------------------------------------------------------ *)
(* Python dict / set helpers (insertion-ordered association lists) *)
Fixpoint zset {V : Type} (d : list (Z * V)) (k : Z) (v : V) : list (Z * V) :=   (* d[k] = v *)
  match d with
  | [] => [(k, v)]
  | (k', v') :: r => if k =? k' then (k, v) :: r else (k', v') :: zset r k v
  end.
Definition zdel {V : Type} (d : list (Z * V)) (k : Z) : list (Z * V) :=          (* del d[k] (k present) *)
  filter (fun kv => negb (fst kv =? k)) d.
Definition zupdate {V : Type} (d e : list (Z * V)) : list (Z * V) :=              (* d.update(e) *)
  fold_left (fun acc kv => zset acc (fst kv) (snd kv)) e d.
(* set of ints kept sorted without duplicates *)
Fixpoint sadd (x : Z) (l : list Z) : list Z :=
  match l with
  | [] => [x]
  | y :: r => if x <? y then x :: l else if x =? y then l else y :: sadd x r
  end.
Definition zmax (l : list Z) (default : Z) : Z :=                 (* max(l, default=default) *)
  match l with [] => default | x :: r => fold_left Z.max r x end.

(* ------------------------------------------------------------------------------------------------ *)
(* atoms and bonds *)
Record acore := mkCore { c_num : Z; c_iso : option Z; c_chg : Z; c_rad : bool }.   (* primary data of an atom *)
Definition lenv := list (Z * Z).                   (* (bond order, neighbour atomic number) of the non-special bonds *)
Definition env := (acore * lenv)%type.             (* what calc_implicit reads *)
Record acell := mkA {
  a_core : acore;
  a_hyd : option env;     (* _implicit_hydrogens: None = never calculated, Some e = calculated from e *)
  a_lab : option lenv     (* _neighbors/_heteroatoms/_hybridization/_explicit_hydrogens: calculated from *)
}.
Record bcell := mkB {
  b_ord : Z;              (* _order *)
  b_lab : bool            (* _in_ring has been written *)
}.
Definition ref := Z.
Definition adjacency := list (Z * list (Z * ref)).
Record hp := mkH { h_cells : list (ref * bcell); h_next : ref }.
Definition hget (h : hp) (r : ref) : option bcell := zget (h_cells h) r.
Definition halloc (h : hp) (c : bcell) : hp * ref := (mkH ((h_next h, c) :: h_cells h) (h_next h + 1), h_next h).
Definition hset (h : hp) (r : ref) (c : bcell) : hp := mkH (zset (h_cells h) r c) (h_next h).

(* what a derive function may look at: atoms with their stored derived fields, adjacency with the bond objects resolved *)
Definition view := (list (Z * acell) * list (Z * list (Z * option bcell)))%type.

Inductive key := Knsc | Krc | Ksssr | Kar | Kars | Kcc | Kplain (i : Z).
(* not_special_connectivity rings_count sssr atoms_rings atoms_rings_sizes connected_components; Kplain 0 = any other
   entry of __dict__ (lumped), Kplain 1.. = brutto molecular_charge molecular_mass bonds_count skin_graph *)
Definition key_eqb (a b : key) : bool :=
  match a, b with
  | Knsc, Knsc | Krc, Krc | Ksssr, Ksssr | Kar, Kar | Kars, Kars | Kcc, Kcc => true
  | Kplain i, Kplain j => i =? j
  | _, _ => false
  end.
(* the cached property a cached property is computed from *)
Definition parent (k : key) : option key :=
  match k with Krc => Some Knsc | Ksssr => Some Krc | Kar => Some Ksssr | Kars => Some Kar | _ => None end.
Definition fam (k : key) : bool := match k with Knsc | Krc | Ksssr | Kar | Kars => true | _ => false end.
Definition is_cc (k : key) : bool := match k with Kcc => true | _ => false end.
Definition cache := list (key * view).
Fixpoint cget (c : cache) (k : key) : option view :=
  match c with [] => None | (k', v) :: r => if key_eqb k k' then Some v else cget r k end.

Record bk := mkBk {          (* the fields of the backup copy that __exit__ reads *)
  bk_atoms : list (Z * acell); bk_adj : adjacency; bk_cache : cache; bk_changed : option (list Z);
  bk_name : option Z; bk_meta : option (list (Z * Z))
}.
Record mobj := mkM {
  o_atoms : list (Z * acell);            (* _atoms *)
  o_adj : adjacency;                     (* _bonds *)
  o_cache : cache;                       (* __dict__ *)
  o_changed : option (list Z);           (* _changed: None or a set (kept sorted) *)
  o_backup : option bk;                  (* _backup *)
  o_name : option Z;                     (* _name *)
  o_meta : option (list (Z * Z))         (* _meta *)
}.
Definition set_atoms (o : mobj) x := mkM x (o_adj o) (o_cache o) (o_changed o) (o_backup o) (o_name o) (o_meta o).
Definition set_adj (o : mobj) x := mkM (o_atoms o) x (o_cache o) (o_changed o) (o_backup o) (o_name o) (o_meta o).
Definition set_cache (o : mobj) x := mkM (o_atoms o) (o_adj o) x (o_changed o) (o_backup o) (o_name o) (o_meta o).
Definition set_changed (o : mobj) x := mkM (o_atoms o) (o_adj o) (o_cache o) x (o_backup o) (o_name o) (o_meta o).
Definition set_backup (o : mobj) x := mkM (o_atoms o) (o_adj o) (o_cache o) (o_changed o) x (o_name o) (o_meta o).
Definition set_name (o : mobj) x := mkM (o_atoms o) (o_adj o) (o_cache o) (o_changed o) (o_backup o) x (o_meta o).
Definition set_meta (o : mobj) x := mkM (o_atoms o) (o_adj o) (o_cache o) (o_changed o) (o_backup o) (o_name o) x.

Definition row (o : mobj) (n : Z) : list (Z * ref) := match zget (o_adj o) n with Some l => l | None => [] end.
Definition slot_of (o : mobj) (n m : Z) : option ref := zget (row o n) m.
Definition view_of (h : hp) (o : mobj) : view :=
  (o_atoms o, map (fun nr => (fst nr, map (fun mr => (fst mr, hget h (snd mr))) (snd nr))) (o_adj o)).

(* ------------------------------------------------------------------------------------------------ *)
(* actions on one molecule: new heap, new molecule, raised exception *)
Definition res := (hp * mobj * option pyexn)%type.
Definition act := hp -> mobj -> res.
Definition ok (h : hp) (o : mobj) : res := (h, o, None).
Definition raise (e : pyexn) (h : hp) (o : mobj) : res := (h, o, Some e).
Definition seq (a b : act) : act := fun h o => match a h o with (h1, o1, None) => b h1 o1 | r => r end.
Notation "a ;; b" := (seq a b) (at level 61, right associativity).

(* Graph.flush_cache / MoleculeContainer.flush_cache(keep_sssr, keep_components) *)
Definition kept (ks kc : bool) (kv : key * view) : bool := (ks && fam (fst kv)) || (kc && is_cc (fst kv)).
Definition flush (ks kc : bool) : act := fun h o => ok h (set_cache o (filter (kept ks kc) (o_cache o))).

(* functools.cached_property: look the key up in __dict__, else compute (from the parent property, read the same way)
   and store.  The snapshot of a computed entry is the snapshot of what it was computed from. *)
Fixpoint read_key (fuel : nat) (v : view) (c : cache) (k : key) : cache * view :=
  match cget c k with
  | Some s => (c, s)
  | None =>
      match fuel with
      | O => (c, v)
      | S f =>
          match parent k with
          | None => (c ++ [(k, v)], v)
          | Some p => let cs := read_key f v c p in (fst cs ++ [(k, snd cs)], snd cs)
          end
      end
  end.
Definition read (k : key) : act := fun h o => ok h (set_cache o (fst (read_key 5 (view_of h o) (o_cache o) k))).

(* the (order, neighbour atomic number) pairs of the non-special bonds of atom n; KeyError on a dangling neighbour *)
Fixpoint lenv_of_row (h : hp) (atoms : list (Z * acell)) (r : list (Z * ref)) : pyres lenv :=
  match r with
  | [] => Ok []
  | (m, rf) :: t =>
      match hget h rf with
      | None => Err OtherError
      | Some c =>
          if b_ord c =? 8 then lenv_of_row h atoms t
          else match zget atoms m with
               | None => Err KeyError
               | Some a => match lenv_of_row h atoms t with
                           | Ok l => Ok ((b_ord c, c_num (a_core a)) :: l)
                           | Err e => Err e
                           end
               end
      end
  end.

(* calc_labels: reads atoms_rings_sizes and atoms_rings; writes _in_ring on every bond slot and the labels of every atom *)
Fixpoint mark_row (h : hp) (r : list (Z * ref)) : hp :=
  match r with
  | [] => h
  | (_, rf) :: t => mark_row (match hget h rf with Some c => hset h rf (mkB (b_ord c) true) | None => h end) t
  end.
Fixpoint label_rows (rows : adjacency) : act := fun h o =>
  match rows with
  | [] => ok h o
  | (n, r) :: t =>
      match lenv_of_row h (o_atoms o) r with
      | Err e => raise e h o
      | Ok l =>
          match zget (o_atoms o) n with
          | None => raise KeyError h o
          | Some a => label_rows t (mark_row h r) (set_atoms o (zset (o_atoms o) n (mkA (a_core a) (a_hyd a) (Some l))))
          end
      end
  end.
Definition calc_labels : act := read Kars ;; read Kar ;; (fun h o => label_rows (o_adj o) h o).

(* calc_implicit(n) *)
Definition calc_implicit (n : Z) : act := fun h o =>
  match zget (o_atoms o) n with
  | None => raise KeyError h o
  | Some a =>
      match zget (o_adj o) n with
      | None => raise KeyError h o
      | Some r =>
          match lenv_of_row h (o_atoms o) r with
          | Err e => raise e h o
          | Ok l => ok h (set_atoms o (zset (o_atoms o) n (mkA (a_core a) (Some (a_core a, l)) (a_lab a))))
          end
      end
  end.
Fixpoint calc_implicit_all (ns : list Z) : act :=
  match ns with [] => ok | n :: t => calc_implicit n ;; calc_implicit_all t end.

(* fix_structure(recalculate_hydrogens=True) *)
Definition fix_structure : act :=
  calc_labels ;;
  (fun h o => match o_changed o with
              | None | Some [] => calc_implicit_all (keys (o_atoms o)) h o      (* self._changed or self._atoms *)
              | Some l => calc_implicit_all l h o
              end) ;;
  (fun h o => ok h (set_changed o None)).

(* fix_stereo: as far as the cache is concerned, it reads the stereo registries (entries lumped in Kplain 0) *)
Definition fix_stereo : act := read (Kplain 0).

(* self._changed.add(..) for each of ns (or = {..}) *)
Definition mark_changed (ns : list Z) : act := fun h o =>
  match o_changed o with
  | None => ok h (set_changed o (Some (fold_right sadd [] ns)))
  | Some l => ok h (set_changed o (Some (fold_right sadd l ns)))
  end.
(* `if not _skip_calculation and self._backup is None:` *)
Definition unless_transaction (a : act) : act := fun h o =>
  match o_backup o with
  | None => a h o
  | Some _ => ok h o
  end.

(* ---- add_atom(atom, n) *)
Definition put_atom (c : acore) (n' : Z) : act := fun h o =>       (* self._atoms[n] = atom; self._bonds[n] = {} *)
  ok h (set_adj (set_atoms o (o_atoms o ++ [(n', mkA c None None)])) (o_adj o ++ [(n', [])])).
Definition add_atom (c : acore) (n : option Z) : act := fun h o =>
  let n' := match n with None => zmax (keys (o_atoms o)) 0 + 1 | Some x => x end in
  if match n with Some x => zmem x (keys (o_atoms o)) | None => false end then raise ValueError h o
  else (put_atom c n' ;;
        flush false false ;;
        mark_changed [n'] ;;
        unless_transaction fix_structure) h o.

(* ---- add_bond(n, m, order) *)
Definition valid_order (x : Z) : bool := (x =? 1) || (x =? 2) || (x =? 3) || (x =? 4) || (x =? 8).
(* self._bonds[n][m] = self._bonds[m][n] = Bond(order)   (n <> m, rn / rm = the rows of n / m) *)
Definition put_bond (n m ord : Z) (rn rm : list (Z * ref)) : act := fun h o =>
  let (h1, rf) := halloc h (mkB ord false) in
  ok h1 (set_adj o (zset (zset (o_adj o) n (zset rn m rf)) m (zset rm n rf))).
Definition add_bond (n m ord : Z) : act := fun h o =>
  if negb (valid_order ord) then raise ValueError h o
  else if n =? m then raise ValueError h o
  else match zget (o_adj o) n, zget (o_adj o) m with
       | Some rn, Some rm =>
           if zmem n (keys rm) then raise ValueError h o
           else (put_bond n m ord rn rm ;;
                 flush false false ;;
                 (if ord =? 8 then unless_transaction calc_labels          (* new bond needs ring label *)
                  else mark_changed [m; n] ;; unless_transaction (fix_structure ;; fix_stereo))) h o
       | _, _ => raise KeyError h o
       end.

(* ---- delete_atom(n) *)
Fixpoint unlink (n : Z) (r : list (Z * ref)) : act := fun h o =>        (* the loop over self._bonds.pop(n).items() *)
  match r with
  | [] => ok h o
  | (m, rf) :: t =>
      match zget (o_adj o) m with
      | None => raise KeyError h o
      | Some rm =>
          if negb (zmem n (keys rm)) then raise KeyError h o
          else let o1 := set_adj o (zset (o_adj o) m (zdel rm n)) in
               match hget h rf with
               | None => raise OtherError h o1
               | Some cl => if b_ord cl =? 8 then unlink n t h o1 else (mark_changed [m] ;; unlink n t) h o1
               end
      end
  end.
Definition discard_changed (n : Z) : act := fun h o =>             (* if self._changed is not None: self._changed.discard(n) *)
  ok h (set_changed o (match o_changed o with None => None | Some l => Some (filter (fun x => negb (x =? n)) l) end)).
Definition drop_atom (n : Z) : act := fun h o =>                   (* del self._atoms[n]; self._bonds.pop(n) *)
  ok h (set_adj (set_atoms o (zdel (o_atoms o) n)) (zdel (o_adj o) n)).
Definition delete_atom (n : Z) : act := fun h o =>
  match zget (o_atoms o) n, zget (o_adj o) n with
  | Some _, Some r =>
      (drop_atom n ;;
       unlink n r ;;
       discard_changed n ;;
       flush false false ;;
       unless_transaction (fix_structure ;; fix_stereo)) h o
  | _, _ => raise KeyError h o
  end.

(* ---- delete_bond(n, m) *)
Definition delete_bond (n m : Z) : act := fun h o =>
  match zget (o_adj o) n with
  | None => raise KeyError h o
  | Some rn =>
      match zget rn m with
      | None => raise KeyError h o
      | Some _ =>
          let o1 := set_adj o (zset (o_adj o) n (zdel rn m)) in
          match zget (o_adj o1) m with
          | None => raise KeyError h o1
          | Some rm =>
              match zget rm n with
              | None => raise KeyError h o1
              | Some rf =>
                  let o2 := set_adj o1 (zset (o_adj o1) m (zdel rm n)) in
                  match hget h rf with
                  | None => raise OtherError h o2
                  | Some cl =>
                      ((if b_ord cl =? 8 then ok else mark_changed [m; n]) ;;
                       flush false false ;;
                       unless_transaction (fix_structure ;; fix_stereo)) h o2
                  end
              end
          end
      end
  end.

(* ---- Graph.copy + MoleculeContainer.copy(keep_sssr, keep_components); the same loop builds substructure() *)
(* one row of the new adjacency; cb = rows built so far, including the (empty) row of n itself.
   keep m = the neighbour m belongs to the new molecule; f = what bond.copy(..) makes of a bond (or raises) *)
Fixpoint gcopy_row (keep : Z -> bool) (f : bcell -> pyres bcell) (h : hp) (cb : adjacency) (n : Z) (r : list (Z * ref))
  : pyres (hp * list (Z * ref)) :=
  match r with
  | [] => Ok (h, [])
  | (m, rf) :: t =>
      match zget cb m with
      | Some rowm =>                                   (* bond partially exists. need back-connection *)
          match zget rowm n with
          | None => Err KeyError
          | Some rf' => match gcopy_row keep f h cb n t with
                        | Ok (h1, l) => Ok (h1, (m, rf') :: l)
                        | Err e => Err e
                        end
          end
      | None =>
          if keep m then
            match hget h rf with
            | None => Err OtherError
            | Some cl =>
                match f cl with
                | Err e => Err e
                | Ok cl' => let (h1, rf') := halloc h cl' in
                            match gcopy_row keep f h1 cb n t with
                            | Ok (h2, l) => Ok (h2, (m, rf') :: l)
                            | Err e => Err e
                            end
                end
            end
          else gcopy_row keep f h cb n t
      end
  end.
Fixpoint gcopy_rows (keep : Z -> bool) (f : bcell -> pyres bcell) (h : hp) (cb : adjacency) (rows : adjacency) : pyres (hp * adjacency) :=
  match rows with
  | [] => Ok (h, cb)
  | (n, r) :: t =>
      match gcopy_row keep f h (zset cb n []) n r with
      | Err e => Err e
      | Ok (h1, l) => gcopy_rows keep f h1 (zset cb n l) t
      end
  end.
(* bond.copy(full=True) reads in_ring *)
Definition fcopy (cl : bcell) : pyres bcell := if b_lab cl then Ok cl else Err AttributeError.
Definition copy_rows (h : hp) (cb : adjacency) (rows : adjacency) : pyres (hp * adjacency) := gcopy_rows (fun _ => true) fcopy h cb rows.
Definition labelled (a : acell) : bool := match a_lab a with Some _ => true | None => false end.
Definition copy_mol (ks kc : bool) (h : hp) (o : mobj) : pyres (hp * mobj) :=
  if negb (forallb (fun na => labelled (snd na)) (o_atoms o)) then Err AttributeError   (* atom.copy(full=True) reads the labels *)
  else
  match copy_rows h [] (o_adj o) with
  | Err e => Err e
  | Ok (h1, cb) =>
      (* copy._changed = a copy of self._changed; copy._backup = None *)
      Ok (h1, mkM (o_atoms o) cb (filter (kept ks kc) (o_cache o)) (o_changed o) None (o_name o) (o_meta o))
  end.

(* ---- remap(mapping) *)
Definition mg (mp : list (Z * Z)) (n : Z) : Z := match zget mp n with Some x => x | None => n end.
Definition remap (mp : list (Z * Z)) : act := fun h o =>
  if negb (nodup_z (map snd mp)) ||
     existsb (fun n => negb (zmem n (keys mp)) && zmem n (map snd mp)) (keys (o_atoms o))
  then raise ValueError h o
  else (flush false false) h
         (set_changed
           (set_adj (set_atoms o (map (fun na => (mg mp (fst na), snd na)) (o_atoms o)))
                    (map (fun nr => (mg mp (fst nr), map (fun mr => (mg mp (fst mr), snd mr)) (snd nr))) (o_adj o)))
           (* MoleculeContainer.remap: inside a transaction every atom is marked (atoms can no longer be compared with the backup by
              number); otherwise self._changed = {mapping.get(n, n) for n in self._changed} *)
           (match o_backup o with
            | Some _ => Some (fold_right sadd [] (map (mg mp) (keys (o_atoms o))))
            | None => match o_changed o with None => None | Some l => Some (fold_right sadd [] (map (mg mp) l)) end
            end)).

(* ---- substructure(atoms) *)
(* bond.copy(stereo=True): no _in_ring *)
Definition fsub (cl : bcell) : pyres bcell := Ok (mkB (b_ord cl) false).
(* self._bonds[n] for the selected atoms, in order *)
Fixpoint rows_of (adj : adjacency) (ns : list Z) : pyres adjacency :=
  match ns with
  | [] => Ok []
  | n :: t => match zget adj n with
              | None => Err KeyError
              | Some r => match rows_of adj t with Ok l => Ok ((n, r) :: l) | Err e => Err e end
              end
  end.
Definition sub_rows (h : hp) (o : mobj) (sel : list Z) : pyres (hp * adjacency) :=
  match rows_of (o_adj o) sel with
  | Err e => Err e
  | Ok rows => gcopy_rows (fun m => zmem m sel) fsub h [] rows
  end.
(* sub.fix_structure(recalculate_hydrogens); sub.fix_stereo() *)
Definition sub_finish (rh : bool) : act :=
  if rh then fix_structure ;; fix_stereo
  else (calc_labels ;; (fun h o => ok h (set_changed o None))) ;; fix_stereo.
(* returns the new molecule and the exception raised by its fix_structure/fix_stereo, if any; rh = recalculate_hydrogens *)
Definition substructure_g (rh : bool) (ats : list Z) (h : hp) (o : mobj) : pyres (hp * mobj * option pyexn) :=
  match ats with
  | [] => Err ValueError
  | _ =>
      if negb (subset_z ats (keys (o_atoms o))) then Err ValueError
      else let sel := filter (fun n => zmem n ats) (keys (o_atoms o)) in       (* save original order *)
           match sub_rows h o sel with
           | Err e => Err e
           | Ok (h1, sb) =>
               let sa := map (fun n => (n, match zget (o_atoms o) n with
                                           | Some a => mkA (a_core a) (if rh then None else a_hyd a) None   (* atom.copy(hydrogens=not rh, stereo=True) *)
                                           | None => mkA (mkCore 0 None 0 false) None None end)) sel in
               Ok (sub_finish rh h1 (mkM sa sb [] None None None None))
           end
  end.
Definition substructure : list Z -> hp -> mobj -> pyres (hp * mobj * option pyexn) := substructure_g true.

(* ---- connected_components (as lists, in the order of their first atom) *)
Fixpoint closure (adj : adjacency) (cur : list Z) (fuel : nat) : list Z :=
  match fuel with
  | O => cur
  | S f =>
      let new := filter (fun y => negb (zmem y cur)) (flat_map (fun x => match zget adj x with Some r => keys r | None => [] end) cur) in
      match new with
      | [] => cur
      | _ => closure adj (cur ++ fold_right sadd [] new) f
      end
  end.
Fixpoint comps_from (adj : adjacency) (ks seen : list Z) : list (list Z) :=
  match ks with
  | [] => []
  | k :: t => if zmem k seen then comps_from adj t seen
              else let c := closure adj [k] (length adj) in c :: comps_from adj t (c ++ seen)
  end.
Definition comps (adj : adjacency) : list (list Z) := comps_from adj (keys adj) [].

(* ---- Standardize.standardize() with one rule that matches once: the patch step of __standardize (atom n gets
   charge += dch, bond n-m gets order bo) followed by fix_stereo *)
Definition patch (n m bo dch : Z) : act := fun h o =>
  if n =? m then raise ValueError h o        (* a match maps distinct pattern atoms to distinct atoms: guard of the harness stub *)
  else
  match zget (o_atoms o) n, zget (o_atoms o) m, zget (o_adj o) n, zget (o_adj o) m with
  | Some an, Some _, Some rn, Some rm =>
      let chg := c_chg (a_core an) + dch in
      if chg >? 4 then
        (* bad charge formed. changes omitted; the atom is still in hs *)
        (flush true true ;; calc_labels ;; calc_implicit n ;; fix_stereo) h o
      else
        let o1 := set_atoms o (zset (o_atoms o) n
                    (mkA (mkCore (c_num (a_core an)) (c_iso (a_core an)) chg (c_rad (a_core an))) (a_hyd an) (a_lab an))) in
        match zget rn m with
        | Some rf =>
            match hget h rf with
            | None => raise OtherError h o1
            | Some cl =>
                let ks := negb ((b_ord cl =? 8) || (bo =? 8)) in
                (flush ks true ;; calc_labels ;; calc_implicit n ;; calc_implicit m ;; fix_stereo) (hset h rf (mkB bo (b_lab cl))) o1
            end
        | None =>
            (put_bond n m bo rn rm ;; flush false false ;; calc_labels ;; calc_implicit n ;; calc_implicit m ;; fix_stereo) h o1
        end
  | _, _, _, _ => raise KeyError h o
  end.

(* ---- __enter__ / __exit__ *)
Definition enter : act := fun h o =>
  match o_backup o with
  | Some _ => raise OtherError h o          (* RuntimeError('nested transactions are not supported') *)
  | None =>
  match copy_mol true true h o with
  | Err e => raise e h o
  | Ok (h1, b) => ok h1 (set_backup o (Some (mkBk (o_atoms b) (o_adj b) (o_cache b) (o_changed b) (o_name b) (o_meta b))))
  end
  end.
Definition exit_exn : act := fun h o =>
  match o_backup o with
  | Some b => ok h (mkM (bk_atoms b) (bk_adj b) (bk_cache b) (bk_changed b) None (bk_name b) (bk_meta b))
  | None => raise AttributeError h o
  end.
(* atoms that are not in the backup under their number, or whose charge or radical state differs from it (attribute setters
   don't report changes) *)
Definition txn_diffs (o : mobj) (b : bk) : list Z :=
  flat_map (fun na => match zget (bk_atoms b) (fst na) with
                      | Some a0 => if (c_chg (a_core (snd na)) =? c_chg (a_core a0)) && Bool.eqb (c_rad (a_core (snd na))) (c_rad (a_core a0))
                                   then [] else [fst na]
                      | None => [fst na]
                      end) (o_atoms o).
Definition note_setters : act := fun h o =>      (* if self._changed is not None: self._changed.update(atoms edited through setters) *)
  match o_changed o with
  | None => ok h o
  | Some l => match o_backup o with
              | None => raise AttributeError h o            (* self._backup._atoms *)
              | Some b => ok h (set_changed o (Some (fold_right sadd l (txn_diffs o b))))
              end
  end.
Definition drop_backup : act := fun h o => ok h (set_backup o None).
Definition exit_ok : act := note_setters ;; flush false false ;; fix_structure ;; fix_stereo ;; drop_backup.

(* ---- mol.atom(n).charge = c / .is_radical = r *)
Definition set_charge (n v : Z) : act := fun h o =>
  match zget (o_atoms o) n with
  | None => raise KeyError h o
  | Some a =>
      if (v >? 4) || (v <? -4) then raise ValueError h o
      else ok h (set_atoms o (zset (o_atoms o) n
                   (mkA (mkCore (c_num (a_core a)) (c_iso (a_core a)) v (c_rad (a_core a))) (a_hyd a) (a_lab a))))
  end.
Definition set_radical (n : Z) (v : bool) : act := fun h o =>
  match zget (o_atoms o) n with
  | None => raise KeyError h o
  | Some a => ok h (set_atoms o (zset (o_atoms o) n
                      (mkA (mkCore (c_num (a_core a)) (c_iso (a_core a)) (c_chg (a_core a)) v) (a_hyd a) (a_lab a))))
  end.

(* ------------------------------------------------------------------------------------------------ *)
(* the state machine *)
Record state := mkS { s_heap : hp; s_cur : mobj; s_others : list mobj }.

Inductive op :=
| ORead (k : key)
| OAddAtom (c : acore) (n : option Z)
| OAddBond (n m ord : Z)
| ODelAtom (n : Z)
| ODelBond (n m : Z)
| ORemap (mp : list (Z * Z))
| OUnion (rmp cp : bool)            (* self.union(other, remap=, copy=); other = the first of the other live molecules *)
| OCopy                             (* self.copy(); the result becomes the first of the other live molecules *)
| OSub (ats : list Z)               (* self.substructure(ats); likewise *)
| OAnd (ats : list Z)               (* self & ats *)
| OMinus (ats : list Z)             (* self - ats *)
| OAug (ats : list Z) (deep : nat)  (* self.augmented_substructure(ats, deep) *)
| OSplit                            (* self.split(): the parts become live molecules, the last one first *)
| OSubH (ats : list Z)              (* self.substructure(ats, recalculate_hydrogens=False) *)
| OSwap                             (* continue with the first of the other live molecules *)
| OFlush (ks kc : bool)
| OEnter | OExitOk | OExitExn
| OSetCharge (n v : Z)
| OSetRadical (n : Z) (v : bool)
| OPatch (n m bo dch : Z)
| OSetName (x : Z)
| OSetMeta (k v : Z).

Definition lift (a : act) (s : state) : state * option pyexn :=
  match a (s_heap s) (s_cur s) with (h, o, e) => (mkS h o (s_others s), e) end.

Definition union (rmp cp : bool) (s : state) : state * option pyexn :=
  match s_others s with
  | [] => (s, Some OtherError)
  | other :: _ =>
      let h := s_heap s in
      let self := s_cur s in
      let collide := existsb (fun n => zmem n (keys (o_atoms other))) (keys (o_atoms self)) in
      if collide && negb rmp then (s, Some ValueError)
      else
        match copy_mol false false h other with
        | Err e => (s, Some e)
        | Ok (h1, oc) =>
            let r1 := if collide
                      then remap (combine (keys (o_atoms oc))
                                          (zrange_from (zmax (keys (o_atoms self)) 0 + 1) (length (o_atoms oc)))) h1 oc
                      else ok h1 oc in
            match r1 with
            | (h2, oc', Some e) => (mkS h2 self (s_others s), Some e)
            | (h2, oc', None) =>
                if cp then
                  match copy_mol false false h2 self with
                  | Err e => (mkS h2 self (s_others s), Some e)
                  | Ok (h3, u) =>
                      (mkS h3 self (set_adj (set_atoms u (zupdate (o_atoms u) (o_atoms oc'))) (zupdate (o_adj u) (o_adj oc'))
                                    :: s_others s), None)
                  end
                else
                  lift (flush false false)
                       (mkS h2 (set_adj (set_atoms self (zupdate (o_atoms self) (o_atoms oc'))) (zupdate (o_adj self) (o_adj oc')))
                            (s_others s))
            end
        end
  end.

(* substructure(ats) of the current molecule becomes the first of the other live molecules *)
Definition sub_step_g (rh : bool) (ats : list Z) (s : state) : state * option pyexn :=
  match substructure_g rh ats (s_heap s) (s_cur s) with
  | Err e => (s, Some e)
  | Ok (h, o, None) => (mkS h (s_cur s) (o :: s_others s), None)
  | Ok (h, _, Some e) => (mkS h (s_cur s) (s_others s), Some e)      (* the half-made object is dropped *)
  end.
Definition sub_step : list Z -> state -> state * option pyexn := sub_step_g true.
(* [self.substructure(c, recalculate_hydrogens=False) for c in self.connected_components]; old = the other live molecules before
   the call (an exception drops the parts made so far) *)
Fixpoint split_loop (cs : list (list Z)) (s : state) (old : list mobj) : state * option pyexn :=
  match cs with
  | [] => (s, None)
  | c :: t => match substructure_g false c (s_heap s) (s_cur s) with
              | Err e => (mkS (s_heap s) (s_cur s) old, Some e)
              | Ok (h, o, None) => split_loop t (mkS h (s_cur s) (o :: s_others s)) old
              | Ok (h, _, Some e) => (mkS h (s_cur s) old, Some e)
              end
  end.
(* _augmented_substructure: the last of the growing neighbourhoods (sets as lists; only membership matters) *)
Fixpoint aug_grow (adj : adjacency) (cur : list Z) (deep : nat) : pyres (list Z) :=
  match deep with
  | O => Ok cur
  | S d =>
      if negb (forallb (fun x => zmem x (keys adj)) cur) then Err KeyError              (* bonds[x] *)
      else let n := flat_map (fun x => match zget adj x with Some r => keys r | None => [] end) cur ++ cur in
           if same_keys_z n cur then Ok cur                                            (* if n in nodes: break *)
           else aug_grow adj n d
  end.
Definition step (s : state) (p : op) : state * option pyexn :=
  match p with
  | ORead k => lift (read k) s
  | OAddAtom a n => lift (add_atom a n) s
  | OAddBond n m ord => lift (add_bond n m ord) s
  | ODelAtom n => lift (delete_atom n) s
  | ODelBond n m => lift (delete_bond n m) s
  | ORemap mp => lift (remap mp) s
  | OUnion rmp cp => union rmp cp s
  | OCopy => match copy_mol false false (s_heap s) (s_cur s) with
             | Err e => (s, Some e)
             | Ok (h, o) => (mkS h (s_cur s) (o :: s_others s), None)
             end
  | OSub ats => sub_step ats s
  | OAnd ats => sub_step ats s                       (* __and__ = substructure *)
  | OMinus ats =>                                    (* __sub__: the complement, ValueError when it is everything *)
      if negb (subset_z ats (keys (o_atoms (s_cur s)))) then (s, Some ValueError)
      else match filter (fun n => negb (zmem n ats)) (keys (o_atoms (s_cur s))) with
           | [] => (s, Some ValueError)
           | c => sub_step c s
           end
  | OAug ats deep =>
      if negb (subset_z ats (keys (o_adj (s_cur s)))) then (s, Some ValueError)
      else match aug_grow (o_adj (s_cur s)) ats deep with
           | Err e => (s, Some e)
           | Ok c => sub_step c s
           end
  | OSubH ats => sub_step_g false ats s
  | OSplit => let s1 := fst (lift (read Kcc) s) in split_loop (comps (o_adj (s_cur s1))) s1 (s_others s1)
  | OSwap => match s_others s with
             | [] => (s, None)
             | o :: t => (mkS (s_heap s) o (s_cur s :: t), None)
             end
  | OFlush ks kc => lift (flush ks kc) s
  | OEnter => lift enter s
  | OExitOk => lift exit_ok s
  | OExitExn => lift exit_exn s
  | OSetCharge n v => lift (set_charge n v) s
  | OSetRadical n v => lift (set_radical n v) s
  | OPatch n m bo dch => lift (patch n m bo dch) s
  | OSetName x => lift (fun h o => ok h (set_name o (Some x))) s
  | OSetMeta k v => lift (fun h o => ok h (set_meta o (Some (zset (match o_meta o with Some d => d | None => [] end) k v)))) s
  end.

Definition run (ops : list op) (s : state) : state := fold_left (fun s p => fst (step s p)) ops s.
(* the exceptions raised along the way *)
Fixpoint trace (ops : list op) (s : state) : list (option pyexn) :=
  match ops with [] => [] | p :: t => snd (step s p) :: trace t (fst (step s p)) end.

(* ------------------------------------------------------------------------------------------------ *)
(* loading a molecule as the reader leaves it: every derived field calculated, labels written, _changed = _backup = None *)
Definition fresh_adj (bonds : list (Z * list (Z * Z))) (h : hp) : hp * adjacency :=
  (* bonds: n -> [(m, order)] symmetric; one bond object per unordered pair *)
  fold_left (fun (ha : hp * adjacency) (nr : Z * list (Z * Z)) =>
     let '(h1, row1) := fold_left (fun (hr : hp * list (Z * ref)) (mo : Z * Z) =>
          match zget (snd ha) (fst mo) with
          | Some rowm => match zget rowm (fst nr) with
                         | Some rf => (fst hr, snd hr ++ [(fst mo, rf)])
                         | None => let (h2, rf) := halloc (fst hr) (mkB (snd mo) false) in (h2, snd hr ++ [(fst mo, rf)])
                         end
          | None => let (h2, rf) := halloc (fst hr) (mkB (snd mo) false) in (h2, snd hr ++ [(fst mo, rf)])
          end) (snd nr) (fst ha, []) in
     (h1, snd ha ++ [(fst nr, row1)])) bonds (h, []).
Definition load (atoms : list (Z * acore)) (bonds : list (Z * list (Z * Z))) (h : hp) : hp * mobj * option pyexn :=
  let (h1, adj) := fresh_adj bonds h in
  (fix_structure ;; fix_stereo)
    h1 (mkM (map (fun na => (fst na, mkA (snd na) None None)) atoms) adj [] None None None None).
Definition init (atoms : list (Z * acore)) (bonds : list (Z * list (Z * Z)))
                (atoms2 : list (Z * acore)) (bonds2 : list (Z * list (Z * Z))) : state :=
  match load atoms bonds (mkH [] 0) with
  | (h1, o1, _) => match load atoms2 bonds2 h1 with (h2, o2, _) => mkS h2 o1 [o2] end
  end.

(* ------------------------------------------------------------------------------------------------ *)
(* observations compared with the implementation *)
Definition obs_atoms (o : mobj) : list (Z * (Z * Z * bool)) :=
  map (fun na => (fst na, (c_num (a_core (snd na)), c_chg (a_core (snd na)), c_rad (a_core (snd na))))) (o_atoms o).
Definition obs_adj (h : hp) (o : mobj) : list (Z * list (Z * Z)) :=
  map (fun nr => (fst nr, map (fun mr => (fst mr, match hget h (snd mr) with Some c => b_ord c | None => -1 end)) (snd nr))) (o_adj o).
Definition refs_of_adj (a : adjacency) : list ref := flat_map (fun nr => map snd (snd nr)) a.
Definition refs_of (o : mobj) : list ref :=
  refs_of_adj (o_adj o) ++ match o_backup o with Some b => refs_of_adj (bk_adj b) | None => [] end.
Definition all_refs (s : state) : list ref := refs_of (s_cur s) ++ flat_map refs_of (s_others s).
(* object identities renamed by first occurrence *)
Fixpoint canon_from (seen : list ref) (l : list ref) : list Z :=
  match l with
  | [] => []
  | r :: t => match index_of seen r with
              | Some i => i :: canon_from seen t
              | None => Z.of_nat (length seen) :: canon_from (seen ++ [r]) t
              end
  end.
Definition canon (l : list ref) : list Z := canon_from [] l.
Definition obs_keys (o : mobj) : list key := map fst (o_cache o).
Definition kmem (k : key) (l : list key) : bool := existsb (key_eqb k) l.
Definition same_keys (a b : list key) : bool := forallb (fun k => kmem k b) a && forallb (fun k => kmem k a) b.
Definition obs_changed (o : mobj) : Z * list Z :=         (* (0 = slot unset: impossible in the model), 1 None, 2 a set *)
  match o_changed o with None => (1, []) | Some l => (2, l) end.
Definition obs_backup (o : mobj) : Z := match o_backup o with None => 1 | Some _ => 2 end.
(* ------------------------------------------------------------------------------------------------ *)
(* when is a snapshot as good as the current view *)
Definition nsconn (v : view) : list (Z * list Z) :=      (* what not_special_connectivity is computed from *)
  map (fun nr => (fst nr, map fst (filter (fun mc => match snd mc with Some c => negb (b_ord c =? 8) | None => true end) (snd nr)))) (snd v).
Definition conn (v : view) : list (Z * list Z) :=        (* what connected_components is computed from *)
  map (fun nr => (fst nr, map fst (snd nr))) (snd v).
Definition equiv_for (k : key) (a b : view) : Prop :=
  if fam k then nsconn a = nsconn b else if is_cc k then conn a = conn b else a = b.

Definition zz_eqb (x y : Z * Z) : bool := (fst x =? fst y) && (snd x =? snd y).
Definition acore_eqb (a b : acore) : bool :=
  (c_num a =? c_num b) && option_eqb Z.eqb (c_iso a) (c_iso b) && (c_chg a =? c_chg b) && Bool.eqb (c_rad a) (c_rad b).
Definition lenv_eqb (a b : lenv) : bool := list_eqb zz_eqb a b.
Definition env_eqb (a b : env) : bool := acore_eqb (fst a) (fst b) && lenv_eqb (snd a) (snd b).
Definition acell_eqb (a b : acell) : bool :=
  acore_eqb (a_core a) (a_core b) && option_eqb env_eqb (a_hyd a) (a_hyd b) && option_eqb lenv_eqb (a_lab a) (a_lab b).
Definition bcell_eqb (a b : bcell) : bool := (b_ord a =? b_ord b) && Bool.eqb (b_lab a) (b_lab b).
Definition zl_eqb (a b : Z * list Z) : bool := (fst a =? fst b) && list_eqb Z.eqb (snd a) (snd b).
Definition view_eqb (a b : view) : bool :=
  list_eqb (fun x y => (fst x =? fst y) && acell_eqb (snd x) (snd y)) (fst a) (fst b) &&
  list_eqb (fun x y => (fst x =? fst y) &&
                       list_eqb (fun p q => (fst p =? fst q) && option_eqb bcell_eqb (snd p) (snd q)) (snd x) (snd y)) (snd a) (snd b).
Definition equivb (k : key) (a b : view) : bool :=
  if fam k then list_eqb zl_eqb (nsconn a) (nsconn b)
  else if is_cc k then list_eqb zl_eqb (conn a) (conn b) else view_eqb a b.

(* staleness of the stored derived data, as the model sees it *)
Definition hyd_fresh (h : hp) (o : mobj) (n : Z) : bool :=
  match zget (o_atoms o) n with
  | Some a => match lenv_of_row h (o_atoms o) (row o n) with
              | Ok l => option_eqb env_eqb (a_hyd a) (Some (a_core a, l))
              | Err _ => false
              end
  | None => false
  end.
Definition lab_fresh (h : hp) (o : mobj) (n : Z) : bool :=
  match zget (o_atoms o) n with
  | Some a => match lenv_of_row h (o_atoms o) (row o n) with
              | Ok l => option_eqb lenv_eqb (a_lab a) (Some l)
              | Err _ => false
              end
  | None => false
  end.
Definition entry_fresh (h : hp) (o : mobj) (k : key) : bool :=
  match cget (o_cache o) k with Some s => equivb k s (view_of h o) | None => true end.
Definition unlabelled (h : hp) (o : mobj) : list (Z * Z) :=       (* bond slots whose _in_ring was never written *)
  flat_map (fun nr => flat_map (fun mr => match hget h (snd mr) with
                                         | Some c => if b_lab c then [] else [(fst nr, fst mr)]
                                         | None => [(fst nr, fst mr)] end) (snd nr)) (o_adj o).

(* what the harness records about one live molecule after a step *)
Record obs := mkObs {
  x_atoms : list (Z * (Z * Z * bool));
  x_adj : list (Z * list (Z * Z));
  x_keys : list key;
  x_changed : Z * list Z;
  x_backup : Z;
  x_name : option Z;
  x_meta : option (list (Z * Z));
  x_unlabelled : list (Z * Z);
  x_stale_h : list Z;           (* atoms whose hydrogen count differs from a rebuilt molecule *)
  x_stale_lab : list Z;         (* atoms whose labels differ from a rebuilt molecule *)
  x_stale_keys : list key       (* tracked entries of __dict__ whose value differs from a rebuilt molecule *)
}.
Definition check_mol (strict : bool) (h : hp) (o : mobj) (x : obs) : bool :=
  list_eqb (fun a b => (fst a =? fst b) && (fst (fst (snd a)) =? fst (fst (snd b))) && (snd (fst (snd a)) =? snd (fst (snd b))) &&
                       Bool.eqb (snd (snd a)) (snd (snd b))) (obs_atoms o) (x_atoms x) &&
  list_eqb (fun a b => (fst a =? fst b) && list_eqb zz_eqb (snd a) (snd b)) (obs_adj h o) (x_adj x) &&
  same_keys (obs_keys o) (x_keys x) &&
  ((fst (obs_changed o) =? fst (x_changed x)) && list_eqb Z.eqb (snd (obs_changed o)) (snd (x_changed x))) &&
  (obs_backup o =? x_backup x) &&
  option_eqb Z.eqb (o_name o) (x_name x) &&
  option_eqb (list_eqb zz_eqb) (o_meta o) (x_meta x) &&
  (* what is stale in the implementation is stale in the model (the converse cannot be demanded: two different
     environments may have the same hydrogen count); skipped after an exception inside fix_structure *)
  (negb strict ||
   (list_eqb zz_eqb (unlabelled h o) (x_unlabelled x) &&
    forallb (fun n => negb (hyd_fresh h o n)) (x_stale_h x) &&
    forallb (fun n => negb (lab_fresh h o n)) (x_stale_lab x) &&
    forallb (fun k => negb (entry_fresh h o k)) (x_stale_keys x))).

Fixpoint forall2b {A B : Type} (f : A -> B -> bool) (a : list A) (b : list B) : bool :=
  match a, b with
  | [], [] => true
  | x :: r, y :: t => f x y && forall2b f r t
  | _, _ => false
  end.

(* one correspondence case: run the operations, compare the exceptions raised by each step, the final observation of every
   live molecule and the object-identity partition of all bond slots *)
Definition exn_eqb (a b : option pyexn) : bool := option_eqb pyexn_eqb a b.
Definition check_case (s0 : state) (ops : list op) (exns : list (option pyexn)) (strict : bool)
                      (cur : obs) (others : list obs) (ids : list Z) : bool :=
  let s := run ops s0 in
  list_eqb exn_eqb (trace ops s0) exns &&
  check_mol strict (s_heap s) (s_cur s) cur &&
  forall2b (fun o x => check_mol strict (s_heap s) o x) (s_others s) others &&
  list_eqb Z.eqb (canon (all_refs s)) ids.

(* a long sequence compared after every harness operation (a harness operation may be several model operations) *)
Record stepx := mkStep { st_ops : list op; st_exns : list (option pyexn); st_strict : bool; st_cur : obs; st_others : list obs;
                         st_ids : list Z }.
Fixpoint check_steps (s : state) (steps : list stepx) : bool :=
  match steps with
  | [] => true
  | x :: t =>
      let s' := run (st_ops x) s in
      list_eqb exn_eqb (trace (st_ops x) s) (st_exns x) &&
      check_mol (st_strict x) (s_heap s') (s_cur s') (st_cur x) &&
      forall2b (fun o y => check_mol (st_strict x) (s_heap s') o y) (s_others s') (st_others x) &&
      list_eqb Z.eqb (canon (all_refs s')) (st_ids x) &&
      check_steps s' t
  end.
(* index of the first disagreeing step (for reporting) *)
Fixpoint first_bad (s : state) (steps : list stepx) (i : Z) : Z :=
  match steps with
  | [] => -1
  | x :: t => if check_steps s [x] then first_bad (run (st_ops x) s) t (i + 1) else i
  end.
