(* Shared molecule representation of the models: insertion-ordered dictionaries as association lists, exactly the
   shape of MoleculeContainer._atoms / _bonds.  harness/coqmol.py prints live molecules in this form. *)
From Coq Require Import ZArith List Bool.
From Model Require Import PyBase.
Import ListNotations.
Open Scope Z_scope.

Record atom := mkAtom {
  a_num : Z;                 (* atomic number *)
  a_iso : option Z;          (* isotope *)
  a_chg : Z;                 (* formal charge *)
  a_rad : bool;              (* is_radical *)
  a_h : option Z;            (* implicit hydrogens; None = valence error / unknown *)
  a_stereo : option bool     (* tetrahedron / allene label *)
}.

Record bond := mkBond {
  b_ord : Z;                 (* 1 2 3 4(aromatic) 8(special/coordinate) *)
  b_stereo : option bool     (* cis/trans label *)
}.

Record mol := mkMol {
  m_atoms : list (Z * atom);                 (* _atoms, in insertion order *)
  m_adj : list (Z * list (Z * bond))         (* _bonds: n -> (m -> bond), both in insertion order *)
}.

Definition ids (g : mol) : list Z := keys (m_atoms g).
Definition atom_of (g : mol) (n : Z) : option atom := zget (m_atoms g) n.
Definition nbrs (g : mol) (n : Z) : list (Z * bond) := match zget (m_adj g) n with Some l => l | None => [] end.
Definition nbr_ids (g : mol) (n : Z) : list Z := keys (nbrs g n).
Definition bond_of (g : mol) (n m : Z) : option bond := zget (nbrs g n) m.

Definition atom_eqb (a b : atom) : bool :=
  (a_num a =? a_num b) && option_eqb Z.eqb (a_iso a) (a_iso b) && (a_chg a =? a_chg b) && Bool.eqb (a_rad a) (a_rad b) &&
  option_eqb Z.eqb (a_h a) (a_h b) && option_eqb Bool.eqb (a_stereo a) (a_stereo b).
Definition bond_eqb (a b : bond) : bool := (b_ord a =? b_ord b) && option_eqb Bool.eqb (b_stereo a) (b_stereo b).

Definition pair_eqb {A B} (ea : A -> A -> bool) (eb : B -> B -> bool) (x y : A * B) : bool :=
  ea (fst x) (fst y) && eb (snd x) (snd y).

(* equality as Python dict-of-dicts in the same insertion order (order matters for stereo and pack) *)
Definition mol_eqb (g h : mol) : bool :=
  list_eqb (pair_eqb Z.eqb atom_eqb) (m_atoms g) (m_atoms h) &&
  list_eqb (pair_eqb Z.eqb (list_eqb (pair_eqb Z.eqb bond_eqb))) (m_adj g) (m_adj h).

(* well-formedness of the adjacency: same keys as atoms, symmetric with equal bonds, no loops *)
Definition wf_mol (g : mol) : bool :=
  list_eqb Z.eqb (keys (m_atoms g)) (keys (m_adj g)) && nodup_z (ids g) &&
  forallb (fun nl => let n := fst nl in
     nodup_z (keys (snd nl)) &&
     forallb (fun mb => let m := fst mb in
        negb (m =? n) && zmem m (ids g) &&
        match bond_of g m n with Some b' => bond_eqb (snd mb) b' | None => false end) (snd nl)) (m_adj g).

(* simple undirected graph view used by the purely graph-theoretic models *)
Definition graph := list (Z * list Z).
Definition graph_of (g : mol) : graph := map (fun nl => (fst nl, keys (snd nl))) (m_adj g).
(* connectivity without special (order 8) bonds *)
Definition graph_of_not_special (g : mol) : graph :=
  map (fun nl => (fst nl, keys (filter (fun mb => negb (b_ord (snd mb) =? 8)) (snd nl)))) (m_adj g).
Definition gnbrs (g : graph) (n : Z) : list Z := match zget g n with Some l => l | None => [] end.
