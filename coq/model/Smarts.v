(* C08 -- SMARTS level: smarts_tokenize (_tokenize = Model.Tokenize.tokenize_raw; bracket bodies go through
   Query.query_parse), the query bond
   that QueryContainer.add_bond makes of a bond token, and the text form of results used by the correspondence runner
   harness/checks/C08.py.  Definitions only. *)
From Coq Require Import ZArith List String Ascii Bool.
From Model Require Import PyBase Graph PeriodicTable Tokenize Query.
From Gen Require Import TokenTables SmartsTables.
Import ListNotations.
Open Scope Z_scope.

(* ------------------------------------------------------------------------------------------------------------ *)
(* 1. smarts_tokenize                                                                                             *)

Inductive stoken :=
| SAtom (p : Query.parsed)          (* (0, dict) *)
| STok (t : token).                 (* every other token unchanged *)

Definition simple_query (sym : string) : Query.parsed :=
  mkParsed None None None None [ESym (list_ascii_of_string sym)] None None None None None false.

Definition smarts_token (t : token) : pyres stoken :=
  match t with
  | (ty, PStr s) =>
      if (ty =? 0) || (ty =? 8) then Ok (SAtom (simple_query s))
      else if ty =? 5 then match query_parse (list_ascii_of_string s) with Ok p => Ok (SAtom p) | Err e => Err e end
      else Ok (STok t)
  | _ => Ok (STok t)
  end.

Definition smarts_tokenize (s : string) : pyres (list stoken) :=
  match tokenize_raw s with
  | Ok ts => map_res smarts_token ts
  | Err e => Err e
  end.

(* ------------------------------------------------------------------------------------------------------------ *)
(* 2. the query bond made of a bond token: QueryContainer.add_bond -> QueryBond(order) for an int or a list,
      the QueryBond itself for a ring-marked token; QueryBond.__init__ sorts and removes duplicates                *)

Definition qbond_of_payload (p : payload) : pyres qbond :=
  match p with
  | PInt o => if zmem o qbond_orders then Ok (mkQB [o] None) else Err ValueError
  | PZs l => if forallb (fun o => zmem o qbond_orders) l then Ok (mkQB (sorted_set l) None) else Err ValueError
  | PQB l r => Ok (mkQB l (Some r))
  | _ => Err TypeError
  end.

(* the bond token between two atoms of  "C" ++ spelling ++ "C" *)
Definition bond_of_spelling (sp : string) : pyres qbond :=
  match tokenize_raw ("C" ++ sp ++ "C") with
  | Ok [(0, PStr "C"%string); (_, p); (0, PStr "C"%string)] => qbond_of_payload p
  | Ok [(0, PStr "C"%string); (0, PStr "C"%string)] => Ok (mkQB [1] None)      (* no symbol: single (both atoms aliphatic) *)
  | Ok (_ :: _ :: _ :: _ :: _) => Err IncorrectSmiles     (* parser(): '2 bonds in a row' (sp over the bond characters: every
                                                              token between the two atoms is a bond token) *)
  | Ok _ => Err OtherError
  | Err e => Err e
  end.

(* ------------------------------------------------------------------------------------------------------------ *)
(* 3. text form of results (correspondence runner)                                                                *)

Open Scope string_scope.
Definition l2s (l : list ascii) : string := string_of_list_ascii l.
Definition show_olist (o : option (list Z)) : string := show_opt show_zs o.
Definition show_ival (v : ival) : string := match v with IInt z => "i" ++ show_z z | IList l => show_zs l end.
Definition show_elt (e : elt) : string := match e with ENum n => "#" ++ show_z n | ESym s => l2s s end.
Definition show_parsed (p : Query.parsed) : string :=
  show_opt show_z (p_isotope p) ++ "|" ++ show_opt show_z (p_charge p) ++ "|" ++ show_opt show_z (p_mapping p) ++ "|" ++
  show_opt show_bool (p_stereo p) ++ "|" ++ String.concat "," (map show_elt (p_element p)) ++ "|" ++
  show_olist (p_nb p) ++ "|" ++ show_olist (p_h p) ++ "|" ++ show_opt show_ival (p_rings p) ++ "|" ++ show_olist (p_het p) ++ "|" ++
  show_opt show_ival (p_hyb p) ++ "|" ++ show_bool (p_masked p).
Definition show_qx (x : qx) : string :=
  show_z (x_chg x) ++ "|" ++ show_bool (x_rad x) ++ "|" ++ show_zs (x_nb x) ++ show_zs (x_hyb x) ++ show_zs (x_h x) ++
  show_zs (x_het x) ++ show_zs (x_rings x).
Definition show_qatom (q : qatom) : string :=
  match q with
  | QElem n i x => "E" ++ show_z n ++ "|" ++ show_opt show_z i ++ "|" ++ show_qx x
  | QAny x => "A|" ++ show_qx x
  | QList l x => "L" ++ show_zs l ++ "|" ++ show_qx x
  | QMetal nb hyb => "M" ++ show_zs nb ++ show_zs hyb
  end.
Definition show_qbond (q : qbond) : string := show_zs (qb_ord q) ++ show_opt show_bool (qb_ring q).
Definition show_stoken (t : stoken) : string :=
  match t with SAtom p => "a{" ++ show_parsed p ++ "}" | STok t => show_token t end.

Definition b_tokens (inputs : list string) := batch (fun s => show_res show_tokens (tokenize_raw s)) inputs.
Definition b_stokens (inputs : list string) :=
  batch (fun s => show_res (fun l => String.concat " " (map show_stoken l)) (smarts_tokenize s)) inputs.
Definition b_parse (inputs : list string) := batch (fun s => show_res show_parsed (query_parse (s2l s))) inputs.
Definition b_atom (inputs : list string) := batch (fun s => show_res show_qatom (smarts_atom (s2l s))) inputs.
Definition b_bond (inputs : list string) := batch (fun s => show_res show_qbond (bond_of_spelling s)) inputs.
(* all one-character extensions of a prefix (Tokenize.sweep) *)
Definition sw_tokens (prefix alpha : string) := b_tokens (sweep prefix alpha).
Definition sw_parse (prefix alpha : string) := b_parse (sweep prefix alpha).
Definition sw_atom (prefix alpha : string) := b_atom (sweep prefix alpha).

(* matching: one query against a list of atoms -> string of 0/1 (T = TypeError) *)
Definition show_match (r : pyres bool) : string := match r with Ok true => "1" | Ok false => "0" | Err _ => "E" end.
Definition b_match (q : qatom) (atoms : list latom) (expected : string) : bool :=
  String.eqb (String.concat "" (map (fun a => show_match (match_atom q a)) atoms)) expected.
(* from_atom: the 32 flag combinations (order: neighbors, hybridization, heteroatoms, hydrogens, ring_sizes; the last varies
   fastest), each shown as the built query followed by 1/0 = it matches the atom it was made from *)
Definition bools2 : list bool := [false; true].
Definition b_from_atom (a : latom) (expected : string) : bool :=
  String.eqb (String.concat nl
    (flat_map (fun f1 => flat_map (fun f2 => flat_map (fun f3 => flat_map (fun f4 => map (fun f5 =>
       let q := from_atom a f1 f2 f3 f4 f5 in (show_qatom q ++ show_match (match_atom q a))%string)
     bools2) bools2) bools2) bools2) bools2)) expected.
Close Scope string_scope.
(* the query API: _validate(value, prop) as the neighbors / heteroatoms / implicit_hydrogens setters call it with None, a bare
   int or a list / tuple (Query.validate_hyb and Query.validate_rings are the hybridization and ring_sizes setters) *)
Definition validate_api (lo hi : Z) (o : option ival) : pyres (list Z) :=
  match o with
  | None => Ok []
  | Some (IInt v) => if (v <? lo) || (hi <? v) then Err ValueError else Ok [v]
  | Some (IList l) => validate_list lo hi l
  end.
Definition b_api (kind : Z) (vals : list (option ival)) :=
  batch (fun o => show_res show_zs (if kind =? 0 then validate_api 0 14 o else if kind =? 1 then validate_hyb o else validate_rings o)) vals.
Open Scope string_scope.
(* sparse form: the positions (0-based) of the atoms that match, and of those on which the comparison raises *)
Fixpoint positions {A} (f : A -> bool) (l : list A) (i : Z) : list Z :=
  match l with [] => [] | x :: r => if f x then i :: positions f r (i + 1)%Z else positions f r (i + 1)%Z end.
Definition b_match_idx (q : qatom) (atoms : list latom) (trues errs : list Z) : bool :=
  list_eqb Z.eqb (positions (fun a => match match_atom q a with Ok true => true | _ => false end) atoms 0%Z) trues &&
  list_eqb Z.eqb (positions (fun a => match match_atom q a with Err _ => true | _ => false end) atoms 0%Z) errs.
Definition b_bmatch (q : qbond) (bonds : list lbond) (expected : string) : bool :=
  String.eqb (String.concat "" (map (fun b => if qbond_match q b then "1" else "0") bonds)) expected.

Close Scope string_scope.
(* ------------------------------------------------------------------------------------------------------------ *)
(* 4. calc_labels, whole rows: (neighbors, heteroatoms, hybridization, explicit hydrogens, in_ring, sorted ring sizes)
      of an atom and bond._in_ring (code after fix 23974ef: a special bond is never a ring bond), given the SSSR    *)
Definition label_row (g : mol) (sssr : list (list Z)) (n : Z) : Z * Z * Z * Z * bool * list Z :=
  let '(nb, het, hyb, eh) := labels_of (atom_env g n) in
  (nb, het, hyb, eh, atom_in_ring sssr n, sort_z (ring_sizes_of sssr n)).
Definition bond_ring_label (g : mol) (sssr : list (list Z)) (n m : Z) : option bool :=
  match bond_of g n m with
  | None => None
  | Some b => Some (if b_ord b =? 8 then false else bond_in_ring sssr n m)
  end.
Definition row_eqb (a b : Z * Z * Z * Z * bool * list Z) : bool :=
  let '(a1, a2, a3, a4, a5, a6) := a in let '(b1, b2, b3, b4, b5, b6) := b in
  (a1 =? b1) && (a2 =? b2) && (a3 =? b3) && (a4 =? b4) && Bool.eqb a5 b5 && list_eqb Z.eqb a6 b6.
Definition labels_ok (g : mol) (sssr : list (list Z)) (rows : list (Z * (Z * Z * Z * Z * bool * list Z)))
                     (brows : list (Z * Z * bool)) : bool :=
  forallb (fun r => row_eqb (label_row g sssr (fst r)) (snd r)) rows &&
  forallb (fun r => option_eqb Bool.eqb (bond_ring_label g sssr (fst (fst r)) (snd (fst r))) (Some (snd r))) brows &&
  (* the row of every atom was checked *)
  list_eqb Z.eqb (map fst rows) (ids g).
