(* Model of MoleculeStereo.add_wedge (chython/algorithms/stereo.py), allene and tetrahedron branch, over integer coordinates
   (the code uses floats), and of the cache contract of the label-setting API (add_wedge / add_atom_stereo /
   add_cis_trans_stereo): with clean_cache=True the cached SMILES is dropped in EVERY branch that stores a label.
   The guards (AtomNotFound, IsChiral, NotChiral) are not modelled: the functions describe the label a successful call stores
   (None = the drawing is degenerate, no label is stored). *)
From Coq Require Import ZArith List Bool.
From Model Require Import PyBase Stereo StereoSmiles.
Import ListNotations.
Open Scope Z_scope.

Definition xy_of (c : list (Z * (Z * Z))) (n : Z) : Z * Z := match zget c n with Some p => p | None => (0, 0) end.

(* tuple.index on (n0, n1, n2, n3) with None entries *)
Definition env_index (e : env4s) (m : Z) : option Z :=
  let '(n0, n1, n2, n3) := e in
  if m =? n0 then Some 0 else if m =? n1 then Some 1
  else if match n2 with Some y => m =? y | None => false end then Some 2
  else if match n3 with Some y => m =? y | None => false end then Some 3 else None.

(* allene branch: c centre, (t1, t2) = _stereo_allenes_terminals[c], e = stereogenic_allenes[c], wedge n -> m *)
Definition wedge_al (isH : Z -> bool) (e : env4s) (t1 t2 n m : Z) (c : list (Z * (Z * Z))) (mark : Z) : pyres (option bool) :=
  let '(n0, n1, _, _) := e in
  let sel := if isH m then Some (if t1 =? n then (t1, t2, n1, true) else (t2, t1, n0, true))
             else match env_index e m with
                  | Some 0 => Some (t1, t2, n1, false)
                  | Some 1 => Some (t2, t1, n0, false)
                  | Some 2 => Some (t1, t2, n1, true)
                  | Some _ => Some (t2, t1, n0, true)
                  | None => None
                  end in
  match sel with
  | None => Err ValueError
  | Some (a, b, m1, r) =>
      let s := allene_sign mark (xy_of c a) (xy_of c b) (xy_of c m1) in
      Ok (if s =? 0 then None else Some (if r then s <? 0 else 0 <? s))
  end.

Definition zlen_nb (l : list Z) : Z := Z.of_nat (List.length l).
(* tetrahedron branch: th = stereogenic_tetrahedrons[n], nb = list(_bonds[n]) *)
Definition xyz (c : list (Z * (Z * Z))) (x : Z) (z : Z) : Z * Z * Z := let '(a, b) := xy_of c x in (a, b, z).
Definition wedge_th (isH : Z -> bool) (th nb : list Z) (n m : Z) (c : list (Z * (Z * Z))) (mark : Z) : pyres (option bool) :=
  let res s := Ok (if s =? 0 then None else Some (0 <? s)) in
  if isH m then
    match map (fun x => xyz c x 0) th with
    | [u; v; w] => res (pyramid_sign (xyz c m mark) u v w)
    | _ => Err TypeError
    end
  else
    match map (fun x => xyz c x (if x =? m then mark else 0)) th with
    | [u; v; w] =>
        if zlen_nb nb =? 4 then
          match find (fun x => negb (zmem x th)) nb with
          | Some x => res (pyramid_sign (xyz c x 0) u v w)
          | None => Err StopIteration
          end
        else res (pyramid_sign (xyz c n 0) u v w)
    | [u; v; w; t] => res (pyramid_sign t u v w)
    | _ => Err TypeError
    end.

(* cache contract: a label-setting call that stores a label drops the cached SMILES iff clean_cache *)
Definition api_drops_smiles_cache (clean_cache : bool) : bool := clean_cache.
