(* C14 -- hand-written model of the ferrocene block of Standardize.standardize_charges (molecule.py, after the heterocycle loops):
   every five-membered all-aromatic SSSR ring with exactly one charged atom, charge -1, on a cyclopentadienyl carbon gets its charge
   moved to the ring carbon that comes first in the canonical order.
   Inputs (not modelled): self.sssr (list of rings), self.atoms_order recomputed after the charges were reset (`order`).
   `atoms[n].hybridization == 4` is modelled by its definition (the atom has an aromatic bond), `nsc[n]` (not_special_connectivity) by the
   neighbours over non-special bonds, `atoms[n] == C` by the atomic number. *)
From Coq Require Import ZArith List Bool.
From Model Require Import PyBase Graph Standardize StandardizeChargesBase StandardizeCharges StandardizeChargesPre.
Import ListNotations.
Open Scope Z_scope.

Record fstate := mkFS { fs_mol : mol; fs_fcr : list (list Z); fs_changed : list Z }.

Definition chg_of (g : mol) (n : Z) : Z := match atom_of g n with Some a => a_chg a | None => 0 end.
Definition is_arom (g : mol) (n : Z) : bool := existsb (fun mb => b_ord (snd mb) =? 4) (nbrs g n).
Definition is_carbon (g : mol) (n : Z) : bool := match atom_of g n with Some a => a_num a =? 6 | None => false end.
Definition nsc_deg (g : mol) (n : Z) : Z := Z.of_nat (List.length (filter (fun mb => negb (b_ord (snd mb) =? 8)) (nbrs g n))).
(* ch = [(n, x) for n in r if (x := atoms[n].charge)] *)
Definition charged_in (g : mol) (r : list Z) : list Z := filter (fun n => negb (chg_of g n =? 0)) r.
(* ca = [n for n in r if atoms[n] == C and (len(bs := nsc[n]) == 2 or len(bs) == 3 and any(b == 1 for b in bonds[n].values()))] *)
Definition cp_carbons (g : mol) (r : list Z) : list Z :=
  filter (fun n => is_carbon g n && ((nsc_deg g n =? 2) || ((nsc_deg g n =? 3) && existsb (fun mb => b_ord (snd mb) =? 1) (nbrs g n)))) r.

Definition ferro_ring (r : list Z) (st : fstate) : fstate :=
  let g := fs_mol st in
  if negb (Z.of_nat (List.length r) =? 5) || negb (forallb (is_arom g) r) then st
  else match charged_in g r with
       | [ch] =>
           if negb (chg_of g ch =? -1) then st
           else let ca := cp_carbons g r in
                if (Z.of_nat (List.length ca) <? 2) || negb (zmem ch ca) then st
                else mkFS (set_charge g ch 0) (fs_fcr st ++ [ca]) (fs_changed st ++ [ch])
       | _ => st
       end.

(* n = min(ca, key=self.atoms_order.get): the first element with the smallest rank *)
Fixpoint argmin (order : Z -> Z) (best : Z) (l : list Z) : Z :=
  match l with [] => best | x :: rest => argmin order (if order x <? order best then x else best) rest end.
Definition ferro_assign (order : Z -> Z) (ca : list Z) (st : fstate) : fstate :=
  match ca with
  | [] => st                                   (* unreachable: len(ca) >= 2 *)
  | x :: rest => let n := argmin order x rest in mkFS (set_charge (fs_mol st) n (-1)) (fs_fcr st) (fs_changed st ++ [n])
  end.

Definition ferrocene_block (sssr : list (list Z)) (order : Z -> Z) (g : mol) (changed : list Z) : fstate :=
  let st1 := fold_left (fun st r => ferro_ring r st) sssr (mkFS g [] changed) in
  fold_left (fun st ca => ferro_assign order ca st) (fs_fcr st1) st1.

(* executable hypothesis of the net-charge theorem: when a ring's charge is given back, the chosen carbon is neutral *)
Definition ferro_assign_pre (order : Z -> Z) (ca : list Z) (st : fstate) : bool :=
  match ca with [] => true | x :: rest => charge_is (fs_mol st) (argmin order x rest) 0 end.
Fixpoint ferro_assign_all_pre (order : Z -> Z) (cas : list (list Z)) (st : fstate) : bool :=
  match cas with
  | [] => true
  | ca :: rest => ferro_assign_pre order ca st && ferro_assign_all_pre order rest (ferro_assign order ca st)
  end.
Definition ferrocene_pre (sssr : list (list Z)) (order : Z -> Z) (g : mol) (changed : list Z) : bool :=
  let st1 := fold_left (fun st r => ferro_ring r st) sssr (mkFS g [] changed) in
  ferro_assign_all_pre order (fs_fcr st1) st1.
