(* C16 (extension) -- model of the loops around BaseReactor._patcher:
     chython/reactor/transformer.py: Transformer.__call__
     chython/reactor/reactor.py:     Reactor.__call__ (one_shot mode), Reactor._single_stage
     chython/containers/graph.py:    Graph.remap, Graph.union (as used by reduce(or_, chosen))

   What is NOT code of the reactor enters as a Section variable, i.e. every theorem is for ALL such functions:
     matcher : the list of matches (pattern.get_mapping / lazy_product of the get_mapping generators, dicts already merged),
               given the positions of the chosen reactants;
     splitf  : new.split() (connected components of the patched product) or [new];
     key     : str(r) of the ReactionContainer that would be yielded (after contract_ions).
   Python generators are modelled by the list of values they yield and the exception that ends them, if any. *)
From Coq Require Import ZArith List Bool Lia.
From Model Require Import PyBase Graph Reactor Stereo.
Import ListNotations.
Open Scope Z_scope.

(* ---------- generators ---------- *)
(* [f(x) for x in l] as a generator: the yielded values, and the exception raised by the first failing f(x) *)
Fixpoint gen_map {A B : Type} (f : A -> pyres B) (l : list A) : list B * option pyexn :=
  match l with
  | [] => ([], None)
  | x :: r => match f x with
              | Err e => ([], Some e)
              | Ok y => let '(ys, e) := gen_map f r in (y :: ys, e)
              end
  end.

(* the values before the first exception *)
Fixpoint take_ok {A : Type} (l : list (pyres A)) : list A * option pyexn :=
  match l with
  | [] => ([], None)
  | Err e :: _ => ([], Some e)
  | Ok y :: r => let '(ys, e) := take_ok r in (y :: ys, e)
  end.

(* ---------- Graph.remap ---------- *)
Definition mget (mp : list (Z * Z)) (n : Z) : Z := match zget mp n with Some m => m | None => n end.   (* mapping.get(n, n) *)
(*  self._atoms = {mg(n, n): atom for n, atom in self.atoms()}
    self._bonds = {mg(n, n): {mg(m, m): bond for m, bond in m_bond.items()} for n, m_bond in self._bonds.items()}  *)
Definition remap_mol (mp : list (Z * Z)) (g : mol) : mol :=
  mkMol (map (fun na => (mget mp (fst na), snd na)) (m_atoms g))
        (map (fun nl => (mget mp (fst nl), map (fun mb => (mget mp (fst mb), snd mb)) (snd nl))) (m_adj g)).
(*  if len(mapping) != len(set(mapping.values())) or not (self._atoms.keys() - mapping.keys()).isdisjoint(mapping.values()):
        raise ValueError('mapping overlap')
    (mapping is a dict: its keys are unique) *)
Definition remap_check (mp : list (Z * Z)) (g : mol) : bool :=
  nodup_z (map snd mp) && forallb (fun n => zmem n (keys mp) || negb (zmem n (map snd mp))) (ids g).
Definition remap_res (mp : list (Z * Z)) (g : mol) : pyres mol :=
  if remap_check mp g then Ok (remap_mol mp g) else Err ValueError.

(* ---------- Graph.union(other, remap=True), i.e. `self | other` ---------- *)
Fixpoint enum_from (l : list Z) (start : Z) : list (Z * Z) :=       (* {n: i for i, n in enumerate(l, start=start)} *)
  match l with [] => [] | n :: r => (n, start) :: enum_from r (start + 1) end.
(* u._atoms.update(other._atoms): an existing key keeps its position and takes the new value *)
Definition dict_update {V : Type} (d e : list (Z * V)) : list (Z * V) := fold_left (fun acc kv => zset acc (fst kv) (snd kv)) e d.
Definition union_mol (a b : mol) : pyres mol :=
  match zinter (ids a) (ids b) with
  | [] => Ok (mkMol (dict_update (m_atoms a) (m_atoms b)) (dict_update (m_adj a) (m_adj b)))
  | _ => match zmax_list (ids a) with
         | None => Err ValueError
         | Some mx => match remap_res (enum_from (ids b) (mx + 1)) b with
                      | Err e => Err e
                      | Ok b' => Ok (mkMol (dict_update (m_atoms a) (m_atoms b')) (dict_update (m_adj a) (m_adj b')))
                      end
         end
  end.
(* reduce(or_, chosen); None = TypeError (reduce of an empty sequence) *)
Definition union_all (chosen : list mol) : pyres mol :=
  match chosen with
  | [] => Err TypeError
  | a :: r => fold_left (fun acc b => match acc with Ok u => union_mol u b | Err e => Err e end) r (Ok a)
  end.

(* ---------- itertools.permutations(range(n), k) and s_nums.difference(chosen) ---------- *)
Fixpoint remove_nth {A : Type} (i : nat) (l : list A) : list A :=
  match i, l with
  | _, [] => []
  | O, _ :: r => r
  | S j, x :: r => x :: remove_nth j r
  end.
Fixpoint perms_k {A : Type} (k : nat) (l : list A) : list (list A) :=
  match k with
  | O => [[]]
  | S k' => flat_map (fun i => match nth_error l i with
                               | Some x => map (cons x) (perms_k k' (remove_nth i l))
                               | None => []
                               end) (seq 0 (length l))
  end.
Definition nat_mem (i : nat) (l : list nat) : bool := existsb (Nat.eqb i) l.
Definition others (n : nat) (chosen : list nat) : list nat := filter (fun i => negb (nat_mem i chosen)) (seq 0 n).
Definition pick {A : Type} (l : list A) (d : A) (idx : list nat) : list A := map (fun i => nth i l d) idx.

(* ====================================================================================================
   Transformer.__call__:  for mapping in self._pattern.get_mapping(structure, ...): yield self._patcher(structure, mapping)
   ==================================================================================================== *)
Definition transformer_call (to_del : list Z) (tpl : template) (matches : list (list (Z * Z))) (g : mol)
  : list mol * option pyexn :=
  gen_map (fun mp => match patcher_with get_deleted g mp to_del tpl with Ok (new, _) => Ok new | Err e => Err e end) matches.

(* ====================================================================================================
   Reactor._single_stage(chosen, ignored), one match:
       new = self._patcher(united_chosen, mapping)
       collision = set(new).intersection(ignored)
       if collision: new.remap(dict(zip(collision, count(max(max_ignored_number, max(new)) + 1))))
   The iteration order of the set `collision` is not modelled: it is the explicit input `cord`, which maps the colliding
   atoms in dict order to the order in which zip() pairs them with the new numbers (theorems: for every permutation).
   ==================================================================================================== *)
Definition stage_one (to_del : list Z) (tpl : template) (cord : list Z -> list Z) (united : mol) (ignored : list Z)
  (mapping : list (Z * Z)) : pyres mol :=
  match patcher_with get_deleted united mapping to_del tpl with
  | Err e => Err e
  | Ok (new, _) =>
      match zinter (ids new) ignored with
      | [] => Ok new
      | collision => match zmax_list (ids new) with
                     | Some b => remap_res (zip_count (cord collision) (Z.max (zmax0 ignored) b + 1)) new
                     | None => Err ValueError
                     end
      end
  end.

(*  for match in lazy_product(...):  ...  united_chosen = reduce(or_, chosen) (on the first match) ... yield new.split() / [new] *)
Definition single_stage (to_del : list Z) (tpl : template) (cord : list Z -> list Z) (splitf : mol -> list mol)
  (matches : list (list (Z * Z))) (chosen : list mol) (ignored : list Z) : list (list mol) * option pyexn :=
  match matches with
  | [] => ([], None)
  | _ => match union_all chosen with
         | Err e => ([], Some e)
         | Ok united => gen_map (fun mp => match stage_one to_del tpl cord united ignored mp with
                                           | Ok new => Ok (splitf new)
                                           | Err e => Err e
                                           end) matches
         end
  end.

(* ====================================================================================================
   Reactor.__call__, one_shot=True (structures = fix_mapping_overlap(structures) already applied):
       for chosen in permutations(s_nums, len_patterns):
           ignored = [structures[x] for x in s_nums.difference(chosen)]; chosen = [structures[x] for x in chosen]
           for new in self._single_stage(chosen, {x for x in ignored for x in x}):
               r = ReactionContainer(chosen + ignored, new + ignored)        (copies)
               if len(new) > 1: r.contract_ions()
               if str(r) in seen: continue
               seen.add(str(r)); yield r
   ==================================================================================================== *)
Record cand := mkCand {
  c_chosen : list nat;          (* positions of the chosen reactants *)
  c_match : nat;                (* number of the match within this choice *)
  c_reactants : list mol;
  c_products : list mol         (* new + ignored, before contract_ions *)
}.

Fixpoint number_from {A : Type} (i : nat) (l : list A) : list (nat * A) :=
  match l with [] => [] | x :: r => (i, x) :: number_from (S i) r end.

Section Call.
  Variables (to_del : list Z) (tpl : template).
  Variable matcher : list nat -> list (list (Z * Z)).
  Variable cord : list Z -> list Z.
  Variable splitf : mol -> list mol.
  Variable K : Type.
  Variable key_eqb : K -> K -> bool.
  Variable key : cand -> K.

  Definition empty_mol : mol := mkMol [] [].

  (* everything one choice of reactants yields before de-duplication *)
  Definition stage_cands (structures : list mol) (chosen : list nat) : list cand * option pyexn :=
    let ign := pick structures empty_mol (others (length structures) chosen) in
    let ch := pick structures empty_mol chosen in
    let '(news, e) := single_stage to_del tpl cord splitf (matcher chosen) ch (flat_map ids ign) in
    (map (fun kn => mkCand chosen (fst kn) (ch ++ ign) (snd kn ++ ign)) (number_from 0 news), e).

  (* the candidates of all choices, up to the first exception *)
  Fixpoint all_cands (structures : list mol) (choices : list (list nat)) : list cand * option pyexn :=
    match choices with
    | [] => ([], None)
    | c :: r => match stage_cands structures c with
                | (cs, Some e) => (cs, Some e)
                | (cs, None) => let '(cs', e) := all_cands structures r in (cs ++ cs', e)
                end
    end.

  (* if str(r) in seen: continue; seen.add(str(r)); yield r *)
  Fixpoint dedupe (seen : list K) (l : list cand) : list cand :=
    match l with
    | [] => []
    | c :: r => if existsb (key_eqb (key c)) seen then dedupe seen r else c :: dedupe (key c :: seen) r
    end.

  Definition one_shot (structures : list mol) (n_patterns : nat) : list cand * option pyexn :=
    let '(cs, e) := all_cands structures (perms_k n_patterns (seq 0 (length structures))) in
    (dedupe [] cs, e).
End Call.

(* ---------- renumbering by a total function (statement of patcher_equivariant; proofs/ReactorEquiv.v) ---------- *)
(* renumbering of dict keys, values mapped by vf *)
Definition rkv {V W : Type} (f : Z -> Z) (vf : V -> W) (d : list (Z * V)) : list (Z * W) := map (fun kv => (f (fst kv), vf (snd kv))) d.
Definition rk {V : Type} (f : Z -> Z) (d : list (Z * V)) : list (Z * V) := rkv f (fun v => v) d.
Definition ra (f : Z -> Z) (adj : adjT) : adjT := rkv f (rk f) adj.
(* Graph.remap by a total function *)
Definition rename_mol (f : Z -> Z) (g : mol) : mol := mkMol (rk f (m_atoms g)) (ra f (m_adj g)).

(* s extended to the new atoms: the k-th new atom (number mx + k) becomes mx' + k *)
Definition extend_renumbering (s : Z -> Z) (mx mx' : Z) (x : Z) : Z := if x <=? mx then s x else x - mx + mx'.


(* ---------- vocabulary of the theorems (proofs/ReactorExt.v, props/C16.v) ---------- *)
(* new is what _patcher (with to_delete = _get_deleted(...)) returns for the match mp *)
Definition patched (to_del : list Z) (tpl : template) (g : mol) (mp : list (Z * Z)) (new : mol) : Prop :=
  exists mp', patcher_with get_deleted g mp to_del tpl = Ok (new, mp').

(* a match the theorems call real: total on the atoms to delete and on the any-atoms of the replacement, into the structure *)
Definition real_match (to_del : list Z) (tpl : template) (g : mol) (mp : list (Z * Z)) : Prop :=
  (forall p, In p to_del -> exists v, zget mp p = Some v /\ In v (ids g)) /\
  (forall n chg rad, In (n, RAny chg rad) (t_atoms tpl) -> exists m, truthy_get mp n = Some m) /\
  (forall n m, In n (keys (t_atoms tpl)) -> truthy_get mp n = Some m -> In m (ids g)).

(* the structures handed to the reactor after fix_mapping_overlap: well-formed, positive numbers, no number shared *)
Definition good (S : list mol) : Prop :=
  Forall (fun m => wf_mol m = true /\ (forall x, In x (ids m) -> 0 < x)) S /\ all_disjoint (map ids S).

(* where a candidate comes from: a choice of reactants, the number of a match of that choice, and the stage applied to it *)
Definition stage_fact (to_del : list Z) (tpl : template) (matcher : list nat -> list (list (Z * Z))) (cord : list Z -> list Z)
  (splitf : mol -> list mol) (S : list mol) (c : cand) : Prop :=
  let ign := pick S empty_mol (others (length S) (c_chosen c)) in
  exists united mp out,
    union_all (pick S empty_mol (c_chosen c)) = Ok united /\
    nth_error (matcher (c_chosen c)) (c_match c) = Some mp /\
    stage_one to_del tpl cord united (flat_map ids ign) mp = Ok out /\
    c_products c = splitf out ++ ign /\ c_reactants c = pick S empty_mol (c_chosen c) ++ ign.

(* the matcher returns real matches of the united reactants *)
Definition real_matcher (to_del : list Z) (tpl : template) (matcher : list nat -> list (list (Z * Z))) (S : list mol)
  (choices : list (list nat)) : Prop :=
  forall chosen united, In chosen choices -> union_all (pick S empty_mol chosen) = Ok united ->
    forall mp, In mp (matcher chosen) -> real_match to_del tpl united mp.

(* ---------- comparison used by the correspondence runner ---------- *)
(* a molecule as a finite map: atoms and neighbour dicts sorted by number (used where the real code re-orders: split()) *)
Fixpoint kinsert {V : Type} (kv : Z * V) (l : list (Z * V)) : list (Z * V) :=
  match l with [] => [kv] | y :: r => if fst kv <=? fst y then kv :: l else y :: kinsert kv r end.
Definition ksort {V : Type} (l : list (Z * V)) : list (Z * V) := fold_right kinsert [] l.
Definition sort_mol (g : mol) : mol :=
  mkMol (ksort (m_atoms g)) (ksort (map (fun nl => (fst nl, ksort (snd nl))) (m_adj g))).
(* several molecules merged into one map *)
Definition merge_mols (l : list mol) : mol := mkMol (flat_map m_atoms l) (flat_map m_adj l).
Definition mol_map_eqb (model impl : mol) : bool := mol_struct_eqb (sort_mol model) (sort_mol impl).

Fixpoint list_eqb2 {A B : Type} (eq : A -> B -> bool) (a : list A) (b : list B) : bool :=
  match a, b with
  | [], [] => true
  | x :: r, y :: t => eq x y && list_eqb2 eq r t
  | _, _ => false
  end.
Definition stage_mols_eqb (ordered : bool) (model : list (list mol) * option pyexn) (impl : list mol * option pyexn) : bool :=
  list_eqb2 (fun parts real => if ordered then match parts with [m] => mol_struct_eqb m real | _ => false end
                              else mol_map_eqb (merge_mols parts) real) (fst model) (fst impl) &&
  option_eqb pyexn_eqb (snd model) (snd impl).
Definition mols_gen_eqb (model impl : list mol * option pyexn) : bool :=
  list_eqb mol_struct_eqb (fst model) (fst impl) && option_eqb pyexn_eqb (snd model) (snd impl).
Definition union_res_eqb (model impl : pyres mol) : bool := pyres_eqb mol_struct_eqb model impl.

(* one yielded reaction: which choice, which match, and the atom numbers of its products *)
Definition cand_sig (c : cand) : list nat * nat * list Z := (c_chosen c, c_match c, zsort (flat_map ids (c_products c))).
Definition sig_eqb (a b : list nat * nat * list Z) : bool :=
  list_eqb Nat.eqb (fst (fst a)) (fst (fst b)) && Nat.eqb (snd (fst a)) (snd (fst b)) && list_eqb Z.eqb (snd a) (snd b).
Definition call_eqb (model : list cand * option pyexn) (impl : list (list nat * nat * list Z) * option pyexn) : bool :=
  list_eqb sig_eqb (map cand_sig (fst model)) (fst impl) && option_eqb pyexn_eqb (snd model) (snd impl).
(* table-driven instances of the Section variables for the runner *)
Definition nat_list_eqb := list_eqb Nat.eqb.
Fixpoint table_get {V : Type} (t : list (list nat * V)) (k : list nat) (d : V) : V :=
  match t with [] => d | (k', v) :: r => if nat_list_eqb k k' then v else table_get r k d end.
(* observed iteration orders of the `collision` sets: keyed by the colliding atoms in dict order *)
Fixpoint ztable_get (t : list (list Z * list Z)) (k : list Z) : list Z :=
  match t with [] => k | (k', v) :: r => if list_eqb Z.eqb k k' then v else ztable_get r k end.

(* ====================================================================================================
   Stereo of the atoms the template does not touch (BaseReactor._patcher):
       natoms[n] = a = sa.copy(hydrogens=True)                       (copy: no stereo label)
       if sa.stereo is not None:
           if n in structure.stereogenic_tetrahedrons: a._stereo = sa.stereo      (stored as is)
           else: stereo_atoms.append(n)                                           (allenes: translated later)
   stereogenic_tetrahedrons[n] = tuple(x for x in bonds[n] if atoms[x] != H): the non-hydrogen neighbours in dict order.
   `isH` (atoms[x] == H) is a parameter.  sth = the keys of structure.stereogenic_tetrahedrons.
   ==================================================================================================== *)
Definition th_env (isH : Z -> bool) (g : mol) (n : Z) : list Z := filter (fun x => negb (isH x)) (nbr_ids g n).
(* the label the loop stores for an untouched atom; None also stands for "queued in stereo_atoms" *)
Definition untouched_label (sth : list Z) (g : mol) (n : Z) : option bool :=
  match atom_of g n with
  | Some sa => if zmem n sth then a_stereo sa else None
  | None => None
  end.
(* runner: the label of the real product (after fix_stereo, which can only drop it) against the stored one *)
Definition label_kept_eqb (model real : option bool) : bool :=
  match real with None => true | Some r => option_eqb Bool.eqb model (Some r) end.
(* runner: per untouched stereogenic tetrahedron of the input: (number, observed stereogenic_tetrahedrons[n] of the input,
   label of the real product); hs = the atoms of the input that are hydrogens (atoms[x] == H) *)
Definition stereo_case_eqb (sth hs : list Z) (g : mol) (obs : list (Z * list Z * option bool)) : bool :=
  forallb (fun o => list_eqb Z.eqb (th_env (fun x => zmem x hs) g (fst (fst o))) (snd (fst o)) &&
                    label_kept_eqb (untouched_label sth g (fst (fst o))) (snd o)) obs.

(* ====================================================================================================
   Cis/trans bonds and allenes the template does not touch.
   stereogenic_cumulenes[path] = (nn[0], mn[0], nn[1] if len(nn) == 2 else None, mn[1] if len(mn) == 2 else None) with
       nn = [x for x, b in bonds[path[0]].items() if x != path[1] and atoms[x] != H and b != 8]     (mn: the other end)
   The chain walk that finds `path` (MoleculeContainer.cumulenes) is NOT modelled: the two terminal atoms t1, t2 and their
   inner neighbours i1, i2 are inputs.  In _patcher the label of such a bond / of the central atom of such an allene is
   re-computed as  new._translate_cis_trans_sign( *n12, *env[:2], old) / new._translate_allene_sign(n, *env[:2], old)
   with env the entry of the INPUT structure, when the entry of the product holds the same atoms.
   ==================================================================================================== *)
Definition order8 (g : mol) (t x : Z) : bool := match bond_of g t x with Some b => b_ord b =? 8 | None => false end.
Definition end_nbrs (isH : Z -> bool) (g : mol) (t inner : Z) : list Z :=
  filter (fun x => negb (x =? inner) && negb (isH x) && negb (order8 g t x)) (nbr_ids g t).
Definition second_of (l : list Z) : option Z := match l with [_; b] => Some b | _ => None end.
Definition cum_env (isH : Z -> bool) (g : mol) (t1 i1 t2 i2 : Z) : option (Z * Z * option Z * option Z) :=
  match end_nbrs isH g t1 i1, end_nbrs isH g t2 i2 with
  | a :: ra, b :: rb => Some (a, b, second_of (a :: ra), second_of (b :: rb))
  | _, _ => None
  end.
Definition env_atoms (e : Z * Z * option Z * option Z) : list Z :=
  let '(a, b, c, d) := e in a :: b :: (match c with Some x => [x] | None => [] end) ++ (match d with Some x => [x] | None => [] end).
(* the label the translation loop of _patcher stores (None: the loop leaves the copy without label) *)
Definition patched_cum_label (isH isH' : Z -> bool) (g new : mol) (t1 i1 t2 i2 : Z) (s : bool) : pyres (option bool) :=
  match cum_env isH' new t1 i1 t2 i2, cum_env isH g t1 i1 t2 i2 with
  | Some e', Some (n0, n1, o2, o3) =>
      if same_keys_z (env_atoms e') (env_atoms (n0, n1, o2, o3))
      then match Stereo.translate_env isH' e' n0 n1 s with Ok r => Ok (Some r) | Err e => Err e end
      else Ok None
  | _, _ => Ok None
  end.
(* the element test `atoms[x] == H` on a model molecule *)
Definition is_H_atom (g : mol) (x : Z) : bool :=
  match atom_of g x with
  | Some a => (a_num a =? 1) && (match a_iso a with None => true | Some _ => false end) && (a_chg a =? 0) && negb (a_rad a)
  | None => false
  end.
(* runner: (t1, i1, i2, t2, label in the input, observed registry entry of the input, label of the real product) *)
Definition env_eqb (a b : option (Z * Z * option Z * option Z)) : bool :=
  option_eqb (fun x y => (fst (fst (fst x)) =? fst (fst (fst y))) && (snd (fst (fst x)) =? snd (fst (fst y))) &&
                         option_eqb Z.eqb (snd (fst x)) (snd (fst y)) && option_eqb Z.eqb (snd x) (snd y)) a b.
Definition cum_case_eqb (g new : mol) (t1 i1 i2 t2 : Z) (s : bool) (obs_env : option (Z * Z * option Z * option Z))
  (real : option bool) : bool :=
  env_eqb (cum_env (is_H_atom g) g t1 i1 t2 i2) obs_env &&
  match patched_cum_label (is_H_atom g) (is_H_atom new) g new t1 i1 t2 i2 s with
  | Ok model => label_kept_eqb model real
  | Err _ => false
  end.
Definition cum_case_run (g : mol) (mapping : list (Z * Z)) (to_del : list Z) (tpl : template) (t1 i1 i2 t2 : Z) (s : bool)
  (obs_env : option (Z * Z * option Z * option Z)) (real : option bool) : bool :=
  match patcher_with get_deleted g mapping to_del tpl with
  | Ok (new, _) => cum_case_eqb g new t1 i1 i2 t2 s obs_env real
  | Err _ => false
  end.

(* ---------- cumulenes one of whose terminal atoms may be named by the replacement ----------
   MoleculeContainer.cumulenes starts every chain at the terminal that comes first in the atoms dict, so the registry key
   (first, last) and the entry (neighbour of first, neighbour of last, ...) of the PRODUCT can be those of the input read from
   the other end (patched atoms come first in the product).  _patcher compares the terminal pairs as sets and calls
   new._translate_cis_trans_sign( *n12, *env[:2], old) / new._translate_allene_sign(n, *env[:2], old) with env of the input. *)
Definition before (l : list Z) (a b : Z) : bool :=
  match index_of l a, index_of l b with Some i, Some j => i <=? j | Some _, None => true | _, _ => false end.
Definition cum_env_oriented (isH : Z -> bool) (g : mol) (t1 i1 t2 i2 : Z) : option (Z * Z * option Z * option Z) :=
  if before (ids g) t1 t2 then cum_env isH g t1 i1 t2 i2 else cum_env isH g t2 i2 t1 i1.
Definition patched_cum_label_oriented (isH isH' : Z -> bool) (g new : mol) (t1 i1 t2 i2 : Z) (s : bool) : pyres (option bool) :=
  match cum_env_oriented isH' new t1 i1 t2 i2, cum_env_oriented isH g t1 i1 t2 i2 with
  | Some e', Some (n0, n1, o2, o3) =>
      if same_keys_z (env_atoms e') (env_atoms (n0, n1, o2, o3))
      then match Stereo.translate_env isH' e' n0 n1 s with Ok r => Ok (Some r) | Err e => Err e end
      else Ok None
  | _, _ => Ok None
  end.
(* runner: labels of the product are read BEFORE fix_stereo (from the frame of the real call): compared exactly *)
Definition cum_case_exact (g : mol) (mapping : list (Z * Z)) (to_del : list Z) (tpl : template) (t1 i1 i2 t2 : Z) (s : bool)
  (obs_env : option (Z * Z * option Z * option Z)) (real : option bool) : bool :=
  match patcher_with get_deleted g mapping to_del tpl with
  | Ok (new, _) =>
      env_eqb (cum_env_oriented (is_H_atom g) g t1 i1 t2 i2) obs_env &&
      match patched_cum_label_oriented (is_H_atom g) (is_H_atom new) g new t1 i1 t2 i2 s with
      | Ok model => option_eqb Bool.eqb model real
      | Err _ => false
      end
  | Err _ => false
  end.
Definition stereo_case_exact (sth hs : list Z) (g : mol) (obs : list (Z * list Z * option bool)) : bool :=
  forallb (fun o => list_eqb Z.eqb (th_env (fun x => zmem x hs) g (fst (fst o))) (snd (fst o)) &&
                    option_eqb Bool.eqb (untouched_label sth g (fst (fst o))) (snd o)) obs.

(* ====================================================================================================
   Intermediate states of BaseReactor._patcher (the same four phases as Reactor.patcher, each result kept):
     after the loop over the replacement atoms     : new._atoms / new._bonds (all rows empty) / mapping / max_atom
     after the loop over the replacement bonds     : new._bonds                      (at `patched_atoms = set(new)`)
     after the loop over the atoms of the structure: new._atoms, new._bonds          (at `for n, bs in sbonds.items()`)
     at the end                                     : the product and the extended mapping
   ==================================================================================================== *)
Definition patcher_states (g : mol) (mapping : list (Z * Z)) (tpl : template) (to_delete : list Z)
  : pyres (pstate * adjT * (list (Z * atom) * adjT) * (mol * list (Z * Z))) :=
  match zmax_list (ids g) with
  | None => Err ValueError
  | Some mx =>
      match fold_res (patch_atom g) (t_atoms tpl) (mkP [] [] mapping mx) with
      | Err e => Err e
      | Ok s =>
          match fold_res (patch_bonds_of (p_map s)) (t_bonds tpl) (p_adj s) with
          | Err e => Err e
          | Ok adj2 =>
              let patched := keys (p_atoms s) in
              let st3 := fold_left (keep_atom patched to_delete) (m_atoms g) (p_atoms s, adj2) in
              match fold_res (keep_bonds_of patched to_delete) (m_adj g) (snd st3) with
              | Err e => Err e
              | Ok adj4 => Ok (s, adj2, st3, (mkMol (fst st3) adj4, p_map s))
              end
          end
      end
  end.
Definition patcher_states_with (g : mol) (mapping : list (Z * Z)) (to_del : list Z) (tpl : template) :=
  match get_deleted (graph_of g) mapping to_del with
  | Err e => Err e
  | Ok del => patcher_states g mapping tpl del
  end.
(* runner: the observed intermediate states (atom numbers in dict order; rows with neighbour order and bond order) *)
Definition adj_struct_eqb (a b : adjT) : bool := list_eqb (pair_eqb Z.eqb (list_eqb (pair_eqb Z.eqb bond_struct_eqb))) a b.
Definition states_eqb (model : pyres (pstate * adjT * (list (Z * atom) * adjT) * (mol * list (Z * Z))))
  (o1_atoms : list Z) (o1_map : list (Z * Z)) (o2_adj : adjT) (o3_atoms : list Z) (o3_adj : adjT) : bool :=
  match model with
  | Err _ => false
  | Ok (s, adj2, st3, _) =>
      list_eqb Z.eqb (keys (p_atoms s)) o1_atoms && list_eqb Z.eqb (keys (p_adj s)) o1_atoms &&
      list_eqb (pair_eqb Z.eqb Z.eqb) (p_map s) o1_map &&
      adj_struct_eqb adj2 o2_adj &&
      list_eqb Z.eqb (keys (fst st3)) o3_atoms && adj_struct_eqb (snd st3) o3_adj
  end.
