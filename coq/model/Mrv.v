(* C11 -- model of the MRV (ChemAxon Marvin XML) writer / reader of chython/files/MRVrw.py BELOW lxml:
     MRVWrite.__write_molecule, the molecule part of MRVWrite.__write   (what is written: attribute lists and their text)
     xml_dict                                                            (attribute normalisation: y.strip(), empty dropped, '@' names)
     parse_molecule                                                      (the dict -> atoms / bonds / stereo / title / log / atom_map)
   The XML tokenisation itself is lxml's: the model has a small attribute scanner (scan_attrs) that says which attributes
   a written start tag carries -- this is where the `order="1" queryType="Any"` injection of bond order 8 becomes two
   attributes -- and the correspondence compares it with what lxml + xml_dict really deliver.
   Text is Mdl.str (ASCII).  The formatted coordinate fields f'{x * 2:.4f}' are INPUTS (wa_x, wa_y of Mdl.watom hold the
   x2 / y2 fields; float FORMATTING is not modelled), the reader's float() is Mdl.py_float (exact decimal values) and the
   halving `float(..) / 2` is exact on them (fhalf).  The bond_map halves come from Gen.MdlTables (regenerated from the source). *)
From Coq Require Import ZArith List String Ascii Bool Lia.
From Model Require Import PyBase Mdl.
From Gen Require Import MdlTables.
Import ListNotations.
Open Scope Z_scope.
Local Notation length := List.length.
Local Notation concat := List.concat.

(* attributes of one XML element in document order (writer side: plain names; reader side: '@' names, as xml_dict makes them).
   The names of one element are distinct (XML well-formedness), so Python's `out[x] = y` never overwrites: a dict is the list *)
Definition attrs := list (str * str).
Definition dq : ascii := """"%char.

(* ------------------------------------------------------------------------------------------------ *)
(** * MRVWrite.__write_molecule: the attribute lists *)

Definition aid (n : Z) : str := "a"%char :: zstr n.     (* f'a{n}' *)
Definition bid (n : Z) : str := "b"%char :: zstr n.     (* f'b{n}' *)
Definition opt_attr (b : bool) (k : string) (v : str) : attrs := if b then [(L k, v)] else [].

(* one <atom .../>: a = the atom as in Mdl (wa_x, wa_y = the formatted x2, y2 fields; wa_z unused),
   h = atom.implicit_hydrogens (None or int) *)
Definition mrv_atom_raw (mapping : bool) (a : watom) (h : option Z) : attrs :=
  [(L "id", aid (wa_num a)); (L "elementType", wa_sym a); (L "x2", wa_x a); (L "y2", wa_y a)] ++
  opt_attr mapping "mrvMap" (zstr (wa_num a)) ++
  opt_attr (negb (wa_chg a =? 0)) "formalCharge" (zstr (wa_chg a)) ++
  opt_attr (wa_rad a) "radical" (L "monovalent") ++
  opt_attr (iso_truthy (wa_iso a)) "isotope" (zstr (iso_val (wa_iso a))) ++
  match h with Some v => [(L "hydrogenCount", zstr v)] | None => [] end.

(* bond_map[order] (writer half); for 8 the value is  1" queryType="Any  *)
Definition w_order (o : Z) : pyres str := of_opt KeyError (option_map L (zget_last mrv_bond_w o)).
(* the three attributes the f-string spells; ov is written verbatim between the quotes of order="..." *)
Definition mrv_bond_raw (k i j : Z) (ov : str) : attrs :=
  [(L "id", bid k); (L "atomRefs2", aid i ++ sp :: aid j); (L "order", ov)].

(* a written <bond>: its attributes and the text of the bondStereo child, if any *)
Record wbond := mk_wbond { wb_attrs : attrs; wb_stereo : option str }.
Record wxml := mk_wxml { wx_atoms : list attrs; wx_bonds : list wbond }.

Definition mrv_wedge (bonds : list (Z * Z * Z)) (kw : Z * (Z * Z * Z)) : pyres wbond :=
  let '(k, (i, j, s)) := kw in
  do o <- bond_order bonds i j;                       (* bg[i][j].order *)
  do ov <- w_order o;
  Ok (mk_wbond (mrv_bond_raw k i j ov) (Some (if s =? 1 then L "W" else L "H"))).    (* s == 1 and "W" or "H" *)
Definition mrv_plain (kb : Z * (Z * Z * Z)) : pyres wbond :=
  let '(k, (i, j, o)) := kb in
  do ov <- w_order o;
  Ok (mk_wbond (mrv_bond_raw k i j ov) None).

(* atoms with their hydrogen counts; a missing count is None *)
Fixpoint with_hyd (atoms : list watom) (hs : list (option Z)) : list (watom * option Z) :=
  match atoms with
  | [] => []
  | a :: r => (a, hd None hs) :: with_hyd r (tl hs)
  end.

(* wedge bonds first, numbered from 1 (`n = 0  # empty wedge trick`), then the bonds that are not in the wedge map *)
Definition write_mrv (mapping : bool) (g : wmol) (hs : list (option Z)) : pyres wxml :=
  let al := map (fun ah => mrv_atom_raw mapping (fst ah) (snd ah)) (with_hyd (wm_atoms g) hs) in
  do wl <- mapM (mrv_wedge (wm_bonds g)) (enum_from 1 (wm_wedge g));
  do bl <- mapM mrv_plain (enum_from (1 + Z.of_nat (length (wm_wedge g))) (plain_bonds g));
  Ok (mk_wxml al (wl ++ bl)).

(* ------------------------------------------------------------------------------------------------ *)
(** * The text that is emitted *)

Definition render_attr (kv : str * str) : str := sp :: fst kv ++ "="%char :: dq :: snd kv ++ [dq].      (*  k="v" *)
Definition render_attrs (l : attrs) : str := concat (map render_attr l).
Definition atom_text (a : attrs) : str := L "<atom" ++ render_attrs a ++ L "/>".
Definition bond_text (b : wbond) : str :=
  L "<bond" ++ render_attrs (wb_attrs b) ++
  match wb_stereo b with
  | None => L "/>"
  | Some s => L "><bondStereo>" ++ s ++ L "</bondStereo></bond>"
  end.
(* <atomArray>...</atomArray><bondArray>...</bondArray> *)
Definition mrv_text (w : wxml) : str :=
  L "<atomArray>" ++ concat (map atom_text (wx_atoms w)) ++ L "</atomArray><bondArray>" ++
  concat (map bond_text (wx_bonds w)) ++ L "</bondArray>".

(* `<molecule title="{name}">` if data.name else `<molecule>` *)
Definition molecule_attrs (name : str) : attrs := match name with [] => [] | _ => [(L "title", name)] end.
Definition molecule_open (name : str) : str := L "<molecule" ++ render_attrs (molecule_attrs name) ++ L ">".
(* the propertyList of a meta dict whose values are str (others are written with str(v): not modelled) *)
Definition mrv_props_text (meta : list (str * str)) : str :=
  match meta with
  | [] => []
  | _ => L "<propertyList>" ++
         concat (map (fun kv => L "<property title=""" ++ fst kv ++ L """><scalar><![CDATA[" ++ snd kv ++ L "]]></scalar></property>") meta) ++
         L "</propertyList>"
  end.
(* what MRVWrite.__write(molecule) writes (after the `<cml>\n` of the first write) *)
Definition mrv_record_text (mapping : bool) (g : wmol) (hs : list (option Z)) (meta : list (str * str)) : pyres str :=
  do w <- write_mrv mapping g hs;
  Ok (L "<MDocument><MChemicalStruct>" ++ molecule_open (wm_name g) ++ mrv_props_text meta ++ mrv_text w ++
      L "</molecule></MChemicalStruct></MDocument>" ++ [nl]).

(* ------------------------------------------------------------------------------------------------ *)
(** * From the text of a start tag to its attributes (the slice of XML parsing the writer relies on) *)

(* ` k="v" k="v" ...`: one blank, a name up to '=', a double quote, the value up to the next double quote.
   None = not of that shape.  (Values with markup characters or entity references are outside: see the known finding
   mrv-write-unescaped-markup; lxml is tied to this function by the correspondence on what the writer really emits.) *)
Fixpoint scan_attrs (fuel : nat) (s : str) : option attrs :=
  match fuel with
  | O => None
  | S f =>
    match s with
    | [] => Some []
    | c :: r =>
      if Ascii.eqb c sp then
        match split1 "="%char r with
        | Some (k, q :: r') =>
          if Ascii.eqb q dq then
            match split1 dq r' with
            | Some (v, r'') => option_map (cons (k, v)) (scan_attrs f r'')
            | None => None
            end
          else None
        | _ => None
        end
      else None
    end
  end.
(* the attributes a parser finds in the start tag written for the raw list l *)
Definition cook (l : attrs) : option attrs := let t := render_attrs l in scan_attrs (S (length t)) t.

(* ------------------------------------------------------------------------------------------------ *)
(** * xml_dict: the part parse_molecule reads *)

(* for x, y in items(): y = y.strip(); if y: out['@%s' % x.strip()] = y *)
Definition xml_attr (kv : str * str) : attrs :=
  match strip (snd kv) with [] => [] | v => [("@"%char :: strip (fst kv), v)] end.
Definition xml_attrs (l : attrs) : attrs := flat_map xml_attr l.
(* the '$' entry of an element without children: text.strip() if not empty *)
Definition xml_text (t : str) : option str := match strip t with [] => None | v => Some v end.

(* bond['bondStereo']: absent | a dict with an optional '$' | a list (several bondStereo children) *)
Inductive bstereo := BsAbsent | BsText (t : option str) | BsList.
Record mbond := mk_mbond { mb_attrs : attrs; mb_stereo : bstereo }.
(* data['atomArray']: key absent | a list (several atomArray elements) | a dict with 'atom' (one dict or a list of dicts: both
   are the list) | a dict without 'atom' (the array form: its own attributes) *)
Inductive atom_array := AaMissing | AaList | AaAtoms (l : list attrs) | AaArray (a : attrs).
(* the molecule dict: its own attributes ('@title'), atomArray, bondArray (None: key absent; Some l: the 'bond' entries, [] when
   there is no 'bond' key or bondArray is a list) *)
Record mdict := mk_mdict { md_attrs : attrs; md_atoms : atom_array; md_bonds : option (list mbond) }.

(* xml_dict of what the writer wrote.  OtherError: a start tag that is not of the scanner's shape (not well-formed XML) *)
Definition xml_elem_attrs (raw : attrs) : pyres attrs :=
  match cook raw with Some l => Ok (xml_attrs l) | None => Err OtherError end.
Definition xml_bond (b : wbond) : pyres mbond :=
  do a <- xml_elem_attrs (wb_attrs b);
  Ok (mk_mbond a (match wb_stereo b with None => BsAbsent | Some t => BsText (xml_text t) end)).
Definition mrv_dict (name : str) (w : wxml) : pyres mdict :=
  do ma <- xml_elem_attrs (molecule_attrs name);
  do al <- mapM xml_elem_attrs (wx_atoms w);
  do bl <- mapM xml_bond (wx_bonds w);
  (* <atomArray></atomArray> is the empty dict: no 'atom' key *)
  Ok (mk_mdict ma (match al with [] => AaArray [] | _ => AaAtoms al end) (Some bl)).

(* ------------------------------------------------------------------------------------------------ *)
(** * parse_molecule *)

(* one parsed atom.  None = the key is absent from the dict the parser builds (the element form always sets charge, is_radical,
   parsed_mapping, x, y; the array form sets only what differs from '0'); ma_iso and ma_hyd are atom.get(..) (a present None
   and an absent key are not distinguished: create_molecule passes the dict as keyword arguments whose defaults are None) *)
Record matom := mk_matom { ma_elem : str; ma_iso : option Z; ma_chg : option Z; ma_rad : option bool; ma_map : option Z;
                           ma_x : option fval; ma_y : option fval; ma_z : option fval; ma_hyd : option Z }.
(* state of the bond loop *)
Record mbstate := mk_mbs { mbs_bonds : list (Z * Z * Z); mbs_stereo : list (Z * Z * Z); mbs_log : list str }.
Record mparsed := mk_mparsed { mp_title : option str; mp_atoms : list matom; mp_bonds : list (Z * Z * Z);
                               mp_stereo : list (Z * Z * Z); mp_log : list str; mp_map : list (str * Z) }.

Fixpoint aget (d : attrs) (k : str) : option str :=
  match d with
  | [] => None
  | (k', v) :: r => if str_eqb k k' then Some v else aget r k
  end.
Definition akey (d : attrs) (k : string) : pyres str := of_opt KeyError (aget d (L k)).           (* d[k] *)
Definition ahas (d : attrs) (k : string) : bool := match aget d (L k) with Some _ => true | None => false end.   (* k in d *)
Definition aint (d : attrs) (k : string) (dflt : Z) : pyres Z :=                                   (* int(d.get(k, dflt)) *)
  match aget d (L k) with Some v => py_int v | None => Ok dflt end.
Definition aint_opt (d : attrs) (k : string) : pyres (option Z) :=                                 (* int(d[k]) if k in d else None *)
  match aget d (L k) with Some v => do i <- py_int v; Ok (Some i) | None => Ok None end.
Definition afloat (d : attrs) (k : string) : pyres fval := do v <- akey d k; py_float v.          (* float(d[k]) *)
(* float(..) / 2 on exact decimal values *)
Definition fhalf (v : fval) : fval := match v with FDec m e => FDec (5 * m) (e - 1) | x => x end.

(* the coordinates of an element-form atom: (x, y, z or absent) *)
Definition atom_xyz (atom : attrs) : pyres (fval * fval * option fval) :=
  if ahas atom "@z3" then
    do x <- afloat atom "@x3"; do y <- afloat atom "@y3"; do z <- afloat atom "@z3"; Ok (x, y, Some z)
  else
    do x <- afloat atom "@x2"; do y <- afloat atom "@y2"; Ok (fhalf x, fhalf y, None).

(* the body of `for n, atom in enumerate(da)`: (atom['@id'], the atom dict) *)
Definition mrv_parse_atom (atom : attrs) : pyres (str * matom) :=
  do id <- akey atom "@id";
  do el <- akey atom "@elementType";
  do iso <- aint_opt atom "@isotope";
  do chg <- aint atom "@formalCharge" 0;
  let rad := ahas atom "@radical" in
  do pm <- aint atom "@mrvMap" 0;
  do xyz <- atom_xyz atom;
  if ahas atom "@mrvQueryProps" then Err ValueError                     (* 'queries unsupported' *)
  else
    do hyd <- aint_opt atom "@hydrogenCount";
    Ok (id, mk_matom el iso (Some chg) (Some rad) (Some pm) (Some (fst (fst xyz))) (Some (snd (fst xyz))) (snd xyz) hyd).

(* atom_map[id] = n; atoms.append(..) with n = the number of atoms so far *)
Definition atom_step (st : list (str * Z) * list matom) (atom : attrs) : pyres (list (str * Z) * list matom) :=
  do r <- mrv_parse_atom atom;
  Ok (sdict_set (fst st) (fst r) (Z.of_nat (length (snd st))), snd st ++ [snd r]).

(* `for a, x in zip(atoms, xs): <update a from x>` (an exception leaves the loop) *)
Fixpoint zip_upd {B} (f : matom -> B -> pyres matom) (l : list matom) (xs : list B) : pyres (list matom) :=
  match l, xs with
  | a :: l', x :: xs' => do a' <- f a x; do r <- zip_upd f l' xs'; Ok (a' :: r)
  | _, _ => Ok l
  end.
Definition ma_set_iso v (a : matom) := mk_matom (ma_elem a) (Some v) (ma_chg a) (ma_rad a) (ma_map a) (ma_x a) (ma_y a) (ma_z a) (ma_hyd a).
Definition ma_set_chg v (a : matom) := mk_matom (ma_elem a) (ma_iso a) (Some v) (ma_rad a) (ma_map a) (ma_x a) (ma_y a) (ma_z a) (ma_hyd a).
Definition ma_set_rad (a : matom) := mk_matom (ma_elem a) (ma_iso a) (ma_chg a) (Some true) (ma_map a) (ma_x a) (ma_y a) (ma_z a) (ma_hyd a).
Definition ma_set_map v (a : matom) := mk_matom (ma_elem a) (ma_iso a) (ma_chg a) (ma_rad a) (Some v) (ma_x a) (ma_y a) (ma_z a) (ma_hyd a).
Definition ma_set_xyz x y z (a : matom) := mk_matom (ma_elem a) (ma_iso a) (ma_chg a) (ma_rad a) (ma_map a) (Some x) (Some y) z (ma_hyd a).
(* `if '@k' in atom: for a, x in zip(atoms, atom['@k'].split()): if x != '0': a[..] = int(x)` *)
Definition arr_ints (setter : Z -> matom -> matom) (atom : attrs) (k : string) (atoms : list matom) : pyres (list matom) :=
  match aget atom (L k) with
  | Some v => zip_upd (fun a x => if str_eqb x (L "0") then Ok a else do i <- py_int x; Ok (setter i a)) atoms (split_ws v)
  | None => Ok atoms
  end.

(* the array form: atomArray itself carries space separated @atomID @elementType @x2 @y2 ... (zip: the shortest list wins) *)
Definition parse_atoms_array (atom : attrs) : pyres (list (str * Z) * list matom) :=
  do ids <- akey atom "@atomID";
  do els <- akey atom "@elementType";
  let pairs := combine (split_ws ids) (split_ws els) in
  let amap := fold_left (fun m ni => sdict_set m (snd ni) (fst ni)) (combine (zrange_from 0 (length pairs)) (map fst pairs)) [] in
  let atoms := map (fun p => mk_matom (snd p) None None None None None None None None) pairs in
  do atoms <- (if ahas atom "@z3" then
                 do xs <- akey atom "@x3"; do ys <- akey atom "@y3"; do zs <- akey atom "@z3";
                 zip_upd (fun a t => do x <- py_float (fst (fst t)); do y <- py_float (snd (fst t)); do z <- py_float (snd t);
                                     Ok (ma_set_xyz x y (Some z) a))
                         atoms (combine (combine (split_ws xs) (split_ws ys)) (split_ws zs))
               else
                 do xs <- akey atom "@x2"; do ys <- akey atom "@y2";
                 zip_upd (fun a t => do x <- py_float (fst t); do y <- py_float (snd t); Ok (ma_set_xyz (fhalf x) (fhalf y) (ma_z a) a))
                         atoms (combine (split_ws xs) (split_ws ys)));
  do atoms <- arr_ints ma_set_iso atom "@isotope" atoms;
  do atoms <- arr_ints ma_set_chg atom "@formalCharge" atoms;
  do atoms <- arr_ints ma_set_map atom "@mrvMap" atoms;
  do atoms <- (match aget atom (L "@radical") with
               | Some v => zip_upd (fun a x => if str_eqb x (L "0") then Ok a else Ok (ma_set_rad a)) atoms (split_ws v)
               | None => Ok atoms
               end);
  if ahas atom "@mrvQueryProps" then Err ValueError else Ok (amap, atoms).

Definition alook (amap : list (str * Z)) (k : str) : pyres Z := of_opt KeyError (sassoc_last amap k).   (* atom_map[k] *)

(* bond_map[bond['@queryType' if '@queryType' in bond else '@order']] *)
Definition read_order (d : attrs) : pyres Z :=
  do key <- akey d (if ahas d "@queryType" then "@queryType" else "@order");
  of_opt KeyError (sget_last mrv_bond_r key).

(* the body of `for bond in db` *)
Definition mrv_parse_bond (amap : list (str * Z)) (st : mbstate) (bond : mbond) : pyres mbstate :=
  let d := mb_attrs bond in
  do order <- read_order d;
  do refs <- akey d "@atomRefs2";
  match split_ws refs with
  | [a1; a2] =>
    do sl <- (match mb_stereo bond with
              | BsAbsent => Ok (mbs_stereo st, mbs_log st)
              | BsText (Some s) =>
                if str_eqb s (L "H") then (do i <- alook amap a1; do j <- alook amap a2; Ok (mbs_stereo st ++ [(i, j, -1)], mbs_log st))
                else if str_eqb s (L "W") then (do i <- alook amap a1; do j <- alook amap a2; Ok (mbs_stereo st ++ [(i, j, 1)], mbs_log st))
                else Ok (mbs_stereo st, mbs_log st ++ [L "invalid or unsupported stereo"])
              | BsText None | BsList => Ok (mbs_stereo st, mbs_log st ++ [L "incorrect bondStereo tag"])
              end);
    do i <- alook amap a1; do j <- alook amap a2;
    Ok (mk_mbs (mbs_bonds st ++ [(i, j, order)]) (fst sl) (snd sl))
  | _ => Err ValueError                                                   (* not enough / too many values to unpack *)
  end.

Definition parse_molecule (data : mdict) : pyres mparsed :=
  do aa <- (match md_atoms data with
            | AaMissing => Err KeyError                                   (* data['atomArray'] *)
            | AaList => Err TypeError                                     (* list indices must be integers *)
            | AaAtoms da => foldM atom_step da ([], [])
            | AaArray atom => parse_atoms_array atom
            end);
  match snd aa with
  | [] => Err ValueError                                                  (* EmptyMolecule *)
  | _ =>
    do db <- of_opt KeyError (md_bonds data);                             (* data['bondArray'] *)
    do bs <- foldM (mrv_parse_bond (fst aa)) db (mk_mbs [] [] []);
    Ok (mk_mparsed (aget (md_attrs data) (L "@title")) (snd aa) (mbs_bonds bs) (mbs_stereo bs) (mbs_log bs) (fst aa))
  end.

(* write, let the XML layer hand the dict over, parse *)
Definition mrv_write_read (mapping : bool) (g : wmol) (hs : list (option Z)) : pyres mparsed :=
  do w <- write_mrv mapping g hs; do d <- mrv_dict (wm_name g) w; parse_molecule d.

(* ------------------------------------------------------------------------------------------------ *)
(** * The result in the shape of Mdl.parsed (absent keys replaced by the defaults of the consumers:
      charge 0, is_radical False, parsed_mapping 0 (`.get('parsed_mapping') or 0`), x = y = 0.0, `a.get('z')` falsy) *)
Definition or_default {A} (d : A) (o : option A) : A := match o with Some v => v | None => d end.
Definition to_patom (a : matom) : patom :=
  mk_patom (ma_elem a) (or_default 0 (ma_chg a)) (ma_iso a) (or_default 0 (ma_map a))
           (or_default (FDec 0 0) (ma_x a)) (or_default (FDec 0 0) (ma_y a)) (or_default (FDec 0 0) (ma_z a))
           None (or_default false (ma_rad a)) (ma_hyd a).
Definition to_parsed (p : mparsed) : parsed :=
  mk_parsed (mp_title p) (map to_patom (mp_atoms p)) (mp_bonds p) (mp_stereo p) (mp_log p).

(* ------------------------------------------------------------------------------------------------ *)
(** * Boolean equalities (correspondence cases) *)
Definition attrs_eqb : attrs -> attrs -> bool := list_eqb ss_eqb.
Definition bstereo_eqb (a b : bstereo) : bool :=
  match a, b with
  | BsAbsent, BsAbsent | BsList, BsList => true
  | BsText x, BsText y => option_eqb str_eqb x y
  | _, _ => false
  end.
Definition mbond_eqb (a b : mbond) : bool := attrs_eqb (mb_attrs a) (mb_attrs b) && bstereo_eqb (mb_stereo a) (mb_stereo b).
Definition atom_array_eqb (a b : atom_array) : bool :=
  match a, b with
  | AaMissing, AaMissing | AaList, AaList => true
  | AaAtoms x, AaAtoms y => list_eqb attrs_eqb x y
  | AaArray x, AaArray y => attrs_eqb x y
  | _, _ => false
  end.
Definition mdict_eqb (a b : mdict) : bool :=
  attrs_eqb (md_attrs a) (md_attrs b) && atom_array_eqb (md_atoms a) (md_atoms b) &&
  option_eqb (list_eqb mbond_eqb) (md_bonds a) (md_bonds b).
(* exact, or (tol = true) up to a relative 1e-15: inputs with 16-17 significant digits are rounded by float() *)
Definition fval_cmp (tol : bool) (a b : fval) : bool :=
  fval_eqb a b ||
  (tol && match a, b with
          | FDec m e, FDec m' e' =>
            let lo := Z.min e e' in
            let x := m * 10 ^ (e - lo) in let y := m' * 10 ^ (e' - lo) in
            Z.abs (x - y) * 10 ^ 15 <=? Z.abs x + Z.abs y
          | _, _ => false
          end).
Definition matom_cmp (tol : bool) (a b : matom) : bool :=
  str_eqb (ma_elem a) (ma_elem b) && option_eqb Z.eqb (ma_iso a) (ma_iso b) && option_eqb Z.eqb (ma_chg a) (ma_chg b) &&
  option_eqb Bool.eqb (ma_rad a) (ma_rad b) && option_eqb Z.eqb (ma_map a) (ma_map b) &&
  option_eqb (fval_cmp tol) (ma_x a) (ma_x b) && option_eqb (fval_cmp tol) (ma_y a) (ma_y b) && option_eqb (fval_cmp tol) (ma_z a) (ma_z b) &&
  option_eqb Z.eqb (ma_hyd a) (ma_hyd b).
Definition sz_eqb (a b : str * Z) : bool := str_eqb (fst a) (fst b) && (snd a =? snd b).
Definition mparsed_cmp (tol : bool) (a b : mparsed) : bool :=
  option_eqb str_eqb (mp_title a) (mp_title b) && list_eqb (matom_cmp tol) (mp_atoms a) (mp_atoms b) &&
  list_eqb zzz_eqb (mp_bonds a) (mp_bonds b) && list_eqb zzz_eqb (mp_stereo a) (mp_stereo b) &&
  list_eqb str_eqb (mp_log a) (mp_log b) && list_eqb sz_eqb (mp_map a) (mp_map b).
Definition mparsed_eqb := mparsed_cmp false.
