(* C10: the PUBLIC DECODE ENTRY POINTS as control flow around the codecs (hand-written model; coq/gen/PackTopGen.v is the
   same three function bodies translated statement by statement from the sources on every run, and
   proofs/PackTopProofs.v proves generated = hand-written):
     chython.containers.unpach / unpack (__init__.py)  -- the generic dispatcher: molecule first, ValueError -> reaction
     MoleculeContainer.unpack (molecule.py)             -- header test, decode, label re-attachment loop (api_unpack in
                                                           Model.PackStereo is the hand model of this body)
     ReactionContainer.unpack (reaction.py)             -- header test, walk of the molecule packs THROUGH
                                                           MoleculeContainer.unpack (so a molecule header other than
                                                           0 / 2 inside a reaction pack is ValueError), role slicing
   zlib is not modelled: decompress is a parameter. *)
From Coq Require Import ZArith List Bool.
From Model Require Import PyBase Pack PackStereo.
Import ListNotations.
Open Scope Z_scope.

(*  def unpach(data, /, *, compressed=True):
        if compressed: data = decompress(data)
        try: return MoleculeContainer.unpack(data, compressed=False)
        except ValueError: pass
        return ReactionContainer.unpack(data, compressed=False)
    Only ValueError is caught: any other exception of the molecule decoder propagates. *)
Definition top_unpack {M R : Type} (decompress : list Z -> pyres (list Z)) (mol_unpack : list Z -> pyres M)
    (rxn_unpack : list Z -> pyres R) (compressed : bool) (data : list Z) : pyres (M + R) :=
  match (if compressed then decompress data else Ok data) with
  | Err e => Err e
  | Ok data =>
      match mol_unpack data with
      | Ok m => Ok (inl m)
      | Err ValueError => match rxn_unpack data with Ok r => Ok (inr r) | Err e => Err e end
      | Err e => Err e
      end
  end.

(* MoleculeContainer.unpack(data, compressed=False, _return_pack_length=True) at the level of the raw record (labels not
   attached: the record keeps the cis/trans list): header test + codec *)
Definition hdr_unpack (data : list Z) : pyres unpacked :=
  match getb data 0 with
  | None => Err IndexError
  | Some v => if negb ((v =? 0) || (v =? 2)) then Err ValueError else unpack data
  end.

(* memoryview slice data[shift:] *)
Definition py_from {A} (l : list A) (i : Z) : list A := py_slice l i (Z.of_nat (length l)).

(* ReactionContainer.unpack(data, compressed=False): the molecules are decoded by mol_unpack (MoleculeContainer.unpack
   with _return_pack_length=True: the molecule and the consumed length), role split molecules[:r], molecules[r:r+a],
   molecules[r+a:] *)
Fixpoint rxn_walk {M : Type} (mol_unpack : list Z -> pyres (M * Z)) (fuel : nat) (data : list Z) (sh : Z) : pyres (list M) :=
  match fuel with
  | O => Ok []
  | S k =>
      match mol_unpack (py_from data sh) with
      | Err e => Err e
      | Ok (m, pl) => match rxn_walk mol_unpack k data (sh + pl) with Err e => Err e | Ok r => Ok (m :: r) end
      end
  end.

Definition rxn_unpack_with {M : Type} (mol_unpack : list Z -> pyres (M * Z)) (data : list Z) : pyres (list M * list M * list M) :=
  match getb data 0 with
  | None => Err IndexError
  | Some h =>
      if negb (h =? 1) then Err ValueError
      else match getb data 1, getb data 2, getb data 3 with
           | Some r, Some a, Some p =>
               match rxn_walk mol_unpack (Z.to_nat (r + a + p)) data 4 with
               | Err e => Err e
               | Ok mols => Ok (rxn_split mols r a p)
               end
           | _, _, _ => Err IndexError
           end
  end.

Definition hdr_unpack_len (data : list Z) : pyres (unpacked * Z) :=
  match hdr_unpack data with Ok u => Ok (u, up_size u) | Err e => Err e end.

(* ReactionContainer.unpack on raw records, molecule headers checked *)
Definition rxn_unpack_h : list Z -> pyres (list unpacked * list unpacked * list unpacked) := rxn_unpack_with hdr_unpack_len.

(* chython.unpack(data, compressed=False) on raw records *)
Definition top_unpack_raw (data : list Z) : pyres (unpacked + (list unpacked * list unpacked * list unpacked)) :=
  top_unpack (fun d => Ok d) hdr_unpack rxn_unpack_h false data.

(* ---------- the small Python runtime the GENERATED bodies (coq/gen/PackTopGen.v) are written in ---------- *)
Definition bind {A B : Type} (x : pyres A) (f : A -> pyres B) : pyres B := match x with Ok a => f a | Err e => Err e end.
(* data[i] with a constant non-negative i on bytes / memoryview: IndexError outside *)
Definition py_index (data : list Z) (i : Z) : pyres Z := match getb data i with Some v => Ok v | None => Err IndexError end.
(* d[k] / k in d on a dict *)
Definition dict_get {V : Type} (d : list (Z * V)) (k : Z) : pyres V := match zget d k with Some v => Ok v | None => Err KeyError end.
Definition dict_has {V : Type} (d : list (Z * V)) (k : Z) : bool := match zget d k with Some _ => true | None => false end.
(* for x in l: body   -- the assigned / mutated variables are the state *)
Fixpoint for_each {A S : Type} (l : list A) (body : A -> S -> pyres S) (s : S) : pyres S :=
  match l with
  | [] => Ok s
  | x :: r => match body x s with Ok s' => for_each r body s' | Err e => Err e end
  end.
(* for _ in range(n): body *)
Fixpoint for_range {S : Type} (n : nat) (body : S -> pyres S) (s : S) : pyres S :=
  match n with
  | O => Ok s
  | S k => match body s with Ok s' => for_range k body s' | Err e => Err e end
  end.
