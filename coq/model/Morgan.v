(* Model of chython/algorithms/morgan.py (C01): `_morgan`, `Morgan.atoms_order`, `Morgan.int_adjacency`, together with
   the atom invariant `Element.__hash__` (periodictable/base/element.py) and the bond invariant `Bond.__hash__`
   (containers/bonds.py).

   Python dicts are association lists in insertion order.  The hash function is a parameter
   `h : list Z -> Z` (hash of a tuple of ints) so that the theorems hold for ANY hash function (no assumption about
   collisions); the executable instance used by the correspondence is Model.PyHash.hash_ztuple, the bit-exact
   CPython 3.12 tuple hash.  Python bools inside hashed tuples are the ints 0/1 (hash(True) = hash(1) = 1).

   KeyError: every dict lookup of one refinement round is `atoms[n]` for a key n of `bonds` or `atoms[m]` for a
   neighbour m; the comprehension raises KeyError iff one of these numbers is not a key of `atoms`.  The model
   tests exactly this (`closed`) before the round and then computes the round with total lookups. *)
From Coq Require Import ZArith List Bool String Permutation.
From Model Require Import PyBase PyHash Graph.
Import ListNotations.
Open Scope Z_scope.

(* ---------------------------------------------------------------------------------------------------- *)
(* sorted(): stable insertion sort for a boolean "less or equal" *)
Section ISort.
  Context {A : Type}.
  Variable leb : A -> A -> bool.
  Fixpoint insert_by (x : A) (l : list A) : list A :=
    match l with
    | [] => [x]
    | y :: r => if leb x y then x :: y :: r else y :: insert_by x r
    end.
  (* the element that comes first in the input is inserted last, in front of the equal ones: stable *)
  Definition isort (l : list A) : list A := fold_right insert_by [] l.
End ISort.

(* comparison of (label, bond) tuples: lexicographic *)
Definition pair_leb (p q : Z * Z) : bool := (fst p <? fst q) || ((fst p =? fst q) && (snd p <=? snd q)).
(* key=itemgetter(1) on dict items *)
Definition by_label (p q : Z * Z) : bool := snd p <=? snd q.

Definition zsort : list Z -> list Z := isort Z.leb.
(* a sorted list without its repetitions: the canonical form of a set of ints *)
Fixpoint uniq (l : list Z) : list Z :=
  match l with
  | [] => []
  | x :: r => match r with
              | [] => [x]
              | y :: _ => if x =? y then uniq r else x :: uniq r
              end
  end.
(* len(set(values)) *)
Definition ndistinct (vs : list Z) : Z := Z.of_nat (List.length (uniq (zsort vs))).

Definition labels := list (Z * Z).            (* atom number -> label *)
Definition iadj := list (Z * list (Z * Z)).   (* int_adjacency: n -> (m -> hash(bond)) *)

Definition lbl (atoms : labels) (n : Z) : Z := match zget atoms n with Some v => v | None => 0 end.
Definition flat_pairs (l : list (Z * Z)) : list Z := flat_map (fun p => [fst p; snd p]) l.

(* ---------------------------------------------------------------------------------------------------- *)
Section Morgan.
  Variable h : list Z -> Z.

  (* the tuple that is hashed for atom n:
       (atoms[n], *(x for x in sorted((atoms[m], b) for m, b in ms.items()) for x in x)) *)
  Definition round_tuple (atoms : labels) (n : Z) (ms : list (Z * Z)) : list Z :=
    lbl atoms n :: flat_pairs (isort pair_leb (map (fun mb => (lbl atoms (fst mb), snd mb)) ms)).

  (* atoms = {n: hash(...) for n, ms in bonds.items()} : keys and order are those of `bonds` *)
  Definition round (atoms : labels) (adj : iadj) : labels :=
    map (fun nl => (fst nl, h (round_tuple atoms (fst nl) (snd nl)))) adj.

  (* no lookup of the round raises KeyError *)
  Definition closed (atoms : labels) (adj : iadj) : bool :=
    forallb (fun nl => zmem (fst nl) (keys atoms) && forallb (fun mb => zmem (fst mb) (keys atoms)) (snd nl)) adj.

  (* the `for _ in range(tries)` loop; fuel = remaining iterations, state = (atoms, numb, stab).
     Returns the labels after the last executed round. *)
  Fixpoint refine (adj : iadj) (fuel : nat) (atoms : labels) (numb stab : Z) : pyres labels :=
    match fuel with
    | O => Ok atoms
    | S k =>
        if closed atoms adj then
          let atoms' := round atoms adj in
          let old_numb := numb in
          let numb' := ndistinct (map snd atoms') in
          if numb' =? Z.of_nat (List.length atoms') then Ok atoms'                      (* each atom now unique *)
          else if numb' =? old_numb then                                               (* not changed *)
            (if stab =? 3 then Ok atoms' else refine adj k atoms' numb' (stab + 1))
          else if negb (stab =? 0) then refine adj k atoms' numb' 0                     (* elif stab: stab = 0 *)
          else refine adj k atoms' numb' stab
        else Err KeyError
    end.

  (* {n: i for i, (_, g) in enumerate(groupby(sorted(atoms.items(), key=itemgetter(1)), key=itemgetter(1)), start=1)
         for n, _ in g} : walk over the sorted items, the index grows when the label changes *)
  Fixpoint rank_walk (prev i : Z) (l : labels) : labels :=
    match l with
    | [] => []
    | nv :: r => let i' := if snd nv =? prev then i else i + 1 in (fst nv, i') :: rank_walk (snd nv) i' r
    end.
  Definition dense_rank (atoms : labels) : labels :=
    match isort by_label atoms with
    | [] => []
    | nv :: r => (fst nv, 1) :: rank_walk (snd nv) 1 r
    end.

  (* the labels before the final ranking (observable through an instrumented hash) *)
  Definition morgan_labels (atoms : labels) (adj : iadj) : pyres labels :=
    let tries := Z.of_nat (List.length atoms) - 1 in
    let numb := ndistinct (map snd atoms) in
    refine adj (Z.to_nat tries) atoms numb 0.

  (* _morgan(atoms, bonds) *)
  Definition morgan (atoms : labels) (adj : iadj) : pyres labels :=
    match morgan_labels atoms adj with
    | Ok a => Ok (dense_rank a)
    | Err e => Err e
    end.

  (* Element.__hash__:
       hash((self.isotope or 0, self.atomic_number, self.charge, self.is_radical, self.implicit_hydrogens or 0,
             self.in_ring)) *)
  Definition b2z (b : bool) : Z := if b then 1 else 0.
  Definition atom_invariant (a : atom) (in_ring : bool) : Z :=
    h [match a_iso a with Some i => i | None => 0 end; a_num a; a_chg a; b2z (a_rad a);
       match a_h a with Some x => x | None => 0 end; b2z in_ring].

  (* Bond.__hash__ = order *)
  Definition bond_invariant (b : bond) : Z := b_ord b.

  (* Morgan.int_adjacency: {n: {m: hash(b) for m, b in mb.items()} for n, mb in self._bonds.items()} *)
  Definition int_adjacency (g : mol) : iadj :=
    map (fun nl => (fst nl, map (fun mb => (fst mb, bond_invariant (snd mb))) (snd nl))) (m_adj g).

  (* {n: hash(a) for n, a in self.atoms()};  `ring n` = atom.in_ring (ring perception is an input of this model) *)
  Definition atom_labels (ring : Z -> bool) (g : mol) : labels :=
    map (fun na => (fst na, atom_invariant (snd na) (ring (fst na)))) (m_atoms g).

  (* Morgan.atoms_order *)
  Definition atoms_order (ring : Z -> bool) (g : mol) : pyres labels :=
    match m_atoms g with
    | [] => Ok []                                  (* if not self: return {} *)
    | [na] => Ok [(fst na, 1)]                     (* dict.fromkeys(self, 1) *)
    | _ => morgan (atom_labels ring g) (int_adjacency g)
    end.
End Morgan.

(* rank of one atom in a result *)
Definition rank_of (r : pyres labels) (n : Z) : option Z :=
  match r with Ok l => zget l n | Err _ => None end.

(* ---------------------------------------------------------------------------------------------------- *)
(* Graph.remap with an injective renumbering: dict comprehensions keep the insertion order *)
Definition ren_labels (s : Z -> Z) (l : labels) : labels := map (fun nv => (s (fst nv), snd nv)) l.
Definition ren_adj {B : Type} (s : Z -> Z) (adj : list (Z * list (Z * B))) : list (Z * list (Z * B)) :=
  map (fun nl => (s (fst nl), map (fun mb => (s (fst mb), snd mb)) (snd nl))) adj.
Definition ren_mol (s : Z -> Z) (g : mol) : mol :=
  mkMol (map (fun na => (s (fst na), snd na)) (m_atoms g)) (ren_adj s (m_adj g)).
Definition ren_res (s : Z -> Z) (r : pyres labels) : pyres labels :=
  match r with Ok l => Ok (ren_labels s l) | Err e => Err e end.

(* all atom numbers that occur in the arguments of _morgan *)
Definition mentioned {B : Type} (atoms : labels) (adj : list (Z * list (Z * B))) : list Z :=
  keys atoms ++ keys adj ++ flat_map (fun nl => keys (snd nl)) adj.

(* ---------------------------------------------------------------------------------------------------- *)
(* Smiles.__eq__ / __hash__ :  str(self) == str(other),  hash(str(self)).  The canonical string is an opaque
   function of the molecule here (the writer is modelled in Writer.v, C02) and so is the hash of a str. *)
Section EqHash.
  Context {M : Type}.
  Variable canon : M -> string.
  Variable str_hash : string -> Z.
  Definition mol_eq (a b : M) : bool := String.eqb (canon a) (canon b).
  Definition mol_hash (a : M) : Z := str_hash (canon a).
End EqHash.

(* ---------------------------------------------------------------------------------------------------- *)
(* executable instance + comparison helpers for the correspondence *)
Definition labels_eqb (a b : labels) : bool := list_eqb (pair_eqb Z.eqb Z.eqb) a b.
Definition res_eqb (a b : pyres labels) : bool := pyres_eqb labels_eqb a b.
Definition py_morgan := morgan hash_ztuple.
Definition py_morgan_labels := morgan_labels hash_ztuple.
Definition py_atoms_order (rings : list Z) (g : mol) := atoms_order hash_ztuple (fun n => zmem n rings) g.
Definition py_atom_hash (a : atom) (r : bool) := atom_invariant hash_ztuple a r.

(* ---------------------------------------------------------------------------------------------------- *)
(* vocabulary of the theorems *)
Definition inj_on (D : list Z) (s : Z -> Z) : Prop := forall x y, In x D -> In y D -> s x = s y -> x = y.

(* the same dict of dicts built in another insertion order: the outer items are permuted and so is every inner dict *)
Definition nb_perm {B : Type} (a b : Z * list (Z * B)) : Prop := fst a = fst b /\ Permutation (snd a) (snd b).
Definition adj_perm {B : Type} (adj adj' : list (Z * list (Z * B))) : Prop :=
  exists mid, Forall2 nb_perm adj mid /\ Permutation mid adj'.
(* the same molecule with atoms and bonds added in another order *)
Definition mol_perm (g g' : mol) : Prop := Permutation (m_atoms g) (m_atoms g') /\ adj_perm (m_adj g) (m_adj g').
(* the same result dict up to insertion order *)
Definition res_perm (a b : pyres labels) : Prop :=
  match a, b with
  | Ok x, Ok y => Permutation x y
  | Err e, Err e' => e = e'
  | _, _ => False
  end.
(* every atom number used in the adjacency belongs to D *)
Definition adj_in {B : Type} (D : list Z) (adj : list (Z * list (Z * B))) : Prop :=
  forall n ms, In (n, ms) adj -> In n D /\ incl (keys ms) D.

(* rank of a label among the labels vs = number of distinct labels that are <= it *)
Definition rankv (vs : list Z) (v : Z) : Z := Z.of_nat (List.length (uniq (zsort (filter (fun x => x <=? v) vs)))).
