(* C14 -- standardize_charges: the executable hypothesis of the whole-call net-charge theorem.  `charges_pre` runs the heterocycle part
   and checks, at the moment of EVERY accepted match, that the charges are what the pattern of the rule says (the discharged atom
   carries +1, the atom that receives the charge carries 0 and is another atom) and, at the moment of every pair assignment, that
   the chosen nitrogen is neutral.  It is a property of the matcher on the intermediate molecules; the correspondence evaluates it
   on every recorded run of the real code (harness/checks/C14.py: charges_pre_ok). *)
From Coq Require Import ZArith List Bool.
From Model Require Import PyBase Graph Standardize StandardizeChargesBase StandardizeCharges.
From Gen Require Import StdRules.
Import ListNotations.
Open Scope Z_scope.

Definition charge_is (g : mol) (n c : Z) : bool := match atom_of g n with Some a => a_chg a =? c | None => false end.

Definition fixed_pre (fx : bool) (mp : mapping) (st : cstate) : bool :=
  match accept mp st with
  | Ok (_, Some (a1, a2)) =>
      match (if fx then zget mp 3 else Some a1) with
      | Some d => negb (d =? a2) && charge_is (cs_mol st) d 1 && charge_is (cs_mol st) a2 0
      | None => true
      end
  | _ => true
  end.
Definition morgan_pre (fx : bool) (mp : mapping) (st : cstate) : bool :=
  match accept mp st with
  | Ok (_, Some (a1, a2)) =>
      match (if fx then zget mp 3 else Some a1) with
      | Some d => charge_is (cs_mol st) d 1
      | None => true
      end
  | _ => true
  end.
Definition assign_pre (order : Z -> Z) (p : Z * Z * bool) (st : cstate) : bool :=
  let '(a1, a2, fx) := p in charge_is (cs_mol st) (if order a1 >? order a2 then a2 else a1) 0.

Fixpoint steps_pre {A} (pre : A -> cstate -> bool) (step : A -> cstate -> pyres cstate) (xs : list A) (st : cstate) : bool :=
  match xs with
  | [] => true
  | x :: rest => pre x st && match step x st with Ok st1 => steps_pre pre step rest st1 | Err _ => true end
  end.
Fixpoint table_pre (pre : bool -> mapping -> cstate -> bool) (step : bool -> mapping -> cstate -> pyres cstate)
         (table : list crule) (yielded : list (list mapping)) (st : cstate) : bool :=
  match table, yielded with
  | c :: table', ms :: yielded' =>
      steps_pre (pre (c_fix c)) (step (c_fix c)) ms st &&
      match run_steps (step (c_fix c)) ms st with Ok st1 => table_pre pre step table' yielded' st1 | Err _ => true end
  | _, _ => true
  end.

Definition charges_pre (yf ym : list (list mapping)) (order : Z -> Z) (g : mol) : bool :=
  let st0 := mkCS g [] [] [] in
  table_pre fixed_pre fixed_step fixed_rules yf st0 &&
  match run_table fixed_step fixed_rules yf st0 with
  | Err _ => true
  | Ok st1 =>
      table_pre morgan_pre morgan_step morgan_rules ym st1 &&
      match run_table morgan_step morgan_rules ym st1 with
      | Err _ => true
      | Ok st2 => steps_pre (assign_pre order) (morgan_assign order) (cs_pairs st2) st2
      end
  end.
