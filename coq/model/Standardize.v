(* C14 -- model of the normalisation engine of chython/algorithms/standardize:
     molecule.py   : Standardize.__standardize (one pass over a rule collection), the pass sequence of standardize(),
                     explicify_hydrogens, implicify_hydrogens, the per-match patch of standardize_charges
     resonance.py  : the path application of fix_resonance (the path SEARCH is not modelled)
   The rule tables are generated (Gen.StdRules, dumped from the live rule objects on every run).

   What is an INPUT of the model rather than modelled (Section variables, i.e. every theorem is for all of them):
     matches : the substructure matcher  pattern.get_mapping(self, automorphism_filter=False)   (C06/C07 territory)
     calc_h  : MoleculeContainer.calc_implicit                                                  (C04 territory)
     vlookup : `first rule of atom.valence_rules(sum) that matches the environment with h >= i`  (C04 territory)
   Python dicts are association lists in insertion order, Python sets are duplicate-free lists (compared up to order),
   exceptions are PyBase.pyres. *)
From Coq Require Import ZArith List String Bool Lia.
From Model Require Import PyBase Graph PeriodicTable.
From Gen Require Import Elements StdRules.
Import ListNotations.
Open Scope Z_scope.

(* ------------------------------------------------------------------------------------------------
   1. rule tables: accessors and the table obligations (T) as boolean predicates
   ------------------------------------------------------------------------------------------------ *)
Definition afix_entry := (Z * Z * option bool)%type.         (* (pattern atom, charge delta, new radical state) *)
Definition af_atom (e : afix_entry) : Z := fst (fst e).
Definition af_delta (e : afix_entry) : Z := snd (fst e).
Definition af_rad (e : afix_entry) : option bool := snd e.

Definition pattern_ids (r : rule) : list Z := map pa_id (r_atoms r).
Definition patom_of (r : rule) (p : Z) : option patom := find (fun a => pa_id a =? p) (r_atoms r).
Definition zsum (l : list Z) : Z := fold_right Z.add 0 l.
Definition delta_sum (r : rule) : Z := zsum (map af_delta (r_afix r)).

(* AnyMetal.__eq__: not is_forming_single_bonds and not a noble gas (the neighbour / hybridisation marks aside) *)
Definition is_metal (num : Z) : bool :=
  match from_number num with Some e => negb (e_single e) && negb (e_group e =? 18) | None => false end.

(* is the charge of pattern atom p compared by the matcher? *)
Definition constrained (r : rule) (p : Z) : bool :=
  match patom_of r p with Some a => match pa_chg a with Some _ => true | None => false end | None => false end.

(* (i) the charge deltas of a rule sum to zero *)
Definition balanced (r : rule) : bool := delta_sum r =? 0.

(* (ii) a patched atom with a constrained charge stays in [-4, 4] *)
Definition range_ok (r : rule) : bool :=
  forallb (fun e => match patom_of r (af_atom e) with
                    | Some a => match pa_chg a with
                                | Some c => (-4 <=? c + af_delta e) && (c + af_delta e <=? 4)
                                | None => true
                                end
                    | None => false
                    end) (r_afix r).

(* (iii) a patched atom with an UNconstrained charge is the first entry of atom_fix, is the only such entry, its
   delta is not negative (so that only the `> 4` test of the engine is needed), it is an any-metal atom, and every
   other patched atom of that rule is an element (list) without metals -- an atom matched as metal in one match can
   then never be the constrained atom of another match *)
Definition nonmetal_elem (r : rule) (p : Z) : bool :=
  match patom_of r p with
  | Some a => match pa_kind a with PElem nums => forallb (fun z => negb (is_metal z)) nums | _ => false end
  | None => false
  end.
Definition is_pmetal (r : rule) (p : Z) : bool :=
  match patom_of r p with Some a => match pa_kind a with PMetal => true | _ => false end | None => false end.
Definition metal_first (r : rule) : bool :=
  match r_afix r with
  | [] => true
  | e :: rest =>
      forallb (fun x => constrained r (af_atom x)) rest &&
      (constrained r (af_atom e) ||
       ((0 <=? af_delta e) && is_pmetal r (af_atom e) && forallb (fun x => nonmetal_elem r (af_atom x)) rest))
  end.

(* (iv) atom_fix / bonds_fix / any_atoms only name pattern atoms; pattern atom numbers and atom_fix keys are unique;
   a patched atom listed in any_atoms (its overlap between matches is accepted) is an unconstrained one *)
Definition names_ok (r : rule) : bool :=
  nodup_z (pattern_ids r) && nodup_z (map af_atom (r_afix r)) &&
  forallb (fun e => zmem (af_atom e) (pattern_ids r)) (r_afix r) &&
  forallb (fun x => zmem (fst (fst x)) (pattern_ids r) && zmem (snd (fst x)) (pattern_ids r)) (r_bfix r) &&
  forallb (fun p => zmem p (pattern_ids r)) (r_any r) &&
  forallb (fun e => negb (zmem (af_atom e) (r_any r)) || negb (constrained r (af_atom e))) (r_afix r).

(* (iv-b) bonds_fix only re-orders bonds of the pattern (never creates one), to an order in {1,2,3,8} *)
Definition is_pbond (r : rule) (p q : Z) : bool :=
  existsb (fun x => ((pb_n x =? p) && (pb_m x =? q)) || ((pb_n x =? q) && (pb_m x =? p))) (r_bonds r).
Definition bfix_on_bonds (r : rule) : bool :=
  forallb (fun x => is_pbond r (fst (fst x)) (snd (fst x)) && zmem (snd x) [1; 2; 3; 8] &&
                    negb (fst (fst x) =? snd (fst x))) (r_bfix r).

(* all obligations but the balance *)
Definition rule_ok (r : rule) : bool := range_ok r && metal_first r && names_ok r && bfix_on_bonds r.

(* ------------------------------------------------------------------------------------------------
   2. the valence states of an atom, read off the generated element tables (spec level: the compiled dictionary of
      Element._compiled_valence_rules has a rule under (charge, radical, sum) matching the environment iff ...)
   ------------------------------------------------------------------------------------------------ *)
Definition env := list (Z * string).        (* explicit non-special neighbours: (bond order, element symbol) *)
Definition env_sum (e : env) : Z := zsum (map fst e).
Definition env_count (e : env) (k : Z * string) : Z :=
  Z.of_nat (List.length (filter (fun x => (fst x =? fst k) && String.eqb (snd x) (snd k)) e)).
(* s.issubset(explicit_dict) and all(explicit_dict[k] >= c for k, c in d.items()) *)
Definition env_covers (need have : env) : bool := forallb (fun k => env_count need k <=? env_count have k) need.

Definition common_state (el : elem) (chg : Z) (rad : bool) (sum : Z) : bool :=
  (chg =? 0) && negb rad &&
  match e_common el with
  | [] => false
  | v0 :: vs => if negb (v0 =? 0) && negb (e_num el =? 1)
                then ((0 <=? sum) && (sum <=? v0)) || zmem sum vs
                else zmem sum (v0 :: vs)
  end.
Definition exception_state (chg : Z) (rad : bool) (have : env) (x : Z * bool * Z * list (Z * string)) : bool :=
  let '(c, r, imp, need) := x in
  (c =? chg) && Bool.eqb r rad &&
  (if imp =? 0 then env_sum have =? env_sum need
   else (env_sum need <=? env_sum have) && (env_sum have <=? env_sum need + imp)) &&
  env_covers need have.
Definition has_state (el : elem) (chg : Z) (rad : bool) (have : env) : bool :=
  common_state el chg rad (env_sum have) || existsb (exception_state chg rad have) (e_exc el).

(* the same question when only `all bonds single, d of them` is known about the environment (pattern `D<d>;z1`):
   could ANY such environment have a state?  an exception rule that needs a multiple bond cannot match *)
Definition exception_state_single (chg : Z) (rad : bool) (d : Z) (x : Z * bool * Z * list (Z * string)) : bool :=
  let '(c, r, imp, need) := x in
  (c =? chg) && Bool.eqb r rad &&
  (if imp =? 0 then d =? env_sum need else (env_sum need <=? d) && (d <=? env_sum need + imp)) &&
  forallb (fun k => fst k =? 1) need.
Definition may_have_state_single (el : elem) (chg : Z) (rad : bool) (d : Z) : bool :=
  common_state el chg rad d || existsb (exception_state_single chg rad d) (e_exc el).

(* the centre (first pattern atom) of a rule: can the pattern be matched by an atom that has a valence state? *)
Definition first_sym (nums : list Z) : option elem := match nums with [z] => from_number z | _ => None end.
Definition pbonds_at (r : rule) (p : Z) : list (Z * list Z) :=
  flat_map (fun x => if pb_n x =? p then [(pb_m x, pb_ord x)] else if pb_m x =? p then [(pb_n x, pb_ord x)] else []) (r_bonds r).
Fixpoint exact_env (r : rule) (bs : list (Z * list Z)) : option env :=
  match bs with
  | [] => Some []
  | (q, [o]) :: rest =>
      match patom_of r q, exact_env r rest with
      | Some a, Some e => match pa_kind a with
                          | PElem [z] => match from_number z with Some el => Some ((o, e_sym el) :: e) | None => None end
                          | _ => None
                          end
      | _, _ => None
      end
  | _ => None
  end.
Definition centre_invalid (r : rule) : bool :=
  match r_atoms r with
  | [] => false
  | a :: _ =>
      match pa_kind a, pa_chg a, pa_rad a, pa_nb a with
      | PElem [z], Some c, Some rd, [d] =>
          match from_number z with
          | None => false
          | Some el =>
              if list_eqb Z.eqb (pa_hyb a) [1]
              then negb (may_have_state_single el c rd d)                 (* d single bonds, nothing else known *)
              else if d =? Z.of_nat (List.length (pbonds_at r (pa_id a)))    (* every neighbour is in the pattern *)
                   then match exact_env r (pbonds_at r (pa_id a)) with
                        | Some e => negb (has_state el c rd e)
                        | None => false
                        end
                   else false
          end
      | _, _, _, _ => false
      end
  end.

(* ------------------------------------------------------------------------------------------------
   3. molecule updates
   ------------------------------------------------------------------------------------------------ *)
Definition total_charge (g : mol) : Z := zsum (map (fun na => a_chg (snd na)) (m_atoms g)).
(* what a normalisation step must never touch: numbers, elements, isotopes, in order *)
Definition skeleton (g : mol) : list (Z * Z * option Z) := map (fun na => (fst na, a_num (snd na), a_iso (snd na))) (m_atoms g).
Definition charge_of (g : mol) (n : Z) : option Z := option_map a_chg (atom_of g n).

Definition upd_atoms (n : Z) (f : atom -> atom) (l : list (Z * atom)) : list (Z * atom) :=
  map (fun na => if fst na =? n then (fst na, f (snd na)) else na) l.
Definition upd_atom (g : mol) (n : Z) (f : atom -> atom) : mol := mkMol (upd_atoms n f (m_atoms g)) (m_adj g).
Definition set_chg_rad (c : Z) (ir : option bool) (a : atom) : atom :=
  mkAtom (a_num a) (a_iso a) c (match ir with Some r => r | None => a_rad a end) (a_h a) (a_stereo a).
Definition set_chg (c : Z) (a : atom) : atom := set_chg_rad c None a.
Definition set_h (h : option Z) (a : atom) : atom := mkAtom (a_num a) (a_iso a) (a_chg a) (a_rad a) h (a_stereo a).

Definition set_ord (o : Z) (b : bond) : bond := mkBond o (b_stereo b).
Definition upd_nb (m o : Z) (l : list (Z * bond)) : list (Z * bond) :=
  map (fun mb => if fst mb =? m then (fst mb, set_ord o (snd mb)) else mb) l.
Definition set_bond_dir (adj : list (Z * list (Z * bond))) (n m o : Z) : list (Z * list (Z * bond)) :=
  map (fun nl => if fst nl =? n then (fst nl, upd_nb m o (snd nl)) else nl) adj.
Definition add_bond_dir (adj : list (Z * list (Z * bond))) (n m o : Z) : list (Z * list (Z * bond)) :=
  map (fun nl => if fst nl =? n then (fst nl, snd nl ++ [(m, mkBond o None)]) else nl) adj.

(* if m in bonds[n]: bonds[n][m]._order = bo   (one Bond object shared by both directions)
   else: bonds[n][m] = bonds[m][n] = Bond(bo) *)
Definition patch_bond (g : mol) (n m o : Z) : pyres mol :=
  match zget (m_adj g) n with
  | None => Err KeyError
  | Some nbn =>
      if zmem m (keys nbn) then Ok (mkMol (m_atoms g) (set_bond_dir (set_bond_dir (m_adj g) n m o) m n o))
      else match zget (m_adj g) m with
           | None => Err KeyError
           | Some _ => Ok (mkMol (m_atoms g) (add_bond_dir (add_bond_dir (m_adj g) n m o) m n o))
           end
  end.

Definition add_set (x : Z) (l : list Z) : list Z := if zmem x l then l else l ++ [x].
Definition union_set (a b : list Z) : list Z := fold_left (fun acc x => add_set x acc) b a.
Definition disjoint (a b : list Z) : bool := forallb (fun x => negb (zmem x b)) a.

(* ------------------------------------------------------------------------------------------------
   4. Standardize.__standardize
   ------------------------------------------------------------------------------------------------ *)
Definition mapping := list (Z * Z).                      (* pattern atom -> molecule atom, in dict order *)
Definition values (mp : mapping) : list Z := map snd mp.

(* for n, (ch, ir) in atom_fix.items(): ... break / else *)
Inductive afix_res := AfDone (g : mol) (hs : list Z) | AfBad (g : mol) (hs : list Z) | AfErr (e : pyexn).
Fixpoint afix_loop (mp : mapping) (fx : list afix_entry) (g : mol) (hs : list Z) : afix_res :=
  match fx with
  | [] => AfDone g hs
  | e :: rest =>
      match zget mp (af_atom e) with
      | None => AfErr KeyError                             (* mapping[n] *)
      | Some n =>
          match atom_of g n with
          | None => AfErr KeyError                         (* atoms[n] *)
          | Some a =>
              let c := a_chg a + af_delta e in             (* a._charge += ch *)
              if c >? 4 then AfBad g (add_set n hs)        (* a._charge -= ch; log `bad charge formed`; break *)
              else afix_loop mp rest (upd_atom g n (set_chg_rad c (af_rad e))) (add_set n hs)
          end
      end
  end.

Fixpoint bfix_loop (mp : mapping) (bx : list (Z * Z * Z)) (g : mol) (hs : list Z) : pyres (mol * list Z) :=
  match bx with
  | [] => Ok (g, hs)
  | (p, q, o) :: rest =>
      match zget mp p with
      | None => Err KeyError
      | Some n =>
          match zget mp q with
          | None => Err KeyError
          | Some m =>
              match patch_bond g n m o with
              | Err e => Err e
              | Ok g' => bfix_loop mp rest g' (add_set m (add_set n hs))
              end
          end
      end
  end.

(* {mapping[n] for n in any_atoms} *)
Fixpoint map_all (mp : mapping) (ps : list Z) : pyres (list Z) :=
  match ps with
  | [] => Ok []
  | p :: rest => match zget mp p with
                 | None => Err KeyError
                 | Some n => match map_all mp rest with Ok l => Ok (n :: l) | Err e => Err e end
                 end
  end.

Inductive logkind := LogFixed | LogBad.
Definition logentry := (list Z * Z * logkind)%type.        (* (tuple(match), r, str(pattern) | `bad charge formed...`) *)
Record pstate := mkPS { ps_mol : mol; ps_seen : list Z; ps_hs : list Z; ps_log : list logentry }.

Definition apply_match (ridx : Z) (r : rule) (mp : mapping) (st : pstate) : pyres pstate :=
  let mt := values mp in
  if negb (disjoint mt (ps_seen st)) then Ok st            (* skip intersected groups *)
  else match map_all mp (r_any r) with                     (* accept overlapping of Any-atoms *)
       | Err e => Err e
       | Ok anys =>
           let seen' := union_set (ps_seen st) (filter (fun x => negb (zmem x anys)) mt) in
           match afix_loop mp (r_afix r) (ps_mol st) (ps_hs st) with
           | AfErr e => Err e
           | AfBad g hs => Ok (mkPS g seen' hs (ps_log st ++ [(mt, ridx, LogBad)]))
           | AfDone g hs =>
               match bfix_loop mp (r_bfix r) g hs with
               | Err e => Err e
               | Ok (g', hs') => Ok (mkPS g' seen' hs' (ps_log st ++ [(mt, ridx, LogFixed)]))
               end
           end
       end.

Fixpoint matches_loop (ridx : Z) (r : rule) (mps : list mapping) (st : pstate) : pyres pstate :=
  match mps with
  | [] => Ok st
  | mp :: rest => match apply_match ridx r mp st with
                  | Err e => Err e
                  | Ok st' => matches_loop ridx r rest st'
                  end
  end.

Section Pass.
  (* matches stage ridx rule g : the mappings pattern.get_mapping yields for this rule.  `stage` tells the four calls
     of standardize() apart (0, 1: double_rules first / second shot, 2: single_rules, 3: metal_rules) *)
  Variable matches : Z -> Z -> rule -> mol -> list mapping.
  Variable calc_h : mol -> Z -> option Z.                  (* calc_implicit(n) *)

  (* for n in hs: self.calc_implicit(n)    (reads bonds and elements, writes the hydrogen count of n only) *)
  Definition recalc (g : mol) (hs : list Z) : mol := fold_left (fun g n => upd_atom g n (set_h (calc_h g n))) hs g.

  Fixpoint rules_loop (stage ridx : Z) (rules : list rule) (fix_taut : bool) (g : mol) (log : list logentry)
           (fixed : list Z) : pyres (mol * list logentry * list Z) :=
    match rules with
    | [] => Ok (g, log, fixed)
    | r :: rest =>
        if negb fix_taut && r_taut r then rules_loop stage (ridx + 1) rest fix_taut g log fixed
        else match matches_loop ridx r (matches stage ridx r g) (mkPS g [] [] log) with
             | Err e => Err e
             | Ok st =>
                 match ps_hs st with
                 | [] => rules_loop stage (ridx + 1) rest fix_taut (ps_mol st) (ps_log st) fixed     (* not matched *)
                 | hs => rules_loop stage (ridx + 1) rest fix_taut (recalc (ps_mol st) hs) (ps_log st) (union_set fixed hs)
                 end
             end
    end.

  Definition standardize_pass (stage : Z) (rules : list rule) (fix_taut : bool) (g : mol) :=
    rules_loop stage 0 rules fix_taut g [] [].

  (* standardize() after fix_resonance: double, (double again if the first shot fixed something), single, metal *)
  Definition standardize_passes (dbl sgl mtl : list rule) (fix_taut : bool) (g : mol)
    : pyres (mol * list logentry * list Z) :=
    match standardize_pass 0 dbl fix_taut g with
    | Err e => Err e
    | Ok (g1, l1, f1) =>
        match (match f1 with
               | [] => Ok (g1, [], [])
               | _ => standardize_pass 1 dbl fix_taut g1
               end) with
        | Err e => Err e
        | Ok (g2, l2, f2) =>
            match standardize_pass 2 sgl fix_taut g2 with
            | Err e => Err e
            | Ok (g3, l3, f3) =>
                match standardize_pass 3 mtl fix_taut g3 with
                | Err e => Err e
                | Ok (g4, l4, f4) => Ok (g4, l1 ++ l2 ++ l3 ++ l4, union_set (union_set (union_set f1 f2) f3) f4)
                end
            end
        end
    end.
End Pass.

(* ------------------------------------------------------------------------------------------------
   5. what the conservation proof needs from the matcher (a PARTIAL specification of a sound matcher: it says nothing
      about neighbour counts, hybridisation, rings, heteroatoms, bond orders)
   ------------------------------------------------------------------------------------------------ *)
Definition adjacent (g : mol) (n m : Z) : bool := zmem m (nbr_ids g n).
Definition patom_ok (g : mol) (mp : mapping) (a : patom) : bool :=
  match zget mp (pa_id a) with
  | None => false
  | Some n =>
      match atom_of g n with
      | None => false
      | Some x =>
          match pa_chg a with Some c => a_chg x =? c | None => true end &&
          match pa_kind a with PElem nums => zmem (a_num x) nums | PAny => true | PMetal => is_metal (a_num x) end
      end
  end.
Definition match_ok (r : rule) (g : mol) (mp : mapping) : bool :=
  nodup_z (values mp) && nodup_z (keys mp) &&
  forallb (patom_ok g mp) (r_atoms r) &&
  forallb (fun x => match zget mp (pb_n x), zget mp (pb_m x) with
                    | Some n, Some m => adjacent g n m && adjacent g m n
                    | _, _ => false
                    end) (r_bonds r).

(* ------------------------------------------------------------------------------------------------
   6. a rule's own minimal instantiation: the pattern built as a molecule, matched by the identity
   ------------------------------------------------------------------------------------------------ *)
Definition inst_atom (a : patom) : Z * atom :=
  (pa_id a, mkAtom (match pa_kind a with PElem (z :: _) => z | PElem [] => 6 | PAny => 6 | PMetal => 26 end) None
                   (match pa_chg a with Some c => c | None => 0 end)
                   (match pa_rad a with Some r => r | None => false end) None None).
Definition inst_adj (bs : list pbond) (p : Z) : list (Z * bond) :=
  flat_map (fun x => let o := match pb_ord x with o :: _ => o | [] => 1 end in
                     if pb_n x =? p then [(pb_m x, mkBond o None)] else if pb_m x =? p then [(pb_n x, mkBond o None)] else [])
           bs.
Definition instantiate (atoms : list patom) (bs : list pbond) : mol :=
  mkMol (map inst_atom atoms) (map (fun a => (pa_id a, inst_adj bs (pa_id a))) atoms).
Definition id_mapping (atoms : list patom) : mapping := map (fun a => (pa_id a, pa_id a)) atoms.

(* the rule applied to its own instantiation: match accepted by match_ok, the patch completes, the net charge moves by
   exactly delta_sum, nothing but charges / radicals / orders changes *)
Definition self_test (r : rule) : bool :=
  let g := instantiate (r_atoms r) (r_bonds r) in
  let mp := id_mapping (r_atoms r) in
  match_ok r g mp &&
  match apply_match 0 r mp (mkPS g [] [] []) with
  | Ok st => (total_charge (ps_mol st) =? total_charge g + delta_sum r) &&
             list_eqb (fun x y => (fst (fst x) =? fst (fst y)) && (snd (fst x) =? snd (fst y)) && option_eqb Z.eqb (snd x) (snd y))
                      (skeleton (ps_mol st)) (skeleton g) &&
             list_eqb (fun x y => (fst x =? fst y) && list_eqb Z.eqb (snd x) (snd y)) (graph_of (ps_mol st)) (graph_of g) &&
             match ps_log st with [(_, _, LogFixed)] => true | _ => false end
  | Err _ => false
  end.

(* ------------------------------------------------------------------------------------------------
   7. standardize_charges: the patch of one match of a (pattern, fix) rule
   ------------------------------------------------------------------------------------------------ *)
Definition cpatom_chg (c : crule) (p : Z) : option Z :=
  match find (fun a => pa_id a =? p) (c_atoms c) with Some a => pa_chg a | None => None end.
(* fixed rules:  atoms[3 if fix else 1]._charge = 0; atoms[2]._charge = 1
   morgan rules: atoms[3 if fix else 1]._charge = 0; then atoms[2 or 1]._charge = 1 (chosen by the canonical order) *)
Definition crule_balanced_fixed (c : crule) : bool :=
  option_eqb Z.eqb (cpatom_chg c (if c_fix c then 3 else 1)) (Some 1) && option_eqb Z.eqb (cpatom_chg c 2) (Some 0).
Definition crule_balanced_morgan (c : crule) : bool :=
  option_eqb Z.eqb (cpatom_chg c (if c_fix c then 3 else 1)) (Some 1) && option_eqb Z.eqb (cpatom_chg c 2) (Some 0) &&
  (negb (c_fix c) || option_eqb Z.eqb (cpatom_chg c 1) (Some 0)).

Definition charged_patch (g : mol) (discharge charge_up : Z) : mol :=
  upd_atom (upd_atom g discharge (set_chg 0)) charge_up (set_chg 1).

(* ------------------------------------------------------------------------------------------------
   8. fix_resonance: application of a found path  [(n0, n1, b1); (n1, n2, b2); ...]
   ------------------------------------------------------------------------------------------------ *)
Definition path := list (Z * Z * Z).
Definition path_end (start : Z) (p : path) : Z := match rev p with (_, m, _) :: _ => m | [] => start end.
Fixpoint apply_orders (g : mol) (p : path) : pyres mol :=
  match p with
  | [] => Ok g
  | (n, m, o) :: rest =>
      match zget (m_adj g) n with
      | None => Err KeyError
      | Some nb => if zmem m (keys nb)
                   then apply_orders (mkMol (m_atoms g) (set_bond_dir (set_bond_dir (m_adj g) n m o) m n o)) rest
                   else Err KeyError
      end
  end.
(* charged path: atoms[m]._charge -= 1 (exit), atoms[n]._charge += 1 (entry), bond orders along the path *)
Definition apply_charge_path (g : mol) (n : Z) (p : path) : pyres mol :=
  let m := path_end n p in
  match atom_of g m, atom_of g n with
  | Some am, Some an =>
      let g1 := upd_atom g m (fun a => set_chg (a_chg a - 1) a) in
      let g2 := upd_atom g1 n (fun a => set_chg (a_chg a + 1) a) in
      apply_orders g2 p
  | _, _ => Err KeyError
  end.
(* radical path: both ends lose the radical mark *)
Definition apply_radical_path (g : mol) (n : Z) (p : path) : pyres mol :=
  let m := path_end n p in
  let unrad := fun a => set_chg_rad (a_chg a) (Some false) a in
  match atom_of g m, atom_of g n with
  | Some _, Some _ => apply_orders (upd_atom (upd_atom g n unrad) m unrad) p
  | _, _ => Err KeyError
  end.

(* ------------------------------------------------------------------------------------------------
   9. explicify_hydrogens / implicify_hydrogens
   ------------------------------------------------------------------------------------------------ *)
Definition h_atom : atom := mkAtom 1 None 0 false (Some 0) None.        (* _H(implicit_hydrogens=0) *)
Definition single : bond := mkBond 1 None.                              (* Bond(1) *)

(* to_add.extend([n] * a.implicit_hydrogens); TypeError (None) -> ValenceError *)
Fixpoint to_add (l : list (Z * atom)) : pyres (list Z) :=
  match l with
  | [] => Ok []
  | (n, a) :: rest =>
      match a_h a with
      | None => Err ValenceError
      | Some h => match to_add rest with
                  | Ok t => Ok (repeat n (Z.to_nat h) ++ t)
                  | Err e => Err e
                  end
      end
  end.
Definition zmax (l : list Z) : Z := fold_right Z.max 0 l.    (* atom numbers are positive *)

(* atoms[m] = H; bonds[n][m] = b; bonds[m] = {n: b}; atoms[n]._implicit_hydrogens = 0; m += 1 *)
Definition add_h (g : mol) (n m : Z) : mol :=
  mkMol (upd_atoms n (set_h (Some 0)) (m_atoms g) ++ [(m, h_atom)])
        (map (fun nl => if fst nl =? n then (fst nl, snd nl ++ [(m, single)]) else nl) (m_adj g) ++ [(m, [(n, single)])]).
Fixpoint add_hs (g : mol) (ns : list Z) (m : Z) : mol :=
  match ns with [] => g | n :: rest => add_hs (add_h g n m) rest (m + 1) end.
Definition explicify (g : mol) : pyres mol :=
  match to_add (m_atoms g) with
  | Err e => Err e
  | Ok [] => Ok g
  | Ok ns => Ok (add_hs g ns (zmax (ids g) + 1))
  end.

(* implicify: the outcome of `atom.valence_rules(explicit_sum)` + first rule matching the environment with h >= i *)
Inductive vres := VErr                 (* ValenceError: no rule list under (charge, radical, sum)  -> break *)
                | VNone                (* no rule of the list fits with h >= i                     -> try fewer hydrogens *)
                | VSome (h : Z).       (* found: all i hydrogens go, the atom gets h implicit ones *)

Definition is_protium (a : atom) : bool :=
  (a_num a =? 1) && match a_iso a with None => true | Some i => i =? 1 end.

(* explicit = defaultdict(list): heavy atom -> its removable hydrogens, both in order of discovery *)
Fixpoint dl_append (d : list (Z * list Z)) (k v : Z) : list (Z * list Z) :=
  match d with
  | [] => [(k, [v])]
  | (k', l) :: r => if k' =? k then (k', l ++ [v]) :: r else (k', l) :: dl_append r k v
  end.
Fixpoint scan_h_bonds (g : mol) (n : Z) (nb : list (Z * bond)) (d : list (Z * list Z)) : pyres (list (Z * list Z)) :=
  match nb with
  | [] => Ok d
  | (m, b) :: rest =>
      if b_ord b =? 1 then
        match atom_of g m with
        | None => Err KeyError
        | Some am => scan_h_bonds g n rest (if a_num am =? 1 then d else dl_append d m n)      (* not H-H *)
        end
      else if b_ord b =? 8 then scan_h_bonds g n rest d
      else Err ValenceError
  end.
Fixpoint scan_explicit (g : mol) (l : list (Z * atom)) (d : list (Z * list Z)) : pyres (list (Z * list Z)) :=
  match l with
  | [] => Ok d
  | (n, a) :: rest =>
      if is_protium a then
        (* if sum(b != 8 for b in bonds[n].values()) > 1: coordinate bonds are not a valence of hydrogen *)
        if (1 <? Z.of_nat (List.length (filter (fun mb => negb (b_ord (snd mb) =? 8)) (nbrs g n)))) then Err ValenceError
        else match scan_h_bonds g n (nbrs g n) d with
             | Err e => Err e
             | Ok d' => scan_explicit g rest d'
             end
      else scan_explicit g rest d
  end.

Section Implicify.
  (* vlookup a env i: env = [(bond order, atomic number of the neighbour)] in neighbour order, without the hydrogens
     that are being removed and without special (8) bonds *)
  Variable vlookup : atom -> list (Z * Z) -> Z -> vres.

  Definition env_without (g : mol) (n : Z) (hi : list Z) : list (Z * Z) :=
    flat_map (fun mb => if zmem (fst mb) hi || (b_ord (snd mb) =? 8) then []
                        else [(b_ord (snd mb), match atom_of g (fst mb) with Some a => a_num a | None => 0 end)])
             (nbrs g n).

  (* for i in range(len_h, 0, -1): ... *)
  Fixpoint decide (g : mol) (n : Z) (a : atom) (hs : list Z) (i : nat) : option (list Z * Z) :=
    match i with
    | O => None
    | S k =>
        let hi := firstn i hs in
        match vlookup a (env_without g n hi) (Z.of_nat i) with
        | VErr => None
        | VSome h => Some (hi, h)
        | VNone => decide g n a hs k
        end
    end.

  Fixpoint decide_all (g : mol) (ex : list (Z * list Z)) (rm : list Z) (fx : list (Z * Z)) : pyres (list Z * list (Z * Z)) :=
    match ex with
    | [] => Ok (rm, fx)
    | (n, hs) :: rest =>
        match atom_of g n with
        | None => Err KeyError
        | Some a =>
            match decide g n a hs (List.length hs) with
            | None => decide_all g rest rm fx
            | Some (hi, h) => decide_all g rest (union_set rm hi) (fx ++ [(n, h)])
            end
        end
    end.

  (* del atoms[n]; for m in bonds.pop(n): del bonds[m][n] *)
  Definition remove_atoms (g : mol) (rm : list Z) : mol :=
    mkMol (filter (fun na => negb (zmem (fst na) rm)) (m_atoms g))
          (map (fun nl => (fst nl, filter (fun mb => negb (zmem (fst mb) rm)) (snd nl)))
               (filter (fun nl => negb (zmem (fst nl) rm)) (m_adj g))).
  Definition set_hs (g : mol) (fx : list (Z * Z)) : mol :=
    fold_left (fun g nh => upd_atom g (fst nh) (set_h (Some (snd nh)))) fx g.

  Definition implicify (g : mol) : pyres mol :=
    match scan_explicit g (m_atoms g) [] with
    | Err e => Err e
    | Ok ex => match decide_all g ex [] [] with
               | Err e => Err e
               | Ok (rm, fx) => Ok (set_hs (remove_atoms g rm) fx)
               end
    end.
End Implicify.
