(* C04 -- model of the implicit-hydrogen / valence machinery of chython:
     chython/periodictable/base/element.py : Element._compiled_valence_rules, Element.valence_rules
     chython/containers/molecule.py        : MoleculeContainer.calc_implicit, check_implicit, fix_structure (hydrogen part),
                                             calc_labels (hydrogen / neighbour labels), brutto, molecular_charge,
                                             is_radical, molecular_mass
     chython/algorithms/standardize/molecule.py : check_valence
   The per-element tables (_common_valences, _valences_exceptions, isotope tables) are generated (Gen.Elements).
   Python dicts are association lists in insertion order; Python sets are lists (compared up to order);
   exceptions are PyBase.pyres.  Masses are exact decimals scaled by 10^24 (the code uses floats). *)
From Coq Require Import ZArith List String Bool.
From Model Require Import PyBase Graph PeriodicTable.
From Gen Require Import Elements.
Import ListNotations.
Open Scope Z_scope.

(* ------------------------------------------------------------------------------------------------
   1. explicit-neighbour dictionaries: keys (bond order, atomic number), values = multiplicity
   ------------------------------------------------------------------------------------------------ *)
Definition ekey := (Z * Z)%type.
Definition ekey_eqb (a b : ekey) : bool := (fst a =? fst b) && (snd a =? snd b).
Definition edict := list (ekey * Z).

Fixpoint eget (d : edict) (k : ekey) : option Z :=
  match d with
  | [] => None
  | (k', c) :: r => if ekey_eqb k k' then Some c else eget r k
  end.
(* `k in d` *)
Definition ehas (d : edict) (k : ekey) : bool := match eget d k with Some _ => true | None => false end.
(* reading d[k] of a defaultdict(int) *)
Definition ecount (d : edict) (k : ekey) : Z := match eget d k with Some c => c | None => 0 end.
(* d[k] += 1 on a defaultdict(int): in place when the key exists, appended otherwise *)
Fixpoint eincr (d : edict) (k : ekey) : edict :=
  match d with
  | [] => [(k, 1)]
  | (k', c) :: r => if ekey_eqb k k' then (k', c + 1) :: r else (k', c) :: eincr r k
  end.
(* set.add on a set kept as a duplicate-free list in first-insertion order *)
Definition eadd (s : list ekey) (k : ekey) : list ekey := if existsb (ekey_eqb k) s then s else s ++ [k].

(* ------------------------------------------------------------------------------------------------
   2. Element._compiled_valence_rules
   ------------------------------------------------------------------------------------------------ *)
Record rule := mkRule { r_set : list ekey; r_dict : edict; r_h : Z }.
Definition rkey := (Z * bool * Z)%type.                    (* (charge, is_radical, sum of explicit bond orders) *)
Definition rkey_eqb (a b : rkey) : bool :=
  let '(c1, r1, v1) := a in let '(c2, r2, v2) := b in (c1 =? c2) && Bool.eqb r1 r2 && (v1 =? v2).
Definition rtable := list (rkey * list rule).              (* dict in insertion order of the keys *)

Fixpoint rt_get (t : rtable) (k : rkey) : option (list rule) :=
  match t with
  | [] => None
  | (k', l) :: r => if rkey_eqb k k' then Some l else rt_get r k
  end.
(* rules[k].append(x) on a defaultdict(list) *)
Fixpoint rt_append (t : rtable) (k : rkey) (x : rule) : rtable :=
  match t with
  | [] => [(k, [x])]
  | (k', l) :: r => if rkey_eqb k k' then (k', l ++ [x]) :: r else (k', l) :: rt_append r k x
  end.

(* elements_classes = {x.__name__: x.atomic_number.fget(None) for x in Element.__subclasses__()} : last duplicate wins *)
Fixpoint sget_last {V : Type} (d : list (string * V)) (k : string) : option V :=
  match d with
  | [] => None
  | (k', v) :: r => match sget_last r k with
                    | Some w => Some w
                    | None => if String.eqb k k' then Some v else None
                    end
  end.
Definition elements_classes : list (string * Z) := map (fun e => (e_sym e, e_num e)) elements.

Definition any_rule (h : Z) : rule := mkRule [] [] h.     (* (set(), {}, h): any atoms and bonds possible *)

(* for h in range(n + 1): rules[(c, r, valence - h)].append((s, d, h)) *)
Definition add_h_range (t : rtable) (c : Z) (r : bool) (valence : Z) (n : Z) (s : list ekey) (d : edict) : rtable :=
  fold_left (fun t h => rt_append t (c, r, valence - h) (mkRule s d h)) (zrange 0 (n + 1)) t.

Definition common_rules (num : Z) (cv : list Z) : pyres rtable :=
  match cv with
  | [] => Err IndexError                                   (* self._common_valences[0] *)
  | v0 :: rest =>
      if negb (v0 =? 0) && negb (num =? 1) then
        let t := add_h_range [] 0 false v0 v0 [] [] in
        Ok (fold_left (fun t v => rt_append t (0, false, v) (any_rule 0)) rest t)
      else
        Ok (fold_left (fun t v => rt_append t (0, false, v) (any_rule 0)) cv [])
  end.

(* the loop over `environment`: explicit_set / explicit_dict; KeyError on an unknown element symbol *)
Fixpoint env_compile (classes : list (string * Z)) (env : list (Z * string)) (s : list ekey) (d : edict)
  : pyres (list ekey * edict) :=
  match env with
  | [] => Ok (s, d)
  | (b, e) :: r =>
      match sget_last classes e with
      | None => Err KeyError
      | Some z => env_compile classes r (eadd s (b, z)) (eincr d (b, z))
      end
  end.

Definition exception_rules (classes : list (string * Z)) (t : rtable) (x : Z * bool * Z * list (Z * string)) : pyres rtable :=
  let '(charge, is_radical, implicit, environment) := x in
  let explicit := fold_left Z.add (map fst environment) 0 in
  match env_compile classes environment [] [] with
  | Err e => Err e
  | Ok (s, d) =>
      if negb (implicit =? 0) then Ok (add_h_range t charge is_radical (explicit + implicit) implicit s d)
      else Ok (rt_append t (charge, is_radical, explicit) (mkRule s d 0))
  end.

Fixpoint exceptions_loop (classes : list (string * Z)) (t : rtable) (xs : list (Z * bool * Z * list (Z * string))) : pyres rtable :=
  match xs with
  | [] => Ok t
  | x :: r => match exception_rules classes t x with
              | Err e => Err e
              | Ok t' => exceptions_loop classes t' r
              end
  end.

Definition compiled_rules_with (classes : list (string * Z)) (e : elem) : pyres rtable :=
  match common_rules (e_num e) (e_common e) with
  | Err x => Err x
  | Ok t => exceptions_loop classes t (e_exc e)
  end.
Definition compiled_rules (e : elem) : pyres rtable := compiled_rules_with elements_classes e.

(* Element.valence_rules(valence): KeyError of the lookup becomes ValenceError; an exception while compiling propagates *)
Definition lookup_rules (t : pyres rtable) (charge : Z) (rad : bool) (valence : Z) : pyres (list rule) :=
  match t with
  | Err x => Err x
  | Ok t => match rt_get t (charge, rad, valence) with Some l => Ok l | None => Err ValenceError end
  end.
Definition valence_rules (e : elem) := lookup_rules (compiled_rules e).

(* ------------------------------------------------------------------------------------------------
   3. MoleculeContainer.calc_implicit / check_implicit
   ------------------------------------------------------------------------------------------------ *)
(* s.issubset(explicit_dict) and all(explicit_dict[k] >= c for k, c in d.items()) *)
Definition rule_matches (r : rule) (d : edict) : bool :=
  forallb (ehas d) (r_set r) && forallb (fun kc => snd kc <=? ecount d (fst kc)) (r_dict r).

(* for s, d, h in rules: if ...: return h  -- the first rule wins; None when no rule applies *)
Fixpoint first_rule (rs : list rule) (d : edict) : option Z :=
  match rs with
  | [] => None
  | r :: rest => if rule_matches r d then Some (r_h r) else first_rule rest d
  end.
(* for s, d, _h in rules: if h == _h and ...: return True *)
Definition some_rule (rs : list rule) (d : edict) (h : Z) : bool :=
  existsb (fun r => (h =? r_h r) && rule_matches r d) rs.

(* what the loop `for m, bond in self._bonds[n].items()` sees: (bond order, atomic number of the neighbour);
   the number is None when self._atoms[m] would raise KeyError (only evaluated for orders other than 4 and 8) *)
Definition nview := list (Z * option Z).

Inductive scanres :=
| SReturn                                   (* early `return` from inside the loop *)
| SRaise (e : pyexn)
| SDone (explicit_sum : Z) (explicit_dict : edict) (aroma : Z).

(* loop of calc_implicit. arom_ok = (not atom.charge and not atom.is_radical and atom == C) *)
Fixpoint scan_calc (arom_ok : bool) (nv : nview) (sum : Z) (d : edict) (aroma : Z) : scanres :=
  match nv with
  | [] => SDone sum d aroma
  | (o, z) :: r =>
      if o =? 4 then (if arom_ok then scan_calc arom_ok r sum d (aroma + 1) else SReturn)
      else if negb (o =? 8) then
        match z with
        | None => SRaise KeyError
        | Some zn => scan_calc arom_ok r (sum + o) (eincr d (o, zn)) aroma
        end
      else scan_calc arom_ok r sum d aroma
  end.

(* loop of check_implicit: any aromatic bond -> return False *)
Fixpoint scan_check (nv : nview) (sum : Z) (d : edict) : scanres :=
  match nv with
  | [] => SDone sum d 0
  | (o, z) :: r =>
      if o =? 4 then SReturn
      else if negb (o =? 8) then
        match z with
        | None => SRaise KeyError
        | Some zn => scan_check r (sum + o) (eincr d (o, zn))
        end
      else scan_check r sum d
  end.

(* calc_implicit for one atom, given its (atomic number, charge, radical) and the rules lookup vr = atom.valence_rules.
   Result: the value stored into atom._implicit_hydrogens (None = valence error) *)
Definition calc_atom (vr : Z -> pyres (list rule)) (num chg : Z) (rad : bool) (nv : nview) : pyres (option Z) :=
  if num =? 1 then Ok (Some 0)                                       (* hydrogen never has implicit H *)
  else
    match scan_calc ((chg =? 0) && negb rad && (num =? 6)) nv 0 [] 0 with
    | SReturn => Ok None                                             (* use kekule() ... *)
    | SRaise e => Err e
    | SDone sum d aroma =>
        if aroma =? 2 then
          (if sum =? 0 then Ok (Some 1) else if sum =? 1 then Ok (Some 0) else Ok None)
        else if aroma =? 3 then
          (if negb (sum =? 0) then Ok None else Ok (Some 0))
        else if negb (aroma =? 0) then Ok None
        else
          match vr sum with
          | Err ValenceError => Ok None
          | Err e => Err e
          | Ok rules => Ok (first_rule rules d)
          end
    end.

Definition check_atom (vr : Z -> pyres (list rule)) (num : Z) (nv : nview) (h : Z) : pyres bool :=
  if num =? 1 then Ok (h =? 0)
  else
    match scan_check nv 0 [] with
    | SReturn => Ok false
    | SRaise e => Err e
    | SDone sum d _ =>
        match vr sum with
        | Err ValenceError => Ok false
        | Err e => Err e
        | Ok rules => Ok (some_rule rules d h)
        end
    end.

(* environments whose neighbours all exist *)
Definition env := list (Z * Z).
Definition nview_of_env (e : env) : nview := map (fun oz => (fst oz, Some (snd oz))) e.

Definition calc_env (t : pyres rtable) (num chg : Z) (rad : bool) (e : env) : pyres (option Z) :=
  calc_atom (lookup_rules t chg rad) num chg rad (nview_of_env e).
Definition check_env (t : pyres rtable) (num chg : Z) (rad : bool) (e : env) (h : Z) : pyres bool :=
  check_atom (lookup_rules t chg rad) num (nview_of_env e) h.

(* molecule level *)
Definition nview_of (g : mol) (nb : list (Z * bond)) : nview :=
  map (fun mb => (b_ord (snd mb), option_map a_num (atom_of g (fst mb)))) nb.

(* an atom object always is an instance of one of the 118 classes; a Graph atom with another number is outside the
   domain of the model *)
Definition rules_of_atom (a : atom) : pyres rtable :=
  match from_number (a_num a) with Some e => compiled_rules e | None => Err OtherError end.

Definition calc_implicit (g : mol) (n : Z) : pyres (option Z) :=
  match atom_of g n with
  | None => Err KeyError                                             (* self._atoms[n] *)
  | Some a =>
      if a_num a =? 1 then Ok (Some 0)
      else match zget (m_adj g) n with
           | None => Err KeyError                                    (* self._bonds[n] *)
           | Some nb => calc_atom (lookup_rules (rules_of_atom a) (a_chg a) (a_rad a)) (a_num a) (a_chg a) (a_rad a) (nview_of g nb)
           end
  end.

Definition check_implicit (g : mol) (n : Z) (h : Z) : pyres bool :=
  match atom_of g n with
  | None => Err KeyError
  | Some a =>
      if a_num a =? 1 then Ok (h =? 0)
      else match zget (m_adj g) n with
           | None => Err KeyError
           | Some nb => check_atom (lookup_rules (rules_of_atom a) (a_chg a) (a_rad a)) (a_num a) (nview_of g nb) h
           end
  end.

(* ------------------------------------------------------------------------------------------------
   4. fix_structure (hydrogen part) and check_valence
   ------------------------------------------------------------------------------------------------ *)
Definition set_h (g : mol) (n : Z) (h : option Z) : mol :=
  mkMol (map (fun na => if fst na =? n then (fst na, mkAtom (a_num (snd na)) (a_iso (snd na)) (a_chg (snd na)) (a_rad (snd na)) h (a_stereo (snd na)))
                        else na) (m_atoms g))
        (m_adj g).

(* for n in changed: self.calc_implicit(n)   (atom._implicit_hydrogens is overwritten in place, atom after atom) *)
Fixpoint recalc_loop (g : mol) (ns : list Z) : pyres mol :=
  match ns with
  | [] => Ok g
  | n :: r => match calc_implicit g n with
              | Err e => Err e
              | Ok h => recalc_loop (set_h g n h) r
              end
  end.
(* fix_structure() with nothing recorded as changed: every atom *)
Definition fix_hydrogens (g : mol) : pyres mol := recalc_loop g (ids g).

(* [n for n, a in self.atoms() if a.implicit_hydrogens is None] *)
Definition check_valence (g : mol) : list Z :=
  map fst (filter (fun na => match a_h (snd na) with None => true | Some _ => false end) (m_atoms g)).

(* ------------------------------------------------------------------------------------------------
   5. calc_labels: the hydrogen / neighbour labels
   ------------------------------------------------------------------------------------------------ *)
Record labels := mkLabels { l_neighbors : Z; l_heteroatoms : Z; l_hybridization : Z; l_explicit_h : Z }.

Fixpoint labels_loop (nv : nview) (nb het hyb exh : Z) : pyres labels :=
  match nv with
  | [] => Ok (mkLabels nb het hyb exh)
  | (o, z) :: r =>
      if o =? 8 then labels_loop r nb het hyb exh
      else
        let hyb' := if o =? 4 then 4
                    else if negb (hyb =? 4) then
                      (if o =? 3 then 3
                       else if o =? 2 then (if hyb =? 1 then 2 else if hyb =? 2 then 3 else hyb)
                       else hyb)
                    else hyb in
        match z with
        | None => Err KeyError
        | Some zn =>
            if zn =? 1 then labels_loop r (nb + 1) het hyb' (exh + 1)
            else if negb (zn =? 6) then labels_loop r (nb + 1) (het + 1) hyb' exh
            else labels_loop r (nb + 1) het hyb' exh
        end
  end.
Definition calc_labels_atom (g : mol) (n : Z) : pyres labels :=
  match zget (m_adj g) n with
  | None => Err KeyError
  | Some nb => labels_loop (nview_of g nb) 0 0 1 0
  end.

(* Element.total_hydrogens *)
Definition total_hydrogens (g : mol) (n : Z) : pyres Z :=
  match atom_of g n with
  | None => Err KeyError
  | Some a => match a_h a with
              | None => Err ValenceError
              | Some h => match calc_labels_atom g n with Err e => Err e | Ok l => Ok (h + l_explicit_h l) end
              end
  end.

(* ------------------------------------------------------------------------------------------------
   6. totals
   ------------------------------------------------------------------------------------------------ *)
Definition molecular_charge (g : mol) : Z := fold_left Z.add (map (fun na => a_chg (snd na)) (m_atoms g)) 0.
Definition is_radical (g : mol) : bool := existsb (fun na => a_rad (snd na)) (m_atoms g).

(* sum(a.implicit_hydrogens for ...): 0 + None raises TypeError *)
Fixpoint sum_h (l : list (Z * atom)) (acc : Z) : pyres Z :=
  match l with
  | [] => Ok acc
  | (_, a) :: r => match a_h a with None => Err TypeError | Some h => sum_h r (acc + h) end
  end.

(* Counter: c[k] += v *)
Fixpoint sincr (c : list (string * Z)) (k : string) (v : Z) : list (string * Z) :=
  match c with
  | [] => [(k, v)]
  | (k', w) :: r => if String.eqb k k' then (k', w + v) :: r else (k', w) :: sincr r k v
  end.
Fixpoint sget (c : list (string * Z)) (k : string) : option Z :=
  match c with
  | [] => None
  | (k', w) :: r => if String.eqb k k' then Some w else sget r k
  end.

Definition symbol_of (num : Z) : option string := option_map e_sym (from_number num).

Fixpoint symbols_counter (l : list (Z * atom)) (c : list (string * Z)) : pyres (list (string * Z)) :=
  match l with
  | [] => Ok c
  | (_, a) :: r => match symbol_of (a_num a) with
                   | None => Err OtherError                          (* not an Element instance: outside the model *)
                   | Some s => symbols_counter r (sincr c s 1)
                   end
  end.

(* c = Counter(symbols); c['H'] += sum(implicit); dict(c)    -- note that 'H' is always a key of the result *)
Definition brutto (g : mol) : pyres (list (string * Z)) :=
  match symbols_counter (m_atoms g) [] with
  | Err e => Err e
  | Ok c => match sum_h (m_atoms g) 0 with
            | Err e => Err e
            | Ok h => Ok (sincr c "H"%string h)
            end
  end.

(* masses as exact decimals scaled by 10^24 *)
Definition iso_mass_e24 (e : elem) (i : Z) : option Z :=
  option_map (fun m => dec_scale m 12 * 10 ^ 12) (zget (e_mass e) i).
(* Element.atomic_mass *)
Definition atomic_mass_e24 (num : Z) (iso : option Z) : pyres Z :=
  match from_number num with
  | None => Err OtherError
  | Some e => match iso with
              | None => match avg_mass_e24 e with Some m => Ok m | None => Err KeyError end
              | Some i => match iso_mass_e24 e i with Some m => Ok m | None => Err KeyError end
              end
  end.

(* h = H().atomic_mass; sum(a.atomic_mass + a.implicit_hydrogens * h for _, a in self.atoms()) *)
Fixpoint mass_loop (hm : Z) (l : list (Z * atom)) (acc : Z) : pyres Z :=
  match l with
  | [] => Ok acc
  | (_, a) :: r =>
      match atomic_mass_e24 (a_num a) (a_iso a) with
      | Err e => Err e
      | Ok m => match a_h a with
                | None => Err TypeError                              (* None * h *)
                | Some h => mass_loop hm r (acc + (m + h * hm))
                end
      end
  end.
Definition molecular_mass_e24 (g : mol) : pyres Z :=
  match atomic_mass_e24 1 None with
  | Err e => Err e
  | Ok hm => mass_loop hm (m_atoms g) 0
  end.

(* ------------------------------------------------------------------------------------------------
   7. comparison helpers for the correspondence runner
   ------------------------------------------------------------------------------------------------ *)
Definition ekeys_same (a b : list ekey) : bool :=       (* Python set equality against a duplicate-free list *)
  (Nat.eqb (List.length a) (List.length b)) && forallb (fun k => existsb (ekey_eqb k) b) a && forallb (fun k => existsb (ekey_eqb k) a) b.
Definition edict_eqb (a b : edict) : bool := list_eqb (fun x y => ekey_eqb (fst x) (fst y) && (snd x =? snd y)) a b.
Definition rule_eqb (a b : rule) : bool := ekeys_same (r_set a) (r_set b) && edict_eqb (r_dict a) (r_dict b) && (r_h a =? r_h b).
Definition rtable_eqb (a b : rtable) : bool :=
  list_eqb (fun x y => rkey_eqb (fst x) (fst y) && list_eqb rule_eqb (snd x) (snd y)) a b.
Definition compiled_of (sym : string) : pyres rtable :=
  match from_symbol sym with Some e => compiled_rules e | None => Err ValueError end.
Definition labels_eqb (a b : labels) : bool :=
  (l_neighbors a =? l_neighbors b) && (l_heteroatoms a =? l_heteroatoms b) && (l_hybridization a =? l_hybridization b) &&
  (l_explicit_h a =? l_explicit_h b).
Definition brutto_eqb (a b : list (string * Z)) : bool := list_eqb (fun x y => String.eqb (fst x) (fst y) && (snd x =? snd y)) a b.

(* compact observation codes: calc result (0 = None, h + 1, 7 = exception / out of range), bit mask of the hydrogen
   counts 0..5 accepted by check_implicit *)
Definition calc_code (r : pyres (option Z)) : Z :=
  match r with
  | Ok None => 0
  | Ok (Some h) => if (0 <=? h) && (h <=? 5) then h + 1 else 7
  | Err _ => 7
  end.
Definition mask_of (f : Z -> pyres bool) : Z :=
  fold_left (fun acc h => match f h with Ok true => acc + 2 ^ h | Ok false => acc | Err _ => acc + 64 end) [0; 1; 2; 3; 4; 5] 0.
Definition state_code (t : pyres rtable) (num chg : Z) (rad : bool) (e : env) : Z :=
  calc_code (calc_env t num chg rad e) * 64 + mask_of (check_env t num chg rad e).
(* one number per environment: the codes of all (charge, radical) states of one element, base 512 *)
Definition env_digest (t : pyres rtable) (num : Z) (states : list (Z * bool)) (e : env) : Z :=
  fold_left (fun acc cr => acc * 512 + state_code t num (fst cr) (snd cr) e) states 0.
Fixpoint mismatches (i : nat) (a b : list Z) : list (nat * Z) :=
  match a, b with
  | x :: r, y :: s => if x =? y then mismatches (S i) r s else (i, x) :: mismatches (S i) r s
  | [], [] => []
  | _, _ => [(i, -1)]
  end.

(* per-atom observations of a printed molecule: calc_implicit as exception-or-code + check_implicit mask;
   calc_labels (neighbors, heteroatoms, hybridization, explicit_hydrogens) *)
Definition calc_obs (r : pyres (option Z)) : pyres Z := match r with Ok _ => Ok (calc_code r) | Err e => Err e end.
Definition hyd_case (g : mol) (n : Z) (calc : pyres Z) (mask : Z) : bool :=
  pyres_eqb Z.eqb (calc_obs (calc_implicit g n)) calc && (mask_of (check_implicit g n) =? mask).
Definition lab_case (g : mol) (n : Z) (nb het hyb exh : Z) : bool :=
  match calc_labels_atom g n with
  | Ok l => labels_eqb l (mkLabels nb het hyb exh)
  | Err _ => false
  end.
Definition totals_case (g : mol) (b : pyres (list (string * Z))) (chg : Z) (rad : bool) (mass : pyres Z) (cv : list Z) : bool :=
  pyres_eqb brutto_eqb (brutto g) b && (molecular_charge g =? chg) && Bool.eqb (is_radical g) rad &&
  pyres_eqb Z.eqb (molecular_mass_e24 g) mass && list_eqb Z.eqb (check_valence g) cv.
(* fix_structure(): every atom recalculated; compared with the stored hydrogens of the rebuilt molecule *)
Definition recalc_case (g : mol) (hs : list (option Z)) : bool :=
  match fix_hydrogens g with
  | Ok g' => list_eqb (option_eqb Z.eqb) (map (fun na => a_h (snd na)) (m_atoms g')) hs
  | Err _ => false
  end.
(* the stored hydrogen counts of a molecule are valence states of its atoms: a stored count passes check_implicit, a
   stored None means that calc_implicit finds no state (used on real corpus molecules in Kekule form) *)
Definition stored_ok (g : mol) : bool :=
  forallb (fun na => match a_h (snd na) with
                     | Some h => match check_implicit g (fst na) h with Ok true => true | _ => false end
                     | None => match calc_implicit g (fst na) with Ok None => true | _ => false end
                     end) (m_atoms g).
