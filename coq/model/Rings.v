(* C06 -- model of chython/algorithms/rings.py (deterministic pieces) and of the ring part of
   MoleculeContainer.calc_labels, plus the SPECIFICATION side: an executable cycle-basis checker and a
   reference minimum-cycle-basis construction.

   Algorithm-level (mirrors the Python control flow):
     _connected_components, _skin_graph, rings_count, _canonic_ring, _ring_scissors, _ring_adjacency,
     atoms_rings, atoms_rings_sizes, ring marks of calc_labels.
   Specification-level (the SSSR selection _bfs/_make_pid/_c_set/_rings_filter is NOT modelled: it is a heuristic
   with recorded gaps; its outputs are run through [is_cycle_basis] on every check run):
     is_cycle_basis, total_size, mcb_ref.

   Python sets are lists here; whenever the Python value is a set the correspondence compares after sorting, and
   the theorems are stated for every order.  Python's [set.pop()] in _connected_components is an explicit
   input [order] (the priority in which still uncovered atoms are popped). *)
From Coq Require Import ZArith List Bool Lia.
From Model Require Import PyBase Graph.
Import ListNotations.
Open Scope Z_scope.

(* ------------------------------------------------------------------------------------------------ *)
(* graph well-formedness (what MoleculeContainer guarantees for _bonds / not_special_connectivity)    *)

Definition closed_b (g : graph) : bool := forallb (fun e => forallb (fun m => zmem m (keys g)) (snd e)) g.
Definition gwf_b (g : graph) : bool :=
  nodup_z (keys g) &&
  forallb (fun e => nodup_z (snd e) &&
                    forallb (fun m => negb (m =? fst e) && zmem m (keys g) && zmem (fst e) (gnbrs g m)) (snd e)) g.

(* ------------------------------------------------------------------------------------------------ *)
(* _connected_components(bonds)                                                                       *)

(*  for i in bonds[current]:
        if i not in seen: queue.append(i); seen.add(i)                                                *)
Definition visit (qs : list Z * list Z) (i : Z) : list Z * list Z :=
  if zmem i (snd qs) then qs else (fst qs ++ [i], snd qs ++ [i]).

(*  while queue: current = queue.popleft(); ...        fuel: every atom is queued at most once          *)
Fixpoint bfs (fuel : nat) (g : graph) (queue seen : list Z) : list Z :=
  match fuel with
  | O => seen
  | S f =>
      match queue with
      | [] => seen
      | current :: rest =>
          let qs := fold_left visit (gnbrs g current) (rest, seen) in
          bfs f g (fst qs) (snd qs)
      end
  end.

Definition component_of (g : graph) (start : Z) : list Z := bfs (S (length g)) g [start] [start].

(*  while atoms: start = atoms.pop(); ...; components.append(seen); atoms.difference_update(seen)
    [order] = the priority of set.pop(): the first not yet covered atom of [order] is popped.          *)
Fixpoint cc_loop (g : graph) (order covered : list Z) (acc : list (list Z)) : list (list Z) :=
  match order with
  | [] => acc
  | s :: rest =>
      if zmem s covered then cc_loop g rest covered acc
      else let comp := component_of g s in cc_loop g rest (comp ++ covered) (acc ++ [comp])
  end.

Definition components_order (g : graph) (order : list Z) : list (list Z) := cc_loop g order [] [].

(* bonds[current] raises KeyError exactly when some neighbour is not a key (every atom is visited) *)
Definition connected_components_order (g : graph) (order : list Z) : pyres (list (list Z)) :=
  if closed_b g then Ok (components_order g order) else Err KeyError.
Definition connected_components (g : graph) : pyres (list (list Z)) := connected_components_order g (keys g).

(* ------------------------------------------------------------------------------------------------ *)
(* rings_count: sum(len(x) for x in bonds.values()) // 2 - len(bonds) + len(_connected_components(bonds)) *)

Definition degree_sum (g : graph) : Z := fold_right (fun e s => Z.of_nat (length (snd e)) + s) 0 g.
Definition rings_count_order (g : graph) (order : list Z) : Z :=
  degree_sum g / 2 - Z.of_nat (length g) + Z.of_nat (length (components_order g order)).
Definition rings_count (g : graph) : pyres Z :=
  if closed_b g then Ok (rings_count_order g (keys g)) else Err KeyError.

(* ------------------------------------------------------------------------------------------------ *)
(* _skin_graph(bonds)                                                                                  *)

Definition discard (n : Z) (ms : list Z) : list Z := filter (fun x => negb (x =? n)) ms.
Definition is_terminal (e : Z * list Z) : bool := Nat.leb (length (snd e)) 1.
Definition remove_key (n : Z) (g : graph) : graph := filter (fun e => negb (fst e =? n)) g.
(* bonds[m].discard(n) *)
Definition discard_in (n : Z) (g : graph) (m : Z) : graph :=
  map (fun e => if fst e =? m then (fst e, discard n (snd e)) else e) g.

(*  while True:
        n = next(n for n, ms in bonds.items() if len(ms) <= 1)   # first in dict order, else break
        for m in bonds.pop(n): bonds[m].discard(n)                                                     *)
Fixpoint skin_loop (fuel : nat) (g : graph) : pyres graph :=
  match fuel with
  | O => Err OtherError  (* never reached: every round removes one key, fuel = number of keys + 1 *)
  | S f =>
      match find is_terminal g with
      | None => Ok g
      | Some (n, ms) =>
          let g' := remove_key n g in
          if forallb (fun m => zmem m (keys g')) ms
          then skin_loop f (fold_left (discard_in n) ms g')
          else Err KeyError
      end
  end.

(*  bonds = {n: set(ms) for n, ms in bonds.items() if ms}  *)
Definition nonempty_entry (e : Z * list Z) : bool := match snd e with [] => false | _ => true end.
Definition skin_graph (g : graph) : pyres graph := skin_loop (S (length g)) (filter nonempty_entry g).

(* ------------------------------------------------------------------------------------------------ *)
(* tuple slicing helpers (each names the Python slice it stands for)                                    *)

Definition sl_rev_to1 (r : list Z) : list Z := rev (tl r).                         (* ring[:0:-1]   *)
Definition sl_rev (r : list Z) : list Z := rev r.                                  (* ring[::-1]    *)
Definition sl_init (r : list Z) : list Z := removelast r.                          (* ring[:-1]     *)
Definition sl_rev_from (r : list Z) (i : nat) : list Z := rev (firstn (S i) r).    (* ring[i::-1]   *)
Definition sl_rev_after (r : list Z) (i : nat) : list Z := rev (skipn (S i) r).    (* ring[:i:-1]   *)
Definition sl_from (r : list Z) (i : nat) : list Z := skipn i r.                   (* ring[i:]      *)
Definition sl_to (r : list Z) (i : nat) : list Z := firstn i r.                    (* ring[:i]      *)

Fixpoint index_nat (x : Z) (l : list Z) : option nat :=
  match l with
  | [] => None
  | y :: r => if x =? y then Some O else option_map S (index_nat x r)
  end.

Definition list_min (l : list Z) : option Z :=
  match l with [] => None | x :: r => Some (fold_left Z.min r x) end.

(* ring[i] for 0 <= i, and ring[-k] for k >= 1 ; None = IndexError *)
Definition at_pos (r : list Z) (i : nat) : option Z := nth_error r i.
Definition at_neg (r : list Z) (k : nat) : option Z :=
  if Nat.leb k (length r) then nth_error r (length r - k) else None.

(* a < b over possibly failing subscripts, evaluated left to right *)
Definition lt_idx (a b : option Z) : pyres bool :=
  match a, b with Some x, Some y => Ok (x <? y) | _, _ => Err IndexError end.

(* _canonic_ring(ring) *)
Definition canonic_ring (ring : list Z) : pyres (list Z) :=
  match list_min ring with
  | None => Err ValueError                          (* min(()) *)
  | Some n =>
      match index_nat n ring with
      | None => Err ValueError
      | Some ndx =>
          if Nat.eqb ndx 0 then
            match lt_idx (at_neg ring 1) (at_pos ring 1) with      (* ring[-1] < ring[1] *)
            | Err e => Err e
            | Ok true => Ok (n :: sl_rev_to1 ring)
            | Ok false => Ok ring
            end
          else if Nat.eqb ndx (length ring - 1) then
            match lt_idx (at_neg ring 2) (at_pos ring 0) with      (* ring[0] > ring[-2] *)
            | Err e => Err e
            | Ok true => Ok (sl_rev ring)
            | Ok false => Ok (n :: sl_init ring)
            end
          else
            match lt_idx (at_pos ring (ndx - 1)) (at_pos ring (ndx + 1)) with   (* ring[ndx+1] > ring[ndx-1] *)
            | Err e => Err e
            | Ok true => Ok (sl_rev_from ring ndx ++ sl_rev_after ring ndx)
            | Ok false => Ok (sl_from ring ndx ++ sl_to ring ndx)
            end
      end
  end.

(* _ring_scissors(ring, n, m) *)
Definition ring_scissors (ring : list Z) (n m : Z) : pyres (list Z) :=
  match index_nat n ring with
  | None => Err ValueError
  | Some ndx =>
      match index_nat m ring with
      | None => Err ValueError
      | Some mdx =>
          if Nat.eqb ndx 0 then
            if Nat.eqb mdx 1 then Ok (n :: sl_rev_to1 ring) else Ok ring
          else if Nat.eqb ndx (length ring - 1) then
            if Nat.eqb mdx 0 then Ok (sl_rev ring) else Ok (n :: sl_init ring)
          else if Nat.ltb ndx mdx then Ok (sl_rev_from ring ndx ++ sl_rev_after ring ndx)
          else Ok (sl_from ring ndx ++ sl_to ring ndx)
      end
  end.

(* dict helpers: d[k] = v (position kept when the key exists) and d[k].append(x) *)
Fixpoint dset {V} (d : list (Z * V)) (k : Z) (v : V) : list (Z * V) :=
  match d with
  | [] => [(k, v)]
  | (k', w) :: r => if k =? k' then (k', v) :: r else (k', w) :: dset r k v
  end.
Fixpoint dappend {V} (d : list (Z * list V)) (k : Z) (x : V) : option (list (Z * list V)) :=
  match d with
  | [] => None     (* KeyError *)
  | (k', w) :: r => if k =? k' then Some ((k', w ++ [x]) :: r)
                    else option_map (cons (k', w)) (dappend r k x)
  end.

(* _ring_adjacency(ring):
     adj = {ring[0]: [ring[-1]]}
     for n, m in zip(ring, ring[1:]): adj[n].append(m); adj[m] = [n]
     adj[m].append(ring[0])                                                                           *)
Fixpoint ring_adj_loop (pairs : list (Z * Z)) (adj : list (Z * list Z)) : option (list (Z * list Z)) :=
  match pairs with
  | [] => Some adj
  | (n, m) :: rest =>
      match dappend adj n m with
      | None => None
      | Some adj' => ring_adj_loop rest (dset adj' m [n])
      end
  end.
Definition ring_adjacency (ring : list Z) : pyres (list (Z * list Z)) :=
  match ring with
  | [] => Err IndexError
  | [_] => Err OtherError                      (* UnboundLocalError: m is never bound *)
  | r0 :: _ =>
      match ring_adj_loop (combine ring (tl ring)) [(r0, [last ring 0])] with
      | None => Err KeyError
      | Some adj => match dappend adj (last ring 0) r0 with Some a => Ok a | None => Err KeyError end
      end
  end.

(* ------------------------------------------------------------------------------------------------ *)
(* atoms_rings / atoms_rings_sizes / ring part of calc_labels                                          *)

Definition ring := list Z.
Definition ring_eqb (a b : ring) : bool := list_eqb Z.eqb a b.

(* rings = defaultdict(list); for r in sssr: for n in r: rings[n].append(r) *)
Fixpoint dd_append {V} (d : list (Z * list V)) (k : Z) (x : V) : list (Z * list V) :=
  match d with
  | [] => [(k, [x])]
  | (k', w) :: r => if k =? k' then (k', w ++ [x]) :: r else (k', w) :: dd_append r k x
  end.
Definition atoms_rings (sssr : list ring) : list (Z * list ring) :=
  fold_left (fun d r => fold_left (fun d n => dd_append d n r) r d) sssr [].

(* a Python set of ints built from a sequence: first occurrences, in order (compared sorted) *)
Fixpoint set_of_z (l : list Z) : list Z :=
  match l with
  | [] => []
  | x :: r => x :: filter (fun y => negb (y =? x)) (set_of_z r)
  end.
Definition zlen (r : ring) : Z := Z.of_nat (length r).

(* {n: {len(r) for r in rs} for n, rs in self.atoms_rings.items()} *)
Definition atoms_rings_sizes (sssr : list ring) : list (Z * list Z) :=
  map (fun e => (fst e, set_of_z (map zlen (snd e)))) (atoms_rings sssr).

(* atom._in_ring = n in atoms_rings_sizes ; atom._ring_sizes = atoms_rings_sizes.get(n) or set() *)
Definition atom_in_ring (sssr : list ring) (n : Z) : bool := zmem n (keys (atoms_rings_sizes sssr)).
Definition atom_ring_sizes (sssr : list ring) (n : Z) : list Z :=
  match zget (atoms_rings_sizes sssr) n with Some s => s | None => [] end.

(* anr = atoms_rings.get(n) or False
   bond._in_ring = anr and (amr := atoms_rings.get(m) or False) and not anr.isdisjoint(amr)   (sets of ring tuples) *)
Definition bond_in_ring (sssr : list ring) (n m : Z) : bool :=
  match zget (atoms_rings sssr) n with
  | None | Some [] => false
  | Some anr =>
      match zget (atoms_rings sssr) m with
      | None | Some [] => false
      | Some amr => existsb (fun r => existsb (ring_eqb r) amr) anr
      end
  end.

(* for m, bond in m_bond.items():
       if bond == 8: bond._in_ring = False; continue        # ring perception ignores special bonds
       bond._in_ring = anr and ... and not anr.isdisjoint(amr)                                          *)
Definition bond_label (sssr : list ring) (n : Z) (mb : Z * bond) : bool :=
  if b_ord (snd mb) =? 8 then false else bond_in_ring sssr n (fst mb).

(* the marks calc_labels writes, in its iteration order: per atom (n, in_ring, ring_sizes) and per directed
   bond (n, m, in_ring) *)
Definition ring_labels (g : mol) (sssr : list ring) : list (Z * bool * list Z) * list (Z * Z * bool) :=
  (map (fun nl => (fst nl, atom_in_ring sssr (fst nl), atom_ring_sizes sssr (fst nl))) (m_adj g),
   flat_map (fun nl => map (fun mb => (fst nl, fst mb, bond_label sssr (fst nl) mb)) (snd nl)) (m_adj g)).

(* MoleculeContainer.aromatic_rings:
     bonds = self._bonds
     tuple(ring for ring in self.sssr if bonds[ring[0]][ring[-1]] == 4
           and all(bonds[n][m] == 4 for n, m in zip(ring, ring[1:])))            (evaluated left to right, short-circuit) *)
Definition bond_ord (g : mol) (n m : Z) : pyres Z :=
  match zget (m_adj g) n with
  | None => Err KeyError
  | Some l => match zget l m with None => Err KeyError | Some b => Ok (b_ord b) end
  end.
Fixpoint all4 (g : mol) (ps : list (Z * Z)) : pyres bool :=
  match ps with
  | [] => Ok true
  | (n, m) :: rest =>
      match bond_ord g n m with
      | Err e => Err e
      | Ok o => if o =? 4 then all4 g rest else Ok false
      end
  end.
Definition ring_aromatic (g : mol) (r : ring) : pyres bool :=
  match r with
  | [] => Err IndexError
  | r0 :: _ =>
      match bond_ord g r0 (last r 0) with
      | Err e => Err e
      | Ok o => if o =? 4 then all4 g (combine r (tl r)) else Ok false
      end
  end.
Fixpoint aromatic_rings (g : mol) (sssr : list ring) : pyres (list ring) :=
  match sssr with
  | [] => Ok []
  | r :: rest =>
      match ring_aromatic g r with
      | Err e => Err e
      | Ok keep =>
          match aromatic_rings g rest with
          | Err e => Err e
          | Ok l => Ok (if keep then r :: l else l)
          end
      end
  end.

(* ------------------------------------------------------------------------------------------------ *)
(* SPECIFICATION: cycles, edge vectors over GF(2), the cycle-basis checker                             *)

Definition has_edge (g : graph) (a b : Z) : bool := zmem b (gnbrs g a) && zmem a (gnbrs g b).

(* consecutive pairs of a ring, closing pair included: [(r0,r1); (r1,r2); ...; (rk,r0)] *)
Fixpoint seq_pairs (l : list Z) : list (Z * Z) :=
  match l with
  | a :: ((b :: _) as t) => (a, b) :: seq_pairs t
  | _ => []
  end.
Definition ring_pairs (r : ring) : list (Z * Z) :=
  match r with [] => [] | h :: _ => seq_pairs (r ++ [h]) end.

Definition simple_cycle_b (g : graph) (r : ring) : bool :=
  Nat.leb 3 (length r) && nodup_z r && forallb (fun p => has_edge g (fst p) (snd p)) (ring_pairs r).

(* undirected edges of g, each once, as (n, m) with n < m *)
Definition edges (g : graph) : list (Z * Z) :=
  flat_map (fun e => map (fun m => (fst e, m)) (filter (fun m => fst e <? m) (snd e))) g.

Definition norm_edge (p : Z * Z) : Z * Z := if fst p <? snd p then p else (snd p, fst p).
Definition edge_eqb (p q : Z * Z) : bool := (fst p =? fst q) && (snd p =? snd q).
Definition ring_has_edge (r : ring) (e : Z * Z) : bool := existsb (fun p => edge_eqb (norm_edge p) e) (ring_pairs r).

(* GF(2) vectors *)
Definition vec := list bool.
Definition bit (v : vec) (i : nat) : bool := nth i v false.
Fixpoint vxor (a b : vec) : vec :=
  match a, b with
  | [], _ => b
  | _, [] => a
  | x :: a', y :: b' => xorb x y :: vxor a' b'
  end.
Fixpoint first_set (v : vec) : option nat :=
  match v with
  | [] => None
  | true :: _ => Some O
  | false :: r => option_map S (first_set r)
  end.

Definition ring_vec (g : graph) (r : ring) : vec := map (ring_has_edge r) (edges g).

(* reduce v by the rows of an echelon basis (pivot, row), in insertion order *)
Definition reduce (B : list (nat * vec)) (v : vec) : vec :=
  fold_left (fun v pb => if bit v (fst pb) then vxor v (snd pb) else v) B v.

(* Gaussian elimination, one vector at a time: false as soon as a vector reduces to zero *)
Fixpoint elim (B : list (nat * vec)) (vs : list vec) : bool :=
  match vs with
  | [] => true
  | v :: rest =>
      let v' := reduce B v in
      match first_set v' with
      | None => false
      | Some p => elim (B ++ [(p, v')]) rest
      end
  end.
Definition independent_b (vs : list vec) : bool := elim [] vs.

Definition cyclomatic (g : graph) : Z :=
  Z.of_nat (length (edges g)) - Z.of_nat (length g) + Z.of_nat (length (components_order g (keys g))).

Definition is_cycle_basis (g : graph) (rs : list ring) : bool :=
  gwf_b g && forallb (simple_cycle_b g) rs && (Z.of_nat (length rs) =? cyclomatic g) &&
  independent_b (map (ring_vec g) rs).

Definition total_size (rs : list ring) : Z := fold_right (fun r s => zlen r + s) 0 rs.

(* ------------------------------------------------------------------------------------------------ *)
(* reference minimum cycle basis: Horton candidates (shortest-path tree from every vertex + one non-tree
   edge) plus one family of fundamental cycles (so that the candidates provably span), sorted by length, greedy GF(2)
   elimination.  Executable; proved to be a cycle basis of every well-formed graph; its total size is the oracle for
   the minimality clause (proved minimum among independent families of candidates; Horton's theorem is not proved). *)

(* BFS tree as a parent map: list of (vertex, path from the root to the vertex) in discovery order *)
Definition tvisit (cur_path : list Z) (qs : list (Z * list Z) * list (Z * list Z)) (i : Z) :=
  if zmem i (keys (snd qs)) then qs
  else (fst qs ++ [(i, cur_path ++ [i])], snd qs ++ [(i, cur_path ++ [i])]).
Fixpoint bfs_tree (fuel : nat) (g : graph) (queue seen : list (Z * list Z)) : list (Z * list Z) :=
  match fuel with
  | O => seen
  | S f =>
      match queue with
      | [] => seen
      | (cur, path) :: rest =>
          let qs := fold_left (tvisit path) (gnbrs g cur) (rest, seen) in
          bfs_tree f g (fst qs) (snd qs)
      end
  end.
Definition sp_tree (g : graph) (v : Z) : list (Z * list Z) := bfs_tree (S (length g)) g [(v, [v])] [(v, [v])].

Definition disjoint_z (a b : list Z) : bool := forallb (fun x => negb (zmem x b)) a.

(* candidates from root v: for every edge (x, y) whose tree paths P(v,x), P(v,y) share only v:
   the cycle P(v,x) ++ rev (P(v,y) without v) *)
Definition horton_from (g : graph) (v : Z) : list ring :=
  let t := sp_tree g v in
  flat_map (fun xy =>
     match zget t (fst xy), zget t (snd xy) with
     | Some px, Some py =>
         if disjoint_z (tl px) (tl py) && Nat.leb 3 (length px + length (tl py))
         then [px ++ rev (tl py)] else []
     | _, _ => []
     end) (edges g).
Definition horton_candidates (g : graph) : list ring := flat_map (horton_from g) (keys g).

(* stable insertion sort by length *)
Fixpoint insert_by_len (r : ring) (l : list ring) : list ring :=
  match l with
  | [] => [r]
  | x :: t => if Nat.leb (length r) (length x) then r :: l else x :: insert_by_len r t
  end.
Definition sort_by_len (l : list ring) : list ring := fold_right insert_by_len [] l.

Fixpoint greedy (g : graph) (B : list (nat * vec)) (cands : list ring) (need : nat) : list ring :=
  match need with
  | O => []
  | S k =>
      match cands with
      | [] => []
      | c :: rest =>
          let v' := reduce B (ring_vec g c) in
          match first_set v' with
          | None => greedy g B rest need
          | Some p => c :: greedy g (B ++ [(p, v')]) rest k
          end
      end
  end.
(* fundamental cycles by bond deletion: delete the first bond (a, b); if b is still reachable from a, the breadth-first path
   a ... b of the remaining graph closed by the deleted bond is a cycle; continue with the remaining graph.  These
   bonds - atoms + components cycles are linearly independent, so that the candidate list always spans the cycle space *)
Definition del_edge (g : graph) (a b : Z) : graph := discard_in a (discard_in b g a) b.
Fixpoint fund_loop (fuel : nat) (g : graph) : list ring :=
  match fuel with
  | O => []
  | S f =>
      match edges g with
      | [] => []
      | (a, b) :: _ =>
          let g' := del_edge g a b in
          match zget (sp_tree g' a) b with
          | Some p => p :: fund_loop f g'
          | None => fund_loop f g'
          end
      end
  end.
Definition fund_cycles (g : graph) : list ring := fund_loop (length (edges g)) g.
Definition mcb_candidates (g : graph) : list ring := horton_candidates g ++ fund_cycles g.

Definition mcb_ref (g : graph) : list ring :=
  greedy g [] (sort_by_len (mcb_candidates g)) (Z.to_nat (cyclomatic g)).

(* ------------------------------------------------------------------------------------------------ *)
(* comparison helpers for the correspondence (sets are compared sorted)                                *)

Fixpoint insert_z (x : Z) (l : list Z) : list Z :=
  match l with [] => [x] | y :: t => if x <=? y then x :: l else y :: insert_z x t end.
Definition sort_z (l : list Z) : list Z := fold_right insert_z [] l.
Fixpoint lex_leb (a b : list Z) : bool :=
  match a, b with
  | [], _ => true
  | _ :: _, [] => false
  | x :: a', y :: b' => if x <? y then true else if y <? x then false else lex_leb a' b'
  end.
Fixpoint insert_l (x : list Z) (l : list (list Z)) : list (list Z) :=
  match l with [] => [x] | y :: t => if lex_leb x y then x :: l else y :: insert_l x t end.
Definition sort_ll (l : list (list Z)) : list (list Z) := fold_right insert_l [] l.
Definition ll_eqb (a b : list (list Z)) : bool := list_eqb (list_eqb Z.eqb) a b.
(* set of sets *)
Definition setset_eqb (a b : list (list Z)) : bool := ll_eqb (sort_ll (map sort_z a)) (sort_ll (map sort_z b)).
(* dict int -> set of ints, as a set of (key, sorted values) *)
Definition graph_norm (g : graph) : list (list Z) := sort_ll (map (fun e => fst e :: sort_z (snd e)) g).
Definition graph_eqb (a b : graph) : bool := ll_eqb (graph_norm a) (graph_norm b).
(* dict int -> list of ints with order *)
Definition odict_eqb (a b : list (Z * list Z)) : bool :=
  list_eqb (pair_eqb Z.eqb (list_eqb Z.eqb)) a b.

(* ------------------------------------------------------------------------------------------------ *)
(* one-line correspondence cases (harness/checks/C06.py): compact molecule literal + one helper per compared piece *)

(* carbon-like atom record: the ring models read only the adjacency *)
Definition mkm (ats : list (Z * Z)) (adj : list (Z * list (Z * Z))) : mol :=
  mkMol (map (fun e => (fst e, mkAtom (snd e) None 0 false None None)) ats)
        (map (fun e => (fst e, map (fun mb => (fst mb, mkBond (snd mb) None)) (snd e))) adj).
Definition sorted_vals (s : graph) : graph := map (fun e => (fst e, sort_z (snd e))) s.
Definition c_nsc (m : mol) (e : graph) : bool := graph_eqb (graph_of_not_special m) e.
Definition c_cc (g : graph) (e : pyres (list (list Z))) : bool := pyres_eqb setset_eqb (connected_components g) e.
Definition c_rc (g : graph) (e : pyres Z) : bool := pyres_eqb Z.eqb (rings_count g) e.
Definition c_skin (g : graph) (e : pyres graph) : bool :=
  pyres_eqb odict_eqb (match skin_graph g with Ok s => Ok (sorted_vals s) | Err x => Err x end) e.
(* atoms_rings: expected value given as {atom: [positions in sssr of its rings]} *)
Definition c_ar (rs : list ring) (e : list (Z * list nat)) : bool :=
  list_eqb (pair_eqb Z.eqb ll_eqb) (atoms_rings rs) (map (fun x => (fst x, map (fun k => nth k rs []) (snd x))) e).
Definition c_ar_full (rs : list ring) (e : list (Z * list ring)) : bool :=
  list_eqb (pair_eqb Z.eqb ll_eqb) (atoms_rings rs) e.
Definition c_ars (rs : list ring) (e : graph) : bool := odict_eqb (sorted_vals (atoms_rings_sizes rs)) e.
(* calc_labels: atoms in _bonds order as (number, in_ring, sorted ring_sizes) (abbreviated: (in_ring, sizes) when the
   atom numbers are those of the molecule literal), directed bonds in _bonds order as their in_ring flags *)
Definition c_lab (m : mol) (rs : list ring) (ea : list (Z * (bool * list Z))) (eb : list bool) : bool :=
  let rl := ring_labels m rs in
  list_eqb (pair_eqb Z.eqb (pair_eqb Bool.eqb (list_eqb Z.eqb)))
           (map (fun x => (fst (fst x), (snd (fst x), sort_z (snd x)))) (fst rl)) ea &&
  list_eqb Bool.eqb (map snd (snd rl)) eb.
Definition c_arom (m : mol) (rs : list ring) (e : pyres (list nat)) : bool :=
  pyres_eqb ll_eqb (aromatic_rings m rs) (match e with Ok l => Ok (map (fun k => nth k rs []) l) | Err x => Err x end).
Definition c_ref (g : graph) (rs : list ring) : bool :=
  is_cycle_basis g (mcb_ref g) && (total_size rs =? total_size (mcb_ref g)).
Definition c_canon (r : list Z) (e : pyres (list Z)) : bool := pyres_eqb (list_eqb Z.eqb) (canonic_ring r) e.
Definition c_sciss (r : list Z) (n m : Z) (e : pyres (list Z)) : bool := pyres_eqb (list_eqb Z.eqb) (ring_scissors r n m) e.
Definition c_radj (r : list Z) (e : pyres (list (Z * list Z))) : bool := pyres_eqb odict_eqb (ring_adjacency r) e.
