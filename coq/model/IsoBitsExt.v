(* C09 extension -- (a) the wrapper shared by both matcher paths (Isomorphism._get_mapping of chython/algorithms/isomorphism.py:
   components x connected components of the target, searching scope, lazy_product, automorphism filter) around an ARBITRARY
   component matcher, the two public calls QueryIsomorphism.get_mapping(other, _cython=True/False) built from it;
   (b) the stack occupancy of the explicit-stack loop (how many cells of stack_index / stack_depth the .pyx needs).
   lazy_product, permutations, merge, auto_filter and restrict are those of Model.Iso (C07), used read-only.  Definitions only. *)
From Coq Require Import ZArith List Bool Lia.
From Model Require Import PyBase PeriodicTable IsoBits.
From Model Require Iso.
Import ListNotations.
Open Scope Z_scope.

(* ------------------------------------------------------------------------------------------------------------ *)
(* 1. Isomorphism._get_mapping(other, automorphism_filter, searching_scope, components, get_mapping)              *)

Section Wrapper.
  Variable C : Type.                                        (* a compiled query component (reference tuples or a byte buffer) *)
  Variable gm : C -> list Z -> list Iso.mapping.            (* get_mapping(component, scope=candidate) *)

  (*  for component, candidate in zip(components, candidates):
          if searching_scope is not None: candidate = searching_scope.intersection(candidate); if not candidate: break
          mappers.append(get_mapping(component, scope=candidate))                                                  *)
  Fixpoint w_build_mappers (scope : option (list Z)) (comps : list C) (cands : list (list Z)) : option (list (list Iso.mapping)) :=
    match comps, cands with
    | c :: cr, cand :: dr =>
        match Iso.restrict scope cand with
        | None => None
        | Some s => match w_build_mappers scope cr dr with
                    | None => None
                    | Some ms => Some (gm c s :: ms)
                    end
        end
    | _, _ => Some []
    end.

  (* tcomps = other.connected_components in the order the implementation produced them (an input) *)
  Definition w_stream (comps : list C) (tcomps : list (list Z)) (scope : option (list Z)) : list Iso.mapping :=
    match comps with
    | [c] => flat_map (fun cand => match Iso.restrict scope cand with
                                   | None => []
                                   | Some s => gm c s
                                   end) tcomps
    | _ => flat_map (fun cands => match w_build_mappers scope comps cands with
                                  | None => []
                                  | Some mappers => map Iso.merge (Iso.lazy_product mappers)
                                  end) (Iso.permutations (List.length comps) tcomps)
    end.

  Definition w_get_mapping (comps : list C) (tcomps : list (list Z)) (flt : bool) (scope : option (list Z)) : list Iso.mapping :=
    Iso.auto_filter flt [] (w_stream comps tcomps scope).
End Wrapper.

(* ------------------------------------------------------------------------------------------------------------ *)
(* 2. the public call  query.get_mapping(other, automorphism_filter=flt, searching_scope=scope, _cython=cython)   *)

(* `array('I', [n in scope for n in other])` on the accelerated path, `n in scope` on the reference path *)
Definition scope_bits (rm : list ratom) (s : list Z) : list bool := map (fun a => zmem (ra_num a) s) rm.

(* one component / candidate call; an exhausted fuel (never seen with the fuel the runner passes) yields nothing *)
Definition component_list (cython : bool) (rm : list ratom) (fuel : nat) (rq : list rqent) (s : list Z) : list Iso.mapping :=
  match component_mappings cython rq rm (scope_bits rm s) fuel with Some l => l | None => [] end.

(* the guard (inside component_mappings: it depends on the molecule only, like `_cython = False` for the whole call), the
   wrapper, then the stereo post-filter of QueryIsomorphism.get_mapping, which is the same code on both paths and enters
   as an arbitrary predicate on the yielded mapping *)
Definition public_get_mapping (stereo_ok : Iso.mapping -> bool) (cython : bool) (comps : list (list rqent)) (rm : list ratom)
           (tcomps : list (list Z)) (flt : bool) (scope : option (list Z)) (fuel : nat) : list Iso.mapping :=
  filter stereo_ok (w_get_mapping (list rqent) (component_list cython rm fuel) comps tcomps flt scope).

Definition public_hyps_ok (comps : list (list rqent)) (rm : list ratom) : bool :=
  forallb (fun rq => gm_hyps_ok rq rm) comps.

(* ------------------------------------------------------------------------------------------------------------ *)
(* 3. stack occupancy: the same loop as IsoBits.dfs, returning the largest number of entries the stack ever held.
      The .pyx stores entry k in stack_index[k] / stack_depth[k]; both arrays have atoms_count * query atoms cells.         *)

Section Occupancy.
  Variable E : Type.
  Variable idx : E -> Z.
  Variable nbrs : Z -> list E.
  Variable last : nat.
  Variable back : nat -> Z.
  Variable cand_ok : nat -> list Z -> Z -> E -> bool.

  Fixpoint dfs_occ (fuel : nat) (stack : list (Z * nat)) (path : list Z) (hi : nat) : nat :=
    match fuel with
    | O => hi
    | S f =>
        match stack with
        | [] => hi
        | (n, depth) :: st =>
            if Nat.eqb depth last then dfs_occ f st path hi
            else
              let path' := firstn depth path ++ [n] in
              let front := S depth in
              let base := if negb (back front =? Z.of_nat depth) then znth path' (back front) 0 else n in
              let cands := filter (cand_ok front path' base) (nbrs base) in
              let st' := rev (map (fun e => (idx e, front)) cands) ++ st in
              dfs_occ f st' path' (Nat.max hi (List.length st'))
        end
    end.
End Occupancy.

Definition mask_occupancy (qu : query_t) (mo : molecule_t) (scope : list bool) (fuel : nat) : nat :=
  let st0 := init_stack (zlen (mo_atoms mo)) (mask_first qu mo scope) in
  dfs_occ bond_t bt_index (m_bonds_of mo) (Nat.pred (List.length (qu_atoms qu)))
          (fun d => qa_back (q_atom qu (Z.of_nat d))) (mask_cand qu mo scope) fuel st0 [] (List.length st0).

(* largest neighbour list of the compiled molecule *)
Definition max_degree (mo : molecule_t) : nat :=
  fold_right Nat.max O (map (fun a => Z.to_nat (ma_to a - ma_from a)) (mo_atoms mo)).

(* neighbour dicts with distinct keys inside the molecule (part of wf_mol; all the allocation bound needs) *)
Definition adj_ok (rm : list ratom) : Prop :=
  Forall (fun a => NoDup (map fst (ra_nbrs a)) /\ Forall (fun e => 0 <= fst e < zlen rm) (ra_nbrs a)) rm.

(* what the .pyx allocates since 25e27ca:  PyMem_Malloc(molecule.atoms_count * query.atoms_count * sizeof(unsigned int)) *)
Definition alloc_pyx (qu : query_t) (mo : molecule_t) : nat := (List.length (mo_atoms mo) * List.length (qu_atoms qu))%nat.
(* history: the allocation before the fix, the repair suggested first, and the tight bound *)
Definition alloc_2n (mo : molecule_t) : nat := (2 * List.length (mo_atoms mo))%nat.
Definition alloc_atoms_plus_bonds (mo : molecule_t) : nat := (List.length (mo_atoms mo) + List.length (mo_bonds mo))%nat.
Definition alloc_tight (qu : query_t) (mo : molecule_t) : nat :=
  (List.length (mo_atoms mo) + Nat.pred (List.length (qu_atoms qu)) * max_degree mo)%nat.
