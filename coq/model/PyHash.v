(* Bit-exact model of CPython 3.12 hash() on a 64-bit build for ints, bools and (nested) tuples of those.
   Sources modelled: Objects/longobject.c:long_hash (value reduced modulo the Mersenne prime 2^61-1, sign kept,
   -1 replaced by -2), Objects/boolobject.c (bool is an int subclass: hash(True)=1, hash(False)=0) and
   Objects/tupleobject.c:tuplehash (the xxHash-derived accumulator).  All machine arithmetic is written with
   explicit `mod 2^64`; the Py_uhash_t result is finally read as a signed 64-bit number.
   No randomisation is involved for these types (PYTHONHASHSEED only affects str/bytes).
   The model has its own exact correspondence against the running interpreter (harness/checks/C17.py). *)
From Coq Require Import ZArith List Bool.
Import ListNotations.
Open Scope Z_scope.

Definition M64 : Z := 18446744073709551616.          (* 2^64 *)
Definition M63 : Z := 9223372036854775808.           (* 2^63 *)
Definition P61 : Z := 2305843009213693951.           (* _PyHASH_MODULUS = 2^61 - 1 *)
Definition XXPRIME_1 : Z := 11400714785074694791.
Definition XXPRIME_2 : Z := 14029467366897019727.
Definition XXPRIME_5 : Z := 2870177450012600261.

(* hash(int): |v| mod (2^61-1) with the sign of v; the error value -1 is replaced by -2 *)
Definition hash_int (z : Z) : Z :=
  let r := if z <? 0 then - ((- z) mod P61) else z mod P61 in
  if r =? -1 then -2 else r.

Definition hash_bool (b : bool) : Z := if b then 1 else 0.

(* Py_hash_t -> Py_uhash_t and back *)
Definition to_u64 (h : Z) : Z := h mod M64.
Definition to_s64 (u : Z) : Z := if u <? M63 then u else u - M64.

(* _PyHASH_XXROTATE: rotate left by 31 bits *)
Definition rotl31 (x : Z) : Z := Z.lor ((Z.shiftl x 31) mod M64) (Z.shiftr x 33).

(* one round of the loop of tuplehash; lane is the (signed) hash of the item *)
Definition tuple_round (acc lane : Z) : Z :=
  let acc1 := (acc + to_u64 lane * XXPRIME_2) mod M64 in
  let acc2 := rotl31 acc1 in
  (acc2 * XXPRIME_1) mod M64.

(* tuplehash given the hashes of the items (an item hash is never -1, so the error exit is unreachable) *)
Definition tuple_hash_lanes (lanes : list Z) : Z :=
  let acc := fold_left tuple_round lanes XXPRIME_5 in
  let acc' := (acc + Z.lxor (Z.of_nat (length lanes)) (Z.lxor XXPRIME_5 3527539)) mod M64 in
  if acc' =? M64 - 1 then 1546275796 else to_s64 acc'.

(* hash of a tuple of ints: what the fingerprint code computes *)
Definition hash_ztuple (l : list Z) : Z := tuple_hash_lanes (map hash_int l).

(* general values *)
Inductive pyval := PInt (z : Z) | PBool (b : bool) | PTuple (l : list pyval).

Fixpoint py_hash (v : pyval) : Z :=
  match v with
  | PInt z => hash_int z
  | PBool b => hash_bool b
  | PTuple l => tuple_hash_lanes (map py_hash l)
  end.
