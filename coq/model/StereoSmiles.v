(* Model of the SMILES stereo marks (C12 extension):
   writer  chython/algorithms/smiles.py  MoleculeSmiles._format_atom (tetrahedral and allene branch), the per-double-bond
           rule of MoleculeSmiles.__ct_map;
   reader  chython/files/daylight/smiles.py  postprocess_molecule (first-atom inversion as of 2fd6cc9, allene reference =
           first written substituent incl. explicit H as of e4fb73d, cis/trans marks with popitem) followed by
           MoleculeStereo.add_atom_stereo / add_cis_trans_stereo.
   Tokenizer conventions: '@' = true, '@@' = false; '/' = true, '\' = false; a direction mark is stored per (terminal, neighbour)
   as "bond written from the terminal to the neighbour" (parser: stereo_bonds[a][b] = v, stereo_bonds[b][a] = not v). *)
From Coq Require Import ZArith List Bool.
From Model Require Import PyBase Stereo.
Import ListNotations.
Open Scope Z_scope.

Definition env4s := (Z * Z * option Z * option Z)%type.

(* ---- tetrahedral ---- *)
(* _format_atom: adj = adjacency[n] (preceding atom, ring-closure partners in digit order, branches), first = n is the first key
   of `adjacency` (start atom of the component), hasH = atom.implicit_hydrogens is truthy.  Result: true = '@'. *)
Definition write_th (isH : Z -> bool) (order adj : list Z) (s hasH first : bool) : pyres bool :=
  match translate_th isH order adj s with
  | Ok t => Ok (if hasH && first then negb t else t)
  | Err e => Err e
  end.

(* postprocess_molecule + add_atom_stereo: adj = order[n] (neighbours in the order written), nopred = all(m > i for m in order[i]) *)
Definition read_th (isH : Z -> bool) (order adj : list Z) (mark hasH nopred : bool) : pyres bool :=
  translate_th isH order adj (if hasH && nopred then negb mark else mark).

(* all(m > i for m in data['order'][i]) over positions in the string *)
Definition nopred (pos : Z -> Z) (n : Z) (adj : list Z) : bool := forallb (fun m => pos n <? pos m) adj.

(* ---- allenes ---- *)
Definition in_env (x : Z) (e : env4s) : bool :=
  let '(n0, n1, n2, n3) := e in
  (x =? n0) || (x =? n1) || match n2 with Some y => x =? y | None => false end || match n3 with Some y => x =? y | None => false end.
(* next(x for x in l if x in env or atoms[x].atomic_number == 1) *)
Definition first_ref (isH : Z -> bool) (e : env4s) (l : list Z) : option Z := find (fun x => in_env x e || isH x) l.

Definition write_al (isH : Z -> bool) (e : env4s) (adj1 adj2 : list Z) (s : bool) : pyres bool :=
  match first_ref isH e adj1, first_ref isH e adj2 with
  | Some a, Some b => translate_al isH e a b s
  | _, _ => Err StopIteration
  end.
Definition read_al (isH : Z -> bool) (e : env4s) (adj1 adj2 : list Z) (mark hasH np : bool) : pyres bool :=
  match first_ref isH e adj1, first_ref isH e adj2 with
  | Some a, Some b => translate_al isH e a b (if hasH && np then negb mark else mark)
  | _, _ => Err StopIteration
  end.

(* ---- cis/trans: one double-bond unit with registry entry e under the key (first end, last end) ---- *)
(* _translate_cis_trans_sign(x, y, nx, ny, s) where fwd = "(x, y) is the registry key" (otherwise (y, x) is) *)
Definition tr_ct (isH : Z -> bool) (e : env4s) (fwd : bool) (nx ny : Z) (s : bool) : pyres bool :=
  if fwd then translate_env isH e nx ny s else translate_env isH e ny nx s.

(* __ct_map at the second visited terminal k (first visited terminal o with marked neighbour on, mark (o -> on) = base):
     s = ct_map[(o, on)]; if not translate(k, o, v, on): s = not s; ct_map[(k, v)] = s
   returns the marks of (o -> on) and (k -> v) *)
Definition write_ct (isH : Z -> bool) (e : env4s) (k_first_end : bool) (v on : Z) (base s : bool) : pyres (bool * bool) :=
  match tr_ct isH e k_first_end v on s with
  | Ok t => Ok (base, if t then base else negb base)
  | Err x => Err x
  end.
(* a second substituent x' of a terminal gets the opposite mark: ct_map[(k, x')] = not ct_map[(k, x)] *)

(* postprocess_molecule: n2, s2 = stereo_bonds[m].popitem(); n1, s1 = ns.popitem(); add_cis_trans_stereo(n, m, n1, n2, s1 == s2) *)
Definition read_ct (isH : Z -> bool) (e : env4s) (n_first_end : bool) (n1 n2 : Z) (s1 s2 : bool) : pyres bool :=
  tr_ct isH e n_first_end n1 n2 (Bool.eqb s1 s2).
