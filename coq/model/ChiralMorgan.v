(* Model of chython/algorithms/stereo.py: MoleculeStereo._chiral_morgan and MoleculeStereo.__differentiation (C01): the
   stereo-aware refinement of the Morgan classes, whose result is the weight function of the canonical SMILES writer.

   Algorithm-level: the two `while True` loops run on fuel, dicts are association lists in insertion order, the three Python
   sets (atoms_stereo, cis_trans_stereo, allenes_stereo) are lists in ITERATION ORDER.  CPython's iteration order of a set
   of ints is not modelled: the order in which the three sets are first built is an INPUT of the model ([cmorders]); a
   `discard` keeps the relative order of the remaining members (no resize happens on deletion), so the model filters.
   The order only matters for (i) `group[0]`, whose environment decides whether a whole group is "truly stereogenic", and
   (ii) the "flip half of an indistinguishable group" heuristic `group[:len(group) // 2]`.

   Inputs that are cached properties of the molecule (registries, as in Model.Writer): self.tetrahedrons,
   stereogenic_tetrahedrons, stereogenic_allenes, stereogenic_cis_trans, _stereo_cis_trans_centers.  The sign translation
   functions are Model.Stereo (C12), `_morgan` is Model.Morgan with the hash as a parameter.

   Besides the result the model returns the TRACE: the label dicts passed to `_morgan`, call by call (observable on the
   real code by wrapping the module-level name `_morgan` of chython.algorithms.stereo). *)
From Coq Require Import ZArith List Bool.
From Model Require Import PyBase PyHash Graph Morgan Stereo.
Import ListNotations.
Open Scope Z_scope.

Definition cenv4 := (Z * Z * option Z * option Z)%type.
Record cmtabs := mkCm {
  c_tetrahedrons : list Z;                    (* self.tetrahedrons *)
  c_tetra : list (Z * list Z);                (* stereogenic_tetrahedrons *)
  c_allenes : list (Z * cenv4);               (* stereogenic_allenes *)
  c_sct : list ((Z * Z) * cenv4);             (* stereogenic_cis_trans *)
  c_ctc : list (Z * (Z * Z))                  (* _stereo_cis_trans_centers *)
}.
Record cmorders := mkCmo {
  o_atoms : list Z;                           (* list(stereo_atoms.intersection(self.tetrahedrons)) *)
  o_ct : list (Z * Z);                        (* list({cis_trans_terminals[n] for n in stereo_bonds}) *)
  o_al : list Z                               (* list(stereo_atoms - atoms_stereo) *)
}.

Definition cpair_eqb (p q : Z * Z) : bool := (fst p =? fst q) && (snd p =? snd q).
Fixpoint cpget {V : Type} (d : list ((Z * Z) * V)) (k : Z * Z) : option V :=
  match d with
  | [] => None
  | (k', v) :: r => if cpair_eqb k k' then Some v else cpget r k
  end.

(* grouped_stereo = defaultdict(list); grouped_stereo[key].append(x): groups in order of first appearance *)
Fixpoint group_add {A : Type} (k : Z) (x : A) (gs : list (Z * list A)) : list (Z * list A) :=
  match gs with
  | [] => [(k, [x])]
  | (k', l) :: r => if k =? k' then (k', l ++ [x]) :: r else (k', l) :: group_add k x r
  end.
Definition group_by {A : Type} (key : A -> Z) (l : list A) : list (list A) :=
  map snd (fold_left (fun gs x => group_add (key x) x gs) l []).

Definition even_len {A : Type} (l : list A) : bool := Nat.even (List.length l).
(* 0 < len(s) < len(group) *)
Definition proper_part {A B : Type} (s : list A) (group : list B) : bool :=
  (Nat.ltb 0 (List.length s)) && (Nat.ltb (List.length s) (List.length group)).
Definition half {A : Type} (l : list A) : list A := firstn (Nat.div2 (List.length l)) l.

(* morgan_update[k] = v *)
Fixpoint upd_set (d : list (Z * Z)) (k v : Z) : list (Z * Z) :=
  match d with
  | [] => [(k, v)]
  | (k', v') :: r => if k =? k' then (k', v) :: r else (k', v') :: upd_set r k v
  end.
(* {**morgan, **update} *)
Definition merge_update (morgan update : labels) : labels :=
  map (fun kv => (fst kv, match zget update (fst kv) with Some v => v | None => snd kv end)) morgan
  ++ filter (fun kv => negb (zmem (fst kv) (keys morgan))) update.
(* morgan[n] = -morgan[n] in place (KeyError impossible: n is an atom) *)
Fixpoint negate_at (morgan : labels) (n : Z) : labels :=
  match morgan with
  | [] => []
  | (k, v) :: r => if n =? k then (k, - v) :: r else (k, v) :: negate_at r n
  end.

Section ChiralMorgan.
  Variable h : list Z -> Z.
  Variable g : mol.
  Variable tabs : cmtabs.

  Definition cm_isH (x : Z) : bool := match atom_of g x with Some a => a_num a =? 1 | None => false end.
  Definition atom_stereo (n : Z) : option bool := match atom_of g n with Some a => a_stereo a | None => None end.
  (* morgan.get(x, 0) for an optional atom *)
  Definition lbl_opt (morgan : labels) (x : option Z) : Z := match x with Some y => lbl morgan y | None => 0 end.
  (* len({morgan[x] for x in env}) *)
  Definition n_classes (morgan : labels) (env : list Z) : nat := List.length (uniq (zsort (map (lbl morgan) env))).
  (* sorted(env, key=morgan.get): stable *)
  Definition sort_by_label (morgan : labels) (env : list Z) : list Z :=
    isort (fun x y => lbl morgan x <=? lbl morgan y) env.
  (* a = n1 if n2 is None else min(n1, n2, key=morgan.get) *)
  Definition pick_min (morgan : labels) (n1 : Z) (n2 : option Z) : Z :=
    match n2 with None => n1 | Some y => if lbl morgan y <? lbl morgan n1 then y else n1 end.

  (* [x for x in l if f(x)] where f may raise *)
  Fixpoint filter_res {A : Type} (f : A -> pyres bool) (l : list A) : pyres (list A) :=
    match l with
    | [] => Ok []
    | x :: r => match f x with
                | Err e => Err e
                | Ok b => match filter_res f r with
                          | Err e => Err e
                          | Ok r' => Ok (if b then x :: r' else r')
                          end
                end
    end.

  (* the state of one pass over the groups of one kind: (morgan_update, members still in the set, collected groups) *)
  Definition pstate (A G : Type) := (labels * list A * list (list G))%type.

  (* ---- tetrahedrons ---- *)
  Definition th_sign (morgan : labels) (n : Z) : pyres bool :=
    match zget (c_tetra tabs) n, atom_stereo n with
    | Some order, Some s => translate_th cm_isH order (sort_by_label morgan order) s
    | _, _ => Err KeyError
    end.
  Definition th_group (morgan : labels) (st : pyres (pstate Z Z)) (group : list Z) : pyres (pstate Z Z) :=
    match st with
    | Err e => Err e
    | Ok (update, rest, groups) =>
        if negb (even_len group) then st else
        match group with
        | [] => st
        | n0 :: _ =>
            match zget (c_tetra tabs) n0 with
            | None => Err KeyError
            | Some env =>
                if Nat.eqb (List.length env) (n_classes morgan env) then
                  match filter_res (th_sign morgan) group with
                  | Err e => Err e
                  | Ok s =>
                      let update' := if proper_part s group
                                     then fold_left (fun u m => upd_set u m (- lbl morgan m)) s update else update in
                      Ok (update', filter (fun x => negb (zmem x group)) rest, groups)
                  end
                else Ok (update, rest, groups ++ [group])
            end
        end
    end.

  (* ---- cis / trans ---- *)
  Definition ct_key (morgan : labels) (nm : Z * Z) : Z * (Z * Z) :=
    if lbl morgan (fst nm) <=? lbl morgan (snd nm) then (fst nm, nm) else (snd nm, nm).
  Definition discrete_env (morgan : labels) (env : cenv4) : bool :=
    let '(n1, m1, n2, m2) := env in
    negb (lbl morgan n1 =? lbl_opt morgan n2) && negb (lbl morgan m1 =? lbl_opt morgan m2).
  Definition ct_sign (morgan : labels) (x : Z * (Z * Z)) : pyres bool :=
    let '(n, m) := snd x in
    match cpget (c_sct tabs) (n, m) with
    | None => Err KeyError
    | Some (n1, m1, n2, m2) =>
        let a := pick_min morgan n1 n2 in
        let b := pick_min morgan m1 m2 in
        (* _translate_cis_trans_sign(n, m, a, b): stored sign = stereo of the central bond *)
        match zget (c_ctc tabs) n with
        | None => Err KeyError
        | Some (i, j) =>
            match bond_of g i j with
            | None => Err KeyError
            | Some bd => match b_stereo bd with
                         | None => Err KeyError
                         | Some s => translate_ct cm_isH (Some (n1, m1, n2, m2)) None a b s
                         end
            end
        end
    end.
  Definition ct_group (morgan : labels) (st : pyres (pstate (Z * Z) (Z * (Z * Z)))) (group : list (Z * (Z * Z)))
    : pyres (pstate (Z * Z) (Z * (Z * Z))) :=
    match st with
    | Err e => Err e
    | Ok (update, rest, groups) =>
        if negb (even_len group) then st else
        match group with
        | [] => st
        | x0 :: _ =>
            match cpget (c_sct tabs) (snd x0) with
            | None => Err KeyError
            | Some env =>
                if discrete_env morgan env then
                  match filter_res (ct_sign morgan) group with
                  | Err e => Err e
                  | Ok s =>
                      if proper_part s group
                      then Ok (fold_left (fun u x => upd_set u (fst x) (- lbl morgan (fst x))) s update,
                               filter (fun nm => negb (existsb (fun x => cpair_eqb nm (snd x)) group)) rest, groups)
                      else Ok (update, rest, groups)
                  end
                else Ok (update, rest, groups ++ [group])
            end
        end
    end.

  (* ---- allenes ---- *)
  Definition al_sign (morgan : labels) (c : Z) : pyres bool :=
    match zget (c_allenes tabs) c, atom_stereo c with
    | Some (n1, m1, n2, m2), Some s =>
        translate_al cm_isH (n1, m1, n2, m2) (pick_min morgan n1 n2) (pick_min morgan m1 m2) s
    | _, _ => Err KeyError
    end.
  Definition al_group (morgan : labels) (st : pyres (pstate Z Z)) (group : list Z) : pyres (pstate Z Z) :=
    match st with
    | Err e => Err e
    | Ok (update, rest, groups) =>
        if negb (even_len group) then st else
        match group with
        | [] => st
        | c0 :: _ =>
            match zget (c_allenes tabs) c0 with
            | None => Err KeyError
            | Some env =>
                if discrete_env morgan env then
                  match filter_res (al_sign morgan) group with
                  | Err e => Err e
                  | Ok s =>
                      if proper_part s group
                      then Ok (fold_left (fun u c => upd_set u c (- lbl morgan c)) s update,
                               filter (fun x => negb (zmem x group)) rest, groups)
                      else Ok (update, rest, groups)
                  end
                else Ok (update, rest, groups ++ [group])
            end
        end
    end.

  (* what __differentiation returns, plus the trace of `_morgan` inputs *)
  Record dres := mkD {
    d_morgan : labels;
    d_atoms : list Z; d_ct : list (Z * Z); d_al : list Z;
    d_ga : list (list Z); d_gct : list (list (Z * (Z * Z))); d_gal : list (list Z);
    d_trace : list labels
  }.

  (* __differentiation: the `while True` loop on fuel *)
  Fixpoint differentiation (fuel : nat) (morgan : labels) (sa : list Z) (sct : list (Z * Z)) (sal : list Z) (trace : list labels)
    : pyres dres :=
    match fuel with
    | O => Err OtherError
    | S f =>
        let r1 := if negb (Nat.eqb (List.length sa) 0)
                  then fold_left (th_group morgan) (group_by (lbl morgan) sa) (Ok ([], sa, []))
                  else Ok ([], sa, []) in
        match r1 with
        | Err e => Err e
        | Ok (u1, sa', ga) =>
            let r2 := if negb (Nat.eqb (List.length sct) 0)
                      then fold_left (ct_group morgan) (group_by (fun x => lbl morgan (fst x)) (map (ct_key morgan) sct)) (Ok (u1, sct, []))
                      else Ok (u1, sct, []) in
            match r2 with
            | Err e => Err e
            | Ok (u2, sct', gct) =>
                let r3 := if negb (Nat.eqb (List.length sal) 0)
                          then fold_left (al_group morgan) (group_by (lbl morgan) sal) (Ok (u2, sal, []))
                          else Ok (u2, sal, []) in
                match r3 with
                | Err e => Err e
                | Ok (u3, sal', gal) =>
                    match u3 with
                    | [] => Ok (mkD morgan sa' sct' sal' ga gct gal trace)
                    | _ =>
                        let inp := merge_update morgan u3 in
                        match Morgan.morgan h inp (int_adjacency g) with
                        | Err e => Err e
                        | Ok morgan' => differentiation f morgan' sa' sct' sal' (trace ++ [inp])
                        end
                    end
                end
            end
        end
    end.

  Definition diff_fuel (ord : cmorders) : nat :=
    S (List.length (o_atoms ord) + List.length (o_ct ord) + List.length (o_al ord)).

  (* the outer `while True` of _chiral_morgan *)
  Fixpoint chiral_loop (fuel : nat) (dfuel : nat) (morgan : labels) (sa : list Z) (sct : list (Z * Z)) (sal : list Z)
                       (trace : list labels) : pyres (labels * list labels) :=
    match fuel with
    | O => Err OtherError
    | S f =>
        match differentiation dfuel morgan sa sct sal trace with
        | Err e => Err e
        | Ok d =>
            match d_ga d, d_gct d, d_gal d with
            | [], [], [] => Ok (d_morgan d, d_trace d)
            | _, _, _ =>
                let m1 := fold_left (fun mg group => fold_left negate_at (half group) mg) (d_ga d) (d_morgan d) in
                let m2 := fold_left (fun mg group => fold_left (fun mg' x => negate_at mg' (fst x)) (half group) mg) (d_gct d) m1 in
                let m3 := fold_left (fun mg group => fold_left negate_at (half group) mg) (d_gal d) m2 in
                match Morgan.morgan h m3 (int_adjacency g) with
                | Err e => Err e
                | Ok morgan' => chiral_loop f dfuel morgan' (d_atoms d) (d_ct d) (d_al d) (d_trace d ++ [m3])
                end
            end
        end
    end.

  Definition has_stereo_labels : bool :=
    existsb (fun na => match a_stereo (snd na) with Some _ => true | None => false end) (m_atoms g) ||
    existsb (fun nl => existsb (fun mb => match b_stereo (snd mb) with Some _ => true | None => false end) (snd nl)) (m_adj g).

  (* _chiral_morgan given atoms_order [ao]; returns the weights and the trace of `_morgan` inputs *)
  Definition chiral_morgan (ao : labels) (ord : cmorders) : pyres (labels * list labels) :=
    if negb has_stereo_labels then Ok (ao, [])
    else chiral_loop (S (S (List.length (m_atoms g)))) (diff_fuel ord) ao (o_atoms ord) (o_ct ord) (o_al ord) [].
End ChiralMorgan.
