(* Semantic primitives for the TRANSLATED CXSMILES radical loops of smiles.py:smiles() (tools/gen_c03rad.py -> Gen.RadicalBody).
   An atom record is (atom token, is_radical). *)
From Coq Require Import ZArith List Bool.
From Model Require Import PyBase Tokenize Parser Reader.
Import ListNotations.
Open Scope Z_scope.

Notation arec := (atomtok * bool)%type (only parsing).
(* <list>[x]['is_radical'] = True : Python list indexing (a negative index counts from the end, IndexError outside) *)
Definition list_mark (atoms : list arec) (x : Z) : pyres (list arec) :=
  let j := if x <? 0 then x + Z.of_nat (List.length atoms) else x in
  if j <? 0 then Err IndexError else
  match nth_error atoms (Z.to_nat j) with
  | None => Err IndexError
  | Some (a, _) => match list_set atoms (Z.to_nat j) (a, true) with Some l => Ok l | None => Err OtherError end
  end.
(* atom_map = dict(enumerate(<atoms>)) : the keys are 0 .. len - 1 *)
Definition enum_has (atoms : list arec) (x : Z) : bool := (0 <=? x) && (x <? Z.of_nat (List.length atoms)).
(* atom_map[x]['is_radical'] = True : KeyError for a key that is not there *)
Definition enum_mark (atoms : list arec) (x : Z) : pyres (list arec) :=
  if enum_has atoms x then
    match nth_error atoms (Z.to_nat x) with
    | None => Err OtherError
    | Some (a, _) => match list_set atoms (Z.to_nat x) (a, true) with Some l => Ok l | None => Err OtherError end
    end
  else Err KeyError.
(* for x in radicals: <step> *)
Fixpoint rfold (f : list arec -> Z -> pyres (list arec)) (atoms : list arec) (rads : list Z) : pyres (list arec) :=
  match rads with
  | [] => Ok atoms
  | x :: r => match f atoms x with Ok a' => rfold f a' r | Err e => Err e end
  end.
