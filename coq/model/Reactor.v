(* C16 -- model of chython/reactor/base.py (BaseReactor._get_deleted, structural part of BaseReactor._patcher) and of
   chython/reactor/reactor.py:fix_mapping_overlap.

   Python sets are lists without a meaning attached to their order (results are compared after sorting); the iteration
   order of the set `to_delete` (for x in to_delete) is NOT modelled: the functions iterate the images in the order in
   which the pattern atoms are given, and the correspondence runner passes them in the observed iteration order.
   Python dicts are association lists in insertion order.  list.pop() takes from the END of a Python list: stacks are
   kept reversed (head = top), list.append(m) is `m :: stack`. *)
From Coq Require Import ZArith List Bool Lia.
From Model Require Import PyBase Graph.
Import ListNotations.
Open Scope Z_scope.

(* ---------- small set / dict helpers ---------- *)
Definition zadd (x : Z) (l : list Z) : list Z := if zmem x l then l else x :: l.        (* set.add *)
Definition zunion (a b : list Z) : list Z := fold_right zadd b a.                        (* b.update(a) *)
Definition zdiff (a b : list Z) : list Z := filter (fun x => negb (zmem x b)) a.         (* a.difference(b) *)
Definition zinter (a b : list Z) : list Z := filter (fun x => zmem x b) a.               (* a.intersection(b) *)

Fixpoint zinsert (x : Z) (l : list Z) : list Z :=
  match l with [] => [x] | y :: r => if x <=? y then x :: l else y :: zinsert x r end.
Definition zsort (l : list Z) : list Z := fold_right zinsert [] l.

(* d[k] = v : the position of an existing key is kept *)
Fixpoint zset {V : Type} (d : list (Z * V)) (k : Z) (v : V) : list (Z * V) :=
  match d with
  | [] => [(k, v)]
  | (k', v') :: r => if k =? k' then (k, v) :: r else (k', v') :: zset r k v
  end.

Fixpoint fold_res {A S : Type} (f : S -> A -> pyres S) (l : list A) (s : S) : pyres S :=
  match l with
  | [] => Ok s
  | a :: r => match f s a with Ok s' => fold_res f r s' | Err e => Err e end
  end.

Definition zmax_list (l : list Z) : option Z :=                                          (* max(l); None = ValueError *)
  match l with [] => None | x :: r => Some (fold_left Z.max r x) end.

(* ====================================================================================================
   BaseReactor._get_deleted (the code after fix: b90326c -- every piece that lost a bond to a deleted atom is walked
   COMPLETELY, stopping only at deleted and at kept matched atoms, and is classified once into `keep` or `delete`)
   ==================================================================================================== *)
Inductive walk_res :=
| WDone (seen : list Z) (attached : bool)   (* the while loop ran until the stack was empty *)
| WKeyErr                                    (* bonds[stack.pop()] raised KeyError (atom without adjacency entry) *)
| WFuel.                                     (* model artefact: out of fuel; impossible with `fuel_walk` (ReactorProofs.walk_ok) *)

(*      for m in bonds[stack.pop()]:
            if m in remain: attached = True
            elif m not in to_delete and m not in seen: seen.add(m); stack.append(m)                      *)
Definition visit (remain del : list Z) (st : list Z * list Z * bool) (m : Z) : list Z * list Z * bool :=
  let '(stack, seen, att) := st in
  if zmem m remain then (stack, seen, true)
  else if negb (zmem m del) && negb (zmem m seen) then (m :: stack, zadd m seen, att)
  else st.

(*      while stack: for m in bonds[stack.pop()]: ...          (head of the list = top of the Python stack) *)
Fixpoint walk (bonds : graph) (remain del : list Z) (fuel : nat) (stack seen : list Z) (att : bool) : walk_res :=
  match fuel with
  | O => WFuel
  | S f =>
      match stack with
      | [] => WDone seen att
      | current :: rest =>
          match zget bonds current with
          | None => WKeyErr
          | Some nb => let '(stack', seen', att') := fold_left (visit remain del) nb (rest, seen, att) in
                       walk bonds remain del f stack' seen' att'
          end
      end
  end.

(* every pop takes an atom that was added to `seen` exactly once: one round per atom of the structure *)
Definition fuel_walk (bonds : graph) : nat := S (length bonds).

(*  for n in bonds[x]:
        if n in to_delete or n in remain or n in delete or n in keep: continue
        seen = {n}; stack = [n]; attached = False
        while ...
        if attached: keep.update(seen)  else: delete.update(seen)                                        *)
Definition start_walk (bonds : graph) (remain del : list Z) (st : list Z * list Z) (n : Z) : pyres (list Z * list Z) :=
  let '(delete, keep) := st in
  if zmem n del || zmem n remain || zmem n delete || zmem n keep then Ok st
  else match walk bonds remain del (fuel_walk bonds) [n] [n] false with
       | WDone seen true => Ok (delete, zunion seen keep)
       | WDone seen false => Ok (zunion seen delete, keep)
       | WKeyErr => Err KeyError
       | WFuel => Err OtherError
       end.

(*  for x in to_delete: for n in bonds[x]: ...  ;  to_delete.update(delete); return to_delete *)
Definition get_deleted_loops (bonds : graph) (to_delete remain : list Z) : pyres (list Z * list Z) :=
  fold_res (fun st x => match zget bonds x with
                        | None => Err KeyError
                        | Some nb => fold_res (start_walk bonds remain to_delete) nb st
                        end) to_delete ([], []).

Definition get_deleted_core (bonds : graph) (to_delete remain : list Z) : pyres (list Z) :=
  match get_deleted_loops bonds to_delete remain with
  | Err e => Err e
  | Ok (delete, _) => Ok (zunion delete to_delete)
  end.

(* {mapping[x] for x in self._to_delete} ; None = KeyError *)
Fixpoint map_image (mapping : list (Z * Z)) (l : list Z) : option (list Z) :=
  match l with
  | [] => Some []
  | x :: r => match zget mapping x, map_image mapping r with
              | Some v, Some vs => Some (v :: vs)
              | _, _ => None
              end
  end.
Definition image (mapping : list (Z * Z)) (to_del : list Z) : list Z :=
  match map_image mapping to_del with Some l => nodup Z.eq_dec l | None => [] end.
(* set(mapping.values()).difference(to_delete) : the matched atoms that are kept (masked ones included) *)
Definition kept (mapping : list (Z * Z)) (to_del : list Z) : list Z := zdiff (map snd mapping) (image mapping to_del).

(* _get_deleted(structure, mapping): bonds = structure._bonds (as neighbour lists), to_del = self._to_delete *)
Definition get_deleted (bonds : graph) (mapping : list (Z * Z)) (to_del : list Z) : pyres (list Z) :=
  match to_del with
  | [] => Ok []                                          (* if not self._to_delete: return set() *)
  | _ => match map_image mapping to_del with
         | None => Err KeyError
         | Some _ => get_deleted_core bonds (image mapping to_del) (kept mapping to_del)
         end
  end.

(* the intermediate sets `delete` and `keep` after the loops (compared with the real code by the correspondence) *)
Definition get_deleted_sets (bonds : graph) (mapping : list (Z * Z)) (to_del : list Z) : pyres (list Z * list Z) :=
  match map_image mapping to_del with
  | None => Err KeyError
  | Some _ => get_deleted_loops bonds (image mapping to_del) (kept mapping to_del)
  end.

(* ====================================================================================================
   BaseReactor.__init__: which pattern atoms are to be deleted
       self._to_delete = {n for n, a in pattern.atoms() if not a.masked} - set(replacement) if delete_atoms else ()
   pattern = list of (atom number, masked) in dict order; replacement = list(replacement) (its atom numbers)
   ==================================================================================================== *)
Definition to_delete_of (pattern : list (Z * bool)) (replacement : list Z) (delete_atoms : bool) : list Z :=
  if delete_atoms then zdiff (keys (filter (fun na => negb (snd na)) pattern)) replacement else [].

(* ---------- the specification (DESIGN Appendix A) ---------- *)
Definition adj (g : graph) (a b : Z) : Prop := In b (gnbrs g a).
(* y can be reached from x inside the remainder (the graph without the atoms D) *)
Inductive reach_av (g : graph) (D : list Z) : Z -> Z -> Prop :=
| ra_refl : forall x, ~ In x D -> reach_av g D x x
| ra_step : forall x y z, reach_av g D x y -> adj g y z -> ~ In z D -> reach_av g D x z.
(* x belongs to a piece of the remainder that hung on a deleted atom *)
Definition attached (g : graph) (D : list Z) (x : Z) : Prop :=
  exists d n, In d D /\ adj g d n /\ reach_av g D n x.
(* the piece of the remainder that contains x became detached: it hung on a deleted atom and holds no kept matched atom *)
Definition detached (g : graph) (D K : list Z) (x : Z) : Prop :=
  ~ In x D /\ attached g D x /\ forall y, reach_av g D x y -> ~ In y K.
Definition deleted_spec (g : graph) (D K : list Z) (x : Z) : Prop := In x D \/ detached g D K x.

(* renumbering of the structure by s: what Graph.remap does to _bonds, and to a match into the structure *)
Definition rename_graph (s : Z -> Z) (g : graph) : graph := map (fun vl => (s (fst vl), map s (snd vl))) g.
Definition rename_match (s : Z -> Z) (mapping : list (Z * Z)) : list (Z * Z) := map (fun kv => (fst kv, s (snd kv))) mapping.


(* symmetric adjacency (implies: every neighbour has an adjacency entry) *)
Definition sym_graph (g : graph) : bool :=
  forallb (fun vl => forallb (fun b => zmem (fst vl) (gnbrs g b)) (snd vl)) g.
Definition connected (g : graph) : Prop := forall a b, In a (keys g) -> In b (keys g) -> reach_av g [] a b.

Definition sorted_res (r : pyres (list Z)) : pyres (list Z) :=
  match r with Ok l => Ok (zsort l) | Err e => Err e end.

(* ====================================================================================================
   BaseReactor._patcher, structural part: which atoms and bonds the product has, with which element, isotope,
   charge, radical state, hydrogen count (None = left to calc_implicit) and order, in which dict order.
   NOT modelled: stereo labels (a_stereo / b_stereo of the result are always None), coordinates, calc_implicit,
   calc_labels, kekule / thiele / fix_stereo.
   ==================================================================================================== *)
Inductive ratom :=
| RAny (chg : Z) (rad : bool)                                        (* AnyElement: keeps element and isotope of the match *)
| RElem (num : Z) (iso : option Z) (chg : Z) (rad : bool) (h : option Z).
    (* QueryElement / Element; h = implicit_hydrogens (Element) or implicit_hydrogens[0] if the tuple is not empty *)
Record template := mkTpl {
  t_atoms : list (Z * ratom);                 (* replacement._atoms *)
  t_bonds : list (Z * list (Z * bond))        (* replacement._bonds; int(rb) as order *)
}.

(* `if m := mapping.get(n)` : a missing key and the number 0 are both falsy *)
Definition truthy_get (mapping : list (Z * Z)) (n : Z) : option Z :=
  match zget mapping n with Some m => if m =? 0 then None else Some m | None => None end.

Record pstate := mkP {
  p_atoms : list (Z * atom);                  (* new._atoms *)
  p_adj : list (Z * list (Z * bond));         (* new._bonds *)
  p_map : list (Z * Z);                       (* mapping (extended in place by the new atoms) *)
  p_max : Z                                   (* max_atom *)
}.

Definition put_atom (s : pstate) (m : Z) (a : atom) (mp : list (Z * Z)) (mx : Z) : pstate :=
  mkP (zset (p_atoms s) m a) (zset (p_adj s) m []) mp mx.           (* natoms[m] = a; nbonds[m] = {} *)

Definition patch_atom (g : mol) (s : pstate) (nra : Z * ratom) : pyres pstate :=
  let '(n, ra) := nra in
  match ra with
  | RAny chg rad =>
      match truthy_get (p_map s) n with
      | Some m => match atom_of g m with                             (* sa = satoms[m] *)
                  | None => Err KeyError
                  | Some sa => Ok (put_atom s m (mkAtom (a_num sa) (a_iso sa) chg rad None None) (p_map s) (p_max s))
                  end
      | None => Err ValueError                                       (* AnyElement doesn't match to pattern *)
      end
  | RElem num iso chg rad h =>
      match truthy_get (p_map s) n with
      | None => let m := p_max s + 1 in                              (* new atom *)
                Ok (put_atom s m (mkAtom num iso chg rad h None) (zset (p_map s) n m) m)
      | Some m => match atom_of g m with
                  | None => Err KeyError
                  | Some _ => Ok (put_atom s m (mkAtom num iso chg rad None None) (p_map s) (p_max s))
                  end
      end
  end.

(*  if n in nbonds[m]: nbonds[n][m] = nbonds[m][n]   (back-link: the same Bond object)
    else:              nbonds[n][m] = <fresh bond>                                                    *)
Definition link (adj : list (Z * list (Z * bond))) (n m : Z) (fresh : bond) : pyres (list (Z * list (Z * bond))) :=
  match zget adj m, zget adj n with
  | Some lm, Some ln => Ok (zset adj n (zset ln m (match zget lm n with Some b => b | None => fresh end)))
  | _, _ => Err KeyError
  end.

Definition plain (b : bond) : bond := mkBond (b_ord b) None.        (* Bond(int(rb)) / b.copy() *)
Definition plain_atom (a : atom) : atom := mkAtom (a_num a) (a_iso a) (a_chg a) (a_rad a) (a_h a) None.  (* sa.copy(hydrogens=True) *)

Definition patch_bonds_of (mp : list (Z * Z)) (adj : list (Z * list (Z * bond))) (nbs : Z * list (Z * bond))
  : pyres (list (Z * list (Z * bond))) :=
  match zget mp (fst nbs) with
  | None => Err KeyError
  | Some n => fold_res (fun adj mrb => match zget mp (fst mrb) with
                                        | None => Err KeyError
                                        | Some m => link adj n m (plain (snd mrb))
                                        end) (snd nbs) adj
  end.

(*  for n, sa in satoms.items():  if n not in patched_atoms and n not in to_delete: natoms[n] = sa.copy(hydrogens=True); nbonds[n] = {} *)
Definition keep_atom (patched del : list Z) (st : list (Z * atom) * list (Z * list (Z * bond))) (nsa : Z * atom) :=
  if zmem (fst nsa) patched || zmem (fst nsa) del then st
  else (zset (fst st) (fst nsa) (plain_atom (snd nsa)), zset (snd st) (fst nsa) []).

(*  for n, bs in sbonds.items():
        if n in to_delete: continue
        for m, b in bs.items():
            if m in to_delete or n in patched_atoms and m in patched_atoms: continue
            elif n in nbonds[m]: back-link  else: nbonds[n][m] = b.copy()                              *)
Definition keep_bonds_of (patched del : list Z) (adj : list (Z * list (Z * bond))) (nbs : Z * list (Z * bond))
  : pyres (list (Z * list (Z * bond))) :=
  let n := fst nbs in
  if zmem n del then Ok adj
  else fold_res (fun adj mb => let m := fst mb in
                               if zmem m del || (zmem n patched && zmem m patched) then Ok adj
                               else link adj n m (plain (snd mb))) (snd nbs) adj.

(* result: the product (atoms and adjacency in dict order) and the extended mapping *)
Definition patcher (g : mol) (mapping : list (Z * Z)) (tpl : template) (to_delete : list Z) : pyres (mol * list (Z * Z)) :=
  match zmax_list (ids g) with
  | None => Err ValueError                                           (* max(satoms) of an empty molecule *)
  | Some mx =>
      match fold_res (patch_atom g) (t_atoms tpl) (mkP [] [] mapping mx) with
      | Err e => Err e
      | Ok s =>
          match fold_res (patch_bonds_of (p_map s)) (t_bonds tpl) (p_adj s) with
          | Err e => Err e
          | Ok adj2 =>
              let patched := keys (p_atoms s) in
              let '(atoms3, adj3) := fold_left (keep_atom patched to_delete) (m_atoms g) (p_atoms s, adj2) in
              match fold_res (keep_bonds_of patched to_delete) (m_adj g) adj3 with
              | Err e => Err e
              | Ok adj4 => Ok (mkMol atoms3 adj4, p_map s)
              end
          end
      end
  end.

(* _patcher as the callers use it: to_delete = self._get_deleted(structure, mapping) *)
Definition patcher_with (gd : graph -> list (Z * Z) -> list Z -> pyres (list Z))
  (g : mol) (mapping : list (Z * Z)) (to_del : list Z) (tpl : template) : pyres (mol * list (Z * Z)) :=
  match gd (graph_of g) mapping to_del with
  | Err e => Err e
  | Ok del => patcher g mapping tpl del
  end.

Definition wf_template (t : template) : bool :=
  list_eqb Z.eqb (keys (t_atoms t)) (keys (t_bonds t)) && nodup_z (keys (t_atoms t)) &&
  forallb (fun nl => let n := fst nl in
     nodup_z (keys (snd nl)) &&
     forallb (fun mb => let m := fst mb in
        negb (m =? n) && zmem m (keys (t_atoms t)) &&
        match zget (t_bonds t) m with
        | Some lm => match zget lm n with Some b' => b_ord (snd mb) =? b_ord b' | None => false end
        | None => false
        end) (snd nl)) (t_bonds t).

(* ====================================================================================================
   reactor.py: fix_mapping_overlap on the atom numbers of the structures (each list = list(structure), dict order).
   The iteration order of the set `intersection` is not modelled: colliding atoms are renumbered in dict order,
   results are compared as sets of new numbers.
   ==================================================================================================== *)
Fixpoint zip_count (l : list Z) (start : Z) : list (Z * Z) :=       (* dict(zip(l, count(start))) *)
  match l with [] => [] | x :: r => (x, start) :: zip_count r (start + 1) end.
Definition remap_ids (mp : list (Z * Z)) (l : list Z) : list Z :=   (* {mg(n, n): ... for n in atoms} *)
  map (fun n => match zget mp n with Some m => m | None => n end) l.

Definition overlap_step (st : list (list Z) * list Z) (structure : list Z) : pyres (list (list Z) * list Z) :=
  let '(checked, checked_atoms) := st in
  let inter := zinter structure checked_atoms in
  match inter with
  | [] => Ok (checked ++ [structure], zunion structure checked_atoms)
  | _ => match zmax_list checked_atoms, zmax_list structure with
         | Some a, Some b =>
             let s' := remap_ids (zip_count inter (Z.max a b + 1)) structure in
             Ok (checked ++ [s'], zunion s' checked_atoms)
         | _, _ => Err ValueError
         end
  end.

Definition fix_mapping_overlap (structures : list (list Z)) : pyres (list (list Z)) :=
  match structures with
  | [_] => Ok structures
  | _ => match fold_res overlap_step structures ([], []) with
         | Ok (checked, _) => Ok checked
         | Err e => Err e
         end
  end.

(* ====================================================================================================
   reactor.py: Reactor._single_stage, the number-collision remapping of one patched product against the molecules that
   take no part in the reaction (`ignored` = the set of their atom numbers):
       max_ignored_number = max(ignored, default=0)
       collision = set(new).intersection(ignored)
       if collision: new.remap(dict(zip(collision, count(max(max_ignored_number, max(new)) + 1))))
   new = list(new) (atom numbers of the product in dict order).  The iteration order of the set `collision` is not
   modelled: colliding atoms are renumbered in dict order, results are compared as sets.
   ==================================================================================================== *)
Definition zmax0 (l : list Z) : Z := match zmax_list l with Some m => m | None => 0 end.     (* max(l, default=0) *)
Definition stage_remap (new ignored : list Z) : pyres (list Z) :=
  match zinter new ignored with
  | [] => Ok new
  | collision => match zmax_list new with
                 | Some b => Ok (remap_ids (zip_count collision (Z.max (zmax0 ignored) b + 1)) new)
                 | None => Err ValueError
                 end
  end.


(* ---------- vocabulary of the theorems about _patcher and fix_mapping_overlap (proofs/ReactorProofs.v, props/C16.v) ---------- *)
Definition adjT := list (Z * list (Z * bond)).
Definition get2 (adj : adjT) (x y : Z) : option bond := zget (match zget adj x with Some l => l | None => [] end) y.

(* x is an atom of the product that the replacement names (image of a replacement atom under the extended mapping) *)
Definition named (tpl : template) (mp' : list (Z * Z)) (x : Z) : Prop :=
  exists n, In n (keys (t_atoms tpl)) /\ truthy_get mp' n = Some x.

(* the atom _patcher builds for a replacement atom ra: sa = the matched atom of the structure (a dummy for a new atom) *)
Definition dummy_atom : atom := mkAtom 0 None 0 false None None.
Definition built (ra : ratom) (sa : atom) (is_new : bool) : atom :=
  match ra with
  | RAny chg rad => mkAtom (a_num sa) (a_iso sa) chg rad None None
  | RElem num iso chg rad h => mkAtom num iso chg rad (if is_new then h else None) None
  end.

(* a replacement atom that asks for what the matched atom already has *)
Definition same_request (ra : ratom) (sa : atom) : Prop :=
  match ra with
  | RAny chg rad => chg = a_chg sa /\ rad = a_rad sa
  | RElem num iso chg rad _ => num = a_num sa /\ iso = a_iso sa /\ chg = a_chg sa /\ rad = a_rad sa
  end.
Definition core (a : atom) : Z * option Z * Z * bool := (a_num a, a_iso a, a_chg a, a_rad a).

Fixpoint all_disjoint (l : list (list Z)) : Prop :=
  match l with
  | [] => True
  | a :: r => (forall b, In b r -> forall x, In x a -> ~ In x b) /\ all_disjoint r
  end.

(* ---------- comparison used by the correspondence runner (model value first, observed value second) ---------- *)
(* hydrogens None in the model = "computed later by calc_implicit": any observed value is accepted there;
   stereo labels are not compared *)
Definition atom_struct_eqb (a b : atom) : bool :=
  (a_num a =? a_num b) && option_eqb Z.eqb (a_iso a) (a_iso b) && (a_chg a =? a_chg b) && Bool.eqb (a_rad a) (a_rad b) &&
  match a_h a with None => true | Some h => option_eqb Z.eqb (Some h) (a_h b) end.
Definition bond_struct_eqb (a b : bond) : bool := b_ord a =? b_ord b.
Definition mol_struct_eqb (g h : mol) : bool :=
  list_eqb (pair_eqb Z.eqb atom_struct_eqb) (m_atoms g) (m_atoms h) &&
  list_eqb (pair_eqb Z.eqb (list_eqb (pair_eqb Z.eqb bond_struct_eqb))) (m_adj g) (m_adj h).
(* hydrogens the code leaves to calc_implicit (None in the model): the observed count must be the one the library computes
   for a molecule REBUILT from scratch (add_atom / add_bond) with the atoms and bonds of the observed product; `rebuilt` lists
   that count per atom (None where the rebuild has no count, e.g. aromatic atoms in the raw mode: anything accepted) *)
Definition atom_h_eqb (rebuilt : list (Z * option Z)) (na nb : Z * atom) : bool :=
  (fst na =? fst nb) && atom_struct_eqb (snd na) (snd nb) &&
  match a_h (snd na), zget rebuilt (fst na) with
  | None, Some (Some h) => option_eqb Z.eqb (Some h) (a_h (snd nb))
  | _, _ => true
  end.
Definition mol_struct_h_eqb (rebuilt : list (Z * option Z)) (g h : mol) : bool :=
  list_eqb (atom_h_eqb rebuilt) (m_atoms g) (m_atoms h) &&
  list_eqb (pair_eqb Z.eqb (list_eqb (pair_eqb Z.eqb bond_struct_eqb))) (m_adj g) (m_adj h).
Definition patch_res_h_eqb (rebuilt : list (Z * option Z)) (model impl : pyres (mol * list (Z * Z))) : bool :=
  pyres_eqb (fun x y => mol_struct_h_eqb rebuilt (fst x) (fst y) && list_eqb (pair_eqb Z.eqb Z.eqb) (snd x) (snd y)) model impl.
Definition patch_res_eqb (model impl : pyres (mol * list (Z * Z))) : bool :=
  pyres_eqb (fun x y => mol_struct_eqb (fst x) (fst y) && list_eqb (pair_eqb Z.eqb Z.eqb) (snd x) (snd y)) model impl.
Definition zlist_res_eqb (model impl : pyres (list Z)) : bool := pyres_eqb (list_eqb Z.eqb) (sorted_res model) impl.
Definition to_delete_eqb (pattern : list (Z * bool)) (replacement : list Z) (delete_atoms : bool) (impl : list Z) : bool :=
  list_eqb Z.eqb (zsort (to_delete_of pattern replacement delete_atoms)) impl.
(* one _get_deleted case: the returned set (or exception) and, when the real call reached the loops, its local sets
   `delete` and `keep` (each compared after sorting) *)
Definition gd_case_eqb (g : graph) (mapping : list (Z * Z)) (to_del : list Z) (impl : pyres (list Z))
  (impl_sets : option (list Z * list Z)) : bool :=
  zlist_res_eqb (get_deleted g mapping to_del) impl &&
  match impl_sets with
  | None => true
  | Some (d, k) => match get_deleted_sets g mapping to_del with
                   | Ok (d', k') => list_eqb Z.eqb (zsort d') d && list_eqb Z.eqb (zsort k') k
                   | Err _ => false
                   end
  end.
(* fix_mapping_overlap: same numbers where nothing was renumbered, same SET of numbers per structure *)
Definition overlap_res_eqb (model impl : pyres (list (list Z))) : bool :=
  pyres_eqb (list_eqb (fun a b => list_eqb Z.eqb (zsort a) (zsort b))) model impl.
(* Reactor._single_stage: the numbers of one stage's products (after the collision remap) as a set *)
Definition stage_res_eqb (model impl : pyres (list Z)) : bool := pyres_eqb (list_eqb Z.eqb) (sorted_res model) impl.
