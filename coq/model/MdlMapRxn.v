(* C11 -- chython/files/_mapping.py postprocess_parsed_reaction: which atom numbers the atoms of a parsed REACTION get
   (shared by the RDF V2000 / V3000 and the MRV reaction readers).  Input: per role (reactants, products, reagents -- the insertion
   order of the dict `maps`) the molecules, each the list of atom.get('parsed_mapping') of its atoms (None: key absent).
   Output: per role the list of per-molecule `mapping` lists, the number of entries appended to data['log'] and, per molecule in
   role order, the number of entries appended to molecule['log'].  MappingError is a ValueError. *)
From Coq Require Import ZArith List String Ascii Bool Lia.
From Model Require Import PyBase Mdl MdlMap.
Import ListNotations.
Open Scope Z_scope.
Local Notation length := List.length.
Local Notation concat := List.concat.

(* ---- phase 1: `for molecule in data[i]: used = set(); for atom in molecule['atoms']: ...` : the flat list of numbers of one molecule
   (0 for none) and how many `non-unique mapping in molecule` entries its log receives; ignore=False raises at the first repeat ---- *)
Record m1state := mk_m1 { m1_used : list Z; m1_out : list Z; m1_log : nat }.
Definition m1_step (ignore : bool) (st : m1state) (m : option Z) : pyres m1state :=
  let v := map_val m in
  if v =? 0 then Ok (mk_m1 (m1_used st) (m1_out st ++ [0]) (m1_log st))
  else if zmem v (m1_used st) then
    (if ignore then Ok (mk_m1 (m1_used st) (m1_out st ++ [v]) (S (m1_log st))) else Err ValueError)
  else Ok (mk_m1 (v :: m1_used st) (m1_out st ++ [v]) (m1_log st)).
Definition m1_molecule (ignore : bool) (ms : list (option Z)) : pyres (list Z * nat) :=
  do st <- foldM (m1_step ignore) ms (mk_m1 [] [] 0%nat); Ok (m1_out st, m1_log st).
(* one role: tmp (flat) and the per-molecule log counts *)
Definition m1_role (ignore : bool) (mols : list (list (option Z))) : pyres (list Z * list nat) :=
  foldM (fun acc ms => do r <- m1_molecule ignore ms; Ok (fst acc ++ fst r, snd acc ++ [snd r])) mols ([], []).

(* max(l, default=0) *)
Definition max_default0 (l : list Z) : Z := match l with [] => 0 | v :: r => fold_left Z.max r v end.
(* `length = count(max(max(maps['products'], default=0), max(maps['reactants'], default=0), max(maps['reagents'], default=0)) + 1)` *)
Definition ppr_start (reactants products reagents : list Z) : Z :=
  Z.max (Z.max (max_default0 products) (max_default0 reactants)) (max_default0 reagents) + 1.

(* ---- phase 2 (`# map unmapped atoms`): one role with the shared counter and the shared data['log']; `used` starts empty per role.
   This is pp_step of the molecule function on the flat list. ---- *)
Definition ppr_role (ignore : bool) (next : Z) (log : nat) (tmp : list Z) : pyres (list Z * Z * nat) :=
  do st <- foldM (pp_step ignore) (map Some tmp) (mk_pp next [] [] log);
  Ok (pp_out st, pp_next st, pp_log st).

(* ---- phase 3: `if maps['reagents']: tmp = (set(reactants) | set(products)) & set(reagents); if tmp: ...` ---- *)
Fixpoint renumber_shared (core : list Z) (next : Z) (g : list Z) : list Z * Z :=
  match g with
  | [] => ([], next)
  | x :: r => if zmem x core then let '(r', n') := renumber_shared core (next + 1) r in (next :: r', n')
              else let '(r', n') := renumber_shared core next r in (x :: r', n')
  end.
Definition ppr_reagents (ignore : bool) (rc pr rg : list Z) (next : Z) (log : nat) : pyres (list Z * Z * nat) :=
  if existsb (fun x => zmem x rc || zmem x pr) rg then
    (if ignore then let '(rg', n') := renumber_shared (rc ++ pr) next rg in Ok (rg', n', S log) else Err ValueError)
  else Ok (rg, next, log).

(* ---- phase 4 (`if remap:`): lose = sorted(set(range(1, next(length))) - ..., reverse=True); every non-empty role is shifted down once per
   lost number, largest first ---- *)
Definition ppr_lose (next : Z) (rc pr rg : list Z) : list Z :=
  rev (filter (fun k => negb (zmem k rc || zmem k pr || zmem k rg)) (zrange 1 next)).
Definition shift_down (lose : list Z) (l : list Z) : list Z :=
  fold_left (fun tmp j => map (fun x => if x <? j then x else x - 1) tmp) lose l.

(* ---- phase 5: `j['mapping'] = tmp[shift: atom_len + shift]` ---- *)
Fixpoint split_sizes {X} (sizes : list nat) (l : list X) : list (list X) :=
  match sizes with [] => [] | n :: r => firstn n l :: split_sizes r (skipn n l) end.

Record ppr_result := mk_pprr { ppr_reactants : list (list Z); ppr_products : list (list Z); ppr_reagents_out : list (list Z);
                               ppr_log : nat; ppr_mol_logs : list nat }.

Definition pp_reaction (remap ignore : bool) (reactants products reagents : list (list (option Z))) : pyres ppr_result :=
  do a <- m1_role ignore reactants;
  do p <- m1_role ignore products;
  do g <- m1_role ignore reagents;
  let start := ppr_start (fst a) (fst p) (fst g) in
  do a2 <- ppr_role ignore start 0%nat (fst a);
  let '(rc, n1, l1) := a2 in
  do p2 <- ppr_role ignore n1 l1 (fst p);
  let '(pr, n2, l2) := p2 in
  do g2 <- ppr_role ignore n2 l2 (fst g);
  let '(rg, n3, l3) := g2 in
  do g3 <- ppr_reagents ignore rc pr rg n3 l3;
  let '(rg, n4, l4) := g3 in
  let lose := if remap then ppr_lose n4 rc pr rg else [] in
  let fin := shift_down lose in
  Ok (mk_pprr (split_sizes (map (@length _) reactants) (fin rc)) (split_sizes (map (@length _) products) (fin pr))
              (split_sizes (map (@length _) reagents) (fin rg)) l4 (snd a ++ snd p ++ snd g)).
