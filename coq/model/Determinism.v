(* C19 -- results are identical across processes, hash seeds and repeated calls.

   Three things live here (definitions only; proofs in Proofs.DeterminismProofs):

   (1) the hand-written ALLOW-LIST of the static audit.  tools/gen_setaudit.py lists, from the Python AST of the
       anchored files, every place where the iteration order of a set / frozenset / dict-view difference can reach a
       result (for / min / max / sorted / next / iter / list / tuple / deque / ... / pop() / unpacking) and every call
       of the builtin hash(); the list is Gen.SetAudit.audit.  Every such site must appear below with the REASON why
       it cannot make a result depend on the hash seed or on the process.  `audit_ok` / `allow_tight` compare the two
       lists in both directions, so a new, edited or vanished site stops the build (fail closed).

   (2) generic executable models of the Python idioms the reasons refer to: a loop over a set as a left fold over
       ANY enumeration of the set, sorted(key=...), min(key=...), a two-element unpack, and the memoisation layer
       (functools.cached_property / CachedMethods.cached_method storing into Graph.__dict__, Graph.flush_cache
       clearing it, Graph.copy starting from an empty one).

   (3) the small concrete instances used by the correspondence (bit mask of ring sizes, weight groups of _smiles, BFS
       levels of _smiles).

   How the hash seed can enter at all (CPython 3.12): only str/bytes hashing is randomised by PYTHONHASHSEED, and only
   objects without __hash__ hash by address.  hash() of ints, bools and tuples of those is a pure function (modelled
   bit-exactly in Model.PyHash); dicts iterate in insertion order.  So a result can differ between seeds/processes
   only through (a) the ITERATION ORDER of a set whose members are str (or address-hashed objects), or (b) the VALUE
   of hash(str) used in a decision.  Sets of ints iterate in an order that is a function of their construction
   history alone (not modelled: taken as an explicit input / quantified over, see DESIGN section 3). *)
From Coq Require Import ZArith List String Bool.
Import ListNotations.
Open Scope Z_scope.

(* ------------------------------------------------------------------------------------------------------------ *)
(* (1) audit vocabulary *)

Inductive reason :=
  (* the value computed by the loop / call is the same for EVERY enumeration order of the set: proved by the lemma
     of Proofs.DeterminismProofs (or of another property's proof file, restated in Props.C19) that is named *)
| OrderFree (lemma : string)
  (* sorted(..., key=k) / min(..., key=k): the result depends on the order only between elements of EQUAL key; the
     named lemma proves order independence for an injective key and key-determinacy otherwise; ties are the explicit
     tie-break input `tb` of the writer model (DESIGN section 3), the members are ints *)
| KeyedTieBreak (lemma : string)
  (* not covered by a theorem (unmodelled heuristic).  The members are ints or tuples of ints: their hash is seed free
     and the iteration order is a function of the construction history, which is the same in every process.  Checked
     by the differential runs only. *)
| IntHistory (note : string)
  (* hash() of ints / bools / tuples of those: a pure function of the value (Model.PyHash, exact correspondence) *)
| HashOfInts
  (* hash() of a str: seed dependent BY DESIGN of CPython; the note says why no observable of the property sees it *)
| HashOfStr (note : string)
  (* set of str (or of objects hashed through a str, such as molecules): order is seed dependent; the note says when
     it has more than one member *)
| StrSet (note : string).

Definition site : Type := string * string * string.      (* file, function, kind + normalised source text *)
Definition site_eqb (a b : site) : bool :=
  let '(f1, q1, t1) := a in let '(f2, q2, t2) := b in
  String.eqb f1 f2 && String.eqb q1 q2 && String.eqb t1 t2.

Open Scope string_scope.

Definition f_morgan := "chython/algorithms/morgan.py".
Definition f_smiles := "chython/algorithms/smiles.py".
Definition f_rings := "chython/algorithms/rings.py".
Definition f_linear := "chython/algorithms/fingerprints/linear.py".
Definition f_mfp := "chython/algorithms/fingerprints/morgan.py".
Definition f_iso := "chython/algorithms/isomorphism.py".
Definition f_element := "chython/periodictable/base/element.py".
Definition f_rxnstd := "chython/algorithms/standardize/reaction.py".

Definition rings_note := "unmodelled SSSR heuristic; sets of atom numbers (ints); C06 checks every output with the verified basis checker".

Definition allow_list : list (site * reason) := [
  (* ---- morgan.py : only int / tuple-of-int hashing ---- *)
  ((f_morgan, "Morgan.atoms_order", "hash hash(a)"), HashOfInts);                 (* Element.__hash__: tuple of ints/bools *)
  ((f_morgan, "Morgan.int_adjacency", "hash hash(b)"), HashOfInts);               (* Bond.__hash__ = order *)
  ((f_morgan, "_morgan", "hash hash((atoms[n], *(x for x in sorted(((atoms[m], b) for m, b in ms.items())) for x in x)))"), HashOfInts);
  ((f_element, "Element.__hash__", "hash hash((self.isotope or 0, self.atomic_number, self.charge, self.is_radical, self.implicit_hydrogens or 0, self.in_ring))"), HashOfInts);
  (* ---- smiles.py ---- *)
  ((f_smiles, "Smiles.__hash__", "hash hash(str(self))"),
     HashOfStr "hash(molecule) is seed dependent like every str hash; it is consumed only by dict/set membership (automorphism filter uses frozensets of ints, not molecules); no ordering decision reads it");
  ((f_smiles, "Smiles._smiles", "for for n in atoms_set"), OrderFree "group_sizes_perm");          (* groups[weights(n)] -= 1 *)
  ((f_smiles, "Smiles._smiles", "call min(atoms_set, key=mod_weights_start)"), KeyedTieBreak "min_by_perm");
  ((f_smiles, "Smiles._smiles", "for for m in bonds[n].keys() - seen.keys()"), OrderFree "bfs_level_perm");   (* seen[m] = d: the same d for every m *)
  ((f_smiles, "Smiles._smiles", "call sorted(front, key=lambda x, c=child: (mod_weights(x), int(bonds[c][x])))"), KeyedTieBreak "sort_by_perm");   (* ties left: equal weight AND equal bond order to the parent *)
  ((f_smiles, "MoleculeSmiles.sticky_smiles", "for for m in bonds[n].keys() - seen.keys()"), OrderFree "bfs_level_perm");
  (* ---- rings.py ---- *)
  ((f_rings, "Rings.rings_graph", "pop atoms.pop()"), IntHistory "DFS start atom; the result (atoms on cycles) is compared across seeds only");
  ((f_rings, "Rings.rings_graph", "for for n in bonds[c]"), IntHistory "DFS neighbour order; result compared across seeds only");
  ((f_rings, "Rings.rings_graph", "for for n in bonds.keys() - in_rings"), OrderFree "remove_vertices_perm");  (* deleting a set of vertices *)
  ((f_rings, "Rings.rings_graph", "for for m in bonds.pop(n)"), OrderFree "discard_all_perm");
  ((f_rings, "_connected_components", "pop atoms.pop()"), OrderFree "components_partition");        (* C06: for ANY pop order *)
  ((f_rings, "_connected_components", "for for i in bonds[current]"), OrderFree "components_partition");
  ((f_rings, "_skin_graph", "for for m in bonds.pop(n)"), OrderFree "discard_all_perm");
  ((f_rings, "_bfs", "for for x in bonds[tail] & atoms"), IntHistory rings_note);
  ((f_rings, "_bfs", "pop atoms.pop()"), IntHistory rings_note);
  ((f_rings, "_bfs", "pop neighbors.pop()"), OrderFree "singleton_enum");                           (* len(neighbors) == 1 *)
  ((f_rings, "_bfs", "for for n in neighbors"), IntHistory rings_note);
  ((f_rings, "_bfs", "pop atoms.pop() #2"), IntHistory rings_note);
  ((f_rings, "_is_condensed_ring", "for for n in common"), OrderFree "filter_set_perm");            (* builds a set by filtering *)
  ((f_rings, "_is_condensed_ring", "call iter(nbrs)"), IntHistory rings_note);
  ((f_rings, "_is_condensed_ring", "unpack n, m = term"), IntHistory rings_note);
  ((f_rings, "_is_condensed_ring", "unpack n, m = common"), IntHistory rings_note);
  ((f_rings, "_is_condensed_ring", "call iter(neighbors[child])"), IntHistory rings_note);
  ((f_rings, "_connected_rings", "unpack n, m = common"), IntHistory rings_note);
  ((f_rings, "_rings_filter", "for for c in seen_rings"), OrderFree "lookup_table_perm");           (* builds a dict that is only looked up by key *)
  (* ---- fingerprints ---- *)
  ((f_linear, "LinearFingerprint.linear_fingerprint", "call list(bits)"), OrderFree "index_set_perm");       (* fingerprints[list(bits)] = 1 *)
  ((f_linear, "LinearFingerprint.linear_bit_set", "for for tpl in hashes"), OrderFree "set_of_map_perm");     (* active_bits.add(...) *)
  ((f_linear, "LinearFingerprint.linear_hash_set", "hash hash((*tpl, cnt))"), HashOfInts);
  ((f_linear, "LinearFingerprint.linear_hash_smiles", "hash hash((*frg, cnt))"), HashOfInts);
  ((f_linear, "LinearFingerprint.linear_hash_smiles", "call sorted(v)"), OrderFree "sorted_str_perm");    (* set of str, sorted: repaired by fix 59bbd7c *)
  ((f_linear, "LinearFingerprint._chains", "call deque(arr)"), OrderFree "chains_insertion_order_free");       (* C17 *)
  ((f_linear, "LinearFingerprint._fragments", "for for frag in self._chains(min_radius, max_radius)"),
     IntHistory "dict of lists filled in set order: keys and per-key multisets are order free (C17_fragments_*), the insertion order of the dict and of each list follows the int-tuple set");
  ((f_mfp, "MorganFingerprint.morgan_fingerprint", "call list(bits)"), OrderFree "index_set_perm");
  ((f_mfp, "MorganFingerprint.morgan_bit_set", "for for tpl in self.morgan_hash_set(min_radius, max_radius)"), OrderFree "set_of_map_perm");
  ((f_mfp, "MorganFingerprint.morgan_hash_smiles", "call sorted(v)"), OrderFree "sorted_str_perm");       (* was list(v): seed dependent until fix 59bbd7c *)
  ((f_mfp, "MorganFingerprint._morgan_hash_dict", "hash hash((tpl, *(x for x in sorted(((int(b), identifiers[ngb]) for ngb, b in bonds[idx].items())) for x in x)))"), HashOfInts);
  (* ---- isomorphism.py ---- *)
  ((f_iso, "MoleculeIsomorphism._cython_compiled_structure", "for for r in a.ring_sizes"), OrderFree "ring_mask_perm");   (* v4 |= 1 << (65 - r) *)
  ((f_iso, "QueryIsomorphism._cython_compiled_query", "for for r in a.ring_sizes"), OrderFree "ring_mask_perm");
  (* ---- standardize/reaction.py (outside the anchors; listed because it IS seed dependent) ---- *)
  ((f_rxnstd, "StandardizeReaction.__remove_reagents_rules", "call tmp.extend(reagents_st2)"),
     StrSet "GENUINE seed dependence (known finding C19 seed-dependent:rxn-op:remove_reagents): a set of MoleculeContainer, hashed by hash(str(mol)), is appended to the reagents list in set order");
  ((f_rxnstd, "StandardizeReaction.__remove_reagents_mapping", "call tmp.extend(reagents)"),
     StrSet "GENUINE seed dependence (known finding C19 seed-dependent:rxn-op:remove_reagents): same construction in the mapping based variant")
].

(* lemmas an OrderFree / KeyedTieBreak reason may name: each is a theorem of Props.C19 (C19_<name>) *)
Definition known_lemmas : list string :=
  ["group_sizes_perm"; "min_by_perm"; "bfs_level_perm"; "sort_by_perm"; "remove_vertices_perm"; "discard_all_perm"; "components_partition";
   "singleton_enum"; "filter_set_perm"; "lookup_table_perm"; "index_set_perm"; "set_of_map_perm";
   "chains_insertion_order_free"; "ring_mask_perm"; "sorted_str_perm"].

Close Scope string_scope.

Definition audit_ok (audit : list site) : bool :=
  forallb (fun s => existsb (site_eqb s) (map fst allow_list)) audit.
Definition allow_tight (audit : list site) : bool :=
  forallb (fun a => existsb (site_eqb (fst a)) audit) allow_list.
Definition reason_lemma (r : reason) : option string :=
  match r with OrderFree l | KeyedTieBreak l => Some l | _ => None end.
Definition reasons_known : bool :=
  forallb (fun a => match reason_lemma (snd a) with
                    | Some l => existsb (String.eqb l) known_lemmas
                    | None => true end) allow_list.
Fixpoint nodup_sites (l : list site) : bool :=
  match l with [] => true | x :: r => negb (existsb (site_eqb x) r) && nodup_sites r end.

(* sites whose reason is not a theorem (reported in the evidence) *)
Definition untheorem_sites : list site :=
  map fst (filter (fun a => match snd a with IntHistory _ | StrSet _ => true | _ => false end) allow_list).

(* ------------------------------------------------------------------------------------------------------------ *)
(* (2) generic idioms *)

(* `for x in S: state = body(state, x)` where `enum` is the order in which this run happens to enumerate S *)
Definition loop {A X : Type} (body : A -> X -> A) (enum : list X) (init : A) : A := fold_left body enum init.

(* sorted(l, key=k): stable insertion sort on an integer key *)
Section Keyed.
  Context {X : Type}.
  Variable key : X -> Z.
  Fixpoint insert_by (x : X) (l : list X) : list X :=
    match l with
    | [] => [x]
    | y :: r => if key x <=? key y then x :: y :: r else y :: insert_by x r
    end.
  Definition sort_by (l : list X) : list X := fold_right insert_by [] l.
  (* min(l, key=k): the FIRST element of minimal key; None stands for ValueError on an empty argument *)
  Fixpoint min_by (l : list X) : option X :=
    match l with
    | [] => None
    | x :: r => match min_by r with
                | None => Some x
                | Some y => if key x <=? key y then Some x else Some y
                end
    end.
End Keyed.

(* sorted(l) for elements compared by a total order `leb` (str, tuples): stable insertion sort *)
Section SortLeb.
  Context {X : Type}.
  Variable leb : X -> X -> bool.
  Fixpoint insert_leb (x : X) (l : list X) : list X :=
    match l with
    | [] => [x]
    | y :: r => if leb x y then x :: y :: r else y :: insert_leb x r
    end.
  Definition sort_leb (l : list X) : list X := fold_right insert_leb [] l.
End SortLeb.
(* sorted(v) for a set v of (ASCII) str: Python compares str by code points = String.leb *)
Definition sorted_str (enum : list string) : list string := sort_leb String.leb enum.

(* lexicographic keys (tuples) are compared through an order-embedding into Z by the callers; the writer's keys
   (groups, weight, bfs level) are bounded ints, see `pack3` *)
Definition pack3 (B : Z) (a b c : Z) : Z := (a * B + b) * B + c.

(* `n, m = s` for a set of two members: one of the two enumerations *)
Definition unpack2 {X R : Type} (f : X -> X -> R) (enum : list X) : option R :=
  match enum with [a; b] => Some (f a b) | _ => None end.

(* ---- the memoisation layer ----
   state S of the object (atoms, bonds), keys K = names of cached attributes, `derive k s` = what the property body
   computes from the state.  The cache is the instance __dict__. *)
Section Memo.
  Context {S K V : Type}.
  Variable keqb : K -> K -> bool.
  Variable derive : K -> S -> V.
  Definition cache := list (K * V).
  Fixpoint clookup (c : cache) (k : K) : option V :=
    match c with [] => None | (k', v) :: r => if keqb k k' then Some v else clookup r k end.
  (* attribute read through cached_property / cached_method *)
  Definition read (s : S) (c : cache) (k : K) : V * cache :=
    match clookup c k with
    | Some v => (v, c)
    | None => let v := derive k s in (v, (k, v) :: c)
    end.
  (* operations of a history: a read, a mutation (every mutator ends with flush_cache), an explicit flush, and a
     read that also stores other keys (str(mol) stores smiles_atoms_order and vice versa) *)
  Inductive op := Read (k : K) | ReadStoring (k : K) (also : list K) | Mutate (f : S -> S) | Flush.
  Definition store_all (s : S) (c : cache) (ks : list K) : cache :=
    fold_left (fun c k => (k, derive k s) :: c) ks c.
  Fixpoint run (s : S) (c : cache) (ops : list op) : list V :=
    match ops with
    | [] => []
    | Read k :: r => let '(v, c') := read s c k in v :: run s c' r
    | ReadStoring k also :: r =>
        let '(v, c') := read s c k in
        (* the body stores the companions only when it actually runs *)
        let c'' := match clookup c k with Some _ => c' | None => store_all s c' also end in
        v :: run s c'' r
    | Mutate f :: r => run (f s) [] r
    | Flush :: r => run s [] r
    end.
  (* the same history without any cache *)
  Fixpoint run_uncached (s : S) (ops : list op) : list V :=
    match ops with
    | [] => []
    | Read k :: r | ReadStoring k _ :: r => derive k s :: run_uncached s r
    | Mutate f :: r => run_uncached (f s) r
    | Flush :: r => run_uncached s r
    end.
  (* cache invariant: whatever is stored is what the body would compute now *)
  Definition cache_ok (s : S) (c : cache) : Prop := forall k v, clookup c k = Some v -> v = derive k s.
End Memo.
Arguments Read {S K} k.
Arguments ReadStoring {S K} k also.
Arguments Mutate {S K} f.
Arguments Flush {S K}.

(* ------------------------------------------------------------------------------------------------------------ *)
(* (3) concrete instances *)

(* isomorphism.py: `for r in a.ring_sizes: if r > 65: continue; v4 |= 1 << (65 - r)` *)
Definition ring_mask_step (v4 r : Z) : Z := if r >? 65 then v4 else Z.lor v4 (Z.shiftl 1 (65 - r)).
Definition ring_mask (enum : list Z) : Z :=
  let v4 := loop ring_mask_step enum 0 in
  if v4 =? 0 then 9223372036854775808 else v4.          (* not v4 -> 0x8000000000000000 *)

(* smiles.py: groups = defaultdict(int); for n in atoms_set: groups[weights(n)] -= 1 *)
Fixpoint dec_group (d : list (Z * Z)) (w : Z) : list (Z * Z) :=
  match d with
  | [] => [(w, -1)]
  | (k, v) :: r => if w =? k then (k, v - 1) :: r else (k, v) :: dec_group r w
  end.
Fixpoint glookup (d : list (Z * Z)) (w : Z) : Z :=
  match d with [] => 0 | (k, v) :: r => if w =? k then v else glookup r w end.
Definition group_sizes (weights : Z -> Z) (enum : list Z) : list (Z * Z) :=
  loop (fun d n => dec_group d (weights n)) enum [].

(* smiles.py: for m in bonds[n].keys() - seen.keys(): queue.append((m, d + 1)); seen[m] = d *)
Definition bfs_level_step (d : Z) (seen : list (Z * Z)) (m : Z) : list (Z * Z) := seen ++ [(m, d)].
Definition bfs_levels (d : Z) (enum : list Z) (seen : list (Z * Z)) : list (Z * Z) := loop (bfs_level_step d) enum seen.
Fixpoint first_value (d : list (Z * Z)) (k : Z) : option Z :=
  match d with [] => None | (k', v) :: r => if k =? k' then Some v else first_value r k end.

(* a set represented canonically: sorted, duplicate free *)
Fixpoint set_insert (x : Z) (l : list Z) : list Z :=
  match l with
  | [] => [x]
  | y :: r => if x <? y then x :: y :: r else if x =? y then y :: r else y :: set_insert x r
  end.
Definition set_add (l : list Z) (x : Z) : list Z := set_insert x l.
(* {g(x) for x in S} built by add() in enumeration order *)
Definition set_of_map (g : Z -> list Z) (enum : list Z) : list Z :=
  loop (fun acc x => fold_left set_add (g x) acc) enum [].
(* linear_bit_set / morgan_bit_set with number_active_bits == 2: tpl & mask, (tpl >> log) & mask *)
Definition two_bits (mask log tpl : Z) : list Z := [Z.land tpl mask; Z.land (Z.shiftr tpl log) mask].

(* fingerprints[list(bits)] = 1 on a zero vector: position i is 1 iff i is a member, whatever the order *)
Definition set_bits (enum : list Z) (len : nat) : list bool :=
  map (fun i => existsb (Z.eqb (Z.of_nat i)) enum) (seq 0 len).
Fixpoint assign_from (start : Z) (v : list bool) (i : Z) : list bool :=
  match v with
  | [] => []
  | b :: r => (if start =? i then true else b) :: assign_from (start + 1) r i
  end.
Definition assign_bit (v : list bool) (i : Z) : list bool := assign_from 0 v i.
Definition index_assign (enum : list Z) (len : nat) : list bool := loop assign_bit enum (repeat false len).

(* `for m in bonds.pop(n): bonds[m].discard(n)` (the row of n itself is already popped) *)
Definition without (n : Z) (l : list Z) : list Z := filter (fun x => negb (x =? n)) l.
Definition discard_row (n : Z) (d : list (Z * list Z)) (m : Z) : list (Z * list Z) :=
  map (fun kv => if fst kv =? m then (fst kv, without n (snd kv)) else kv) d.
Definition discard_all (n : Z) (d : list (Z * list Z)) (enum : list Z) : list (Z * list Z) := loop (discard_row n) enum d.
(* `for n in S: for m in bonds.pop(n): bonds[m].discard(n)` on a symmetric adjacency: vertex n disappears *)
Definition remove_vertex (d : list (Z * list Z)) (n : Z) : list (Z * list Z) :=
  map (fun kv => (fst kv, without n (snd kv))) (filter (fun kv => negb (fst kv =? n)) d).
Definition remove_vertices (d : list (Z * list Z)) (enum : list Z) : list (Z * list Z) := loop remove_vertex enum d.

(* `{n for n in common if p n}` *)
Definition filter_set (p : Z -> bool) (enum : list Z) : list Z :=
  loop (fun acc n => if p n then set_add acc n else acc) enum [].

(* `{c: f(c) for c in S}` used only through lookups *)
Definition table_of {V : Type} (f : Z -> V) (enum : list Z) : list (Z * V) := loop (fun d c => d ++ [(c, f c)]) enum [].
Fixpoint tlookup {V : Type} (d : list (Z * V)) (k : Z) : option V :=
  match d with [] => None | (k', v) :: r => if k =? k' then Some v else tlookup r k end.
