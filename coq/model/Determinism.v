(* C19 -- results are identical across processes, hash seeds and repeated calls.

   Three things live here (definitions only; proofs in Proofs.DeterminismProofs):

   (1) the hand-written ALLOW-LIST of the static audit.  tools/gen_setaudit.py lists, from the Python AST of the
       anchored files, every place where the iteration order of a set / frozenset / dict-view difference can reach a
       result (for / min / max / sorted / next / iter / list / tuple / deque / ... / pop() / unpacking) and every call
       of the builtin hash(); the list is Gen.SetAudit.audit.  Every such site must appear below with the REASON why
       it cannot make a result depend on the hash seed or on the process.  `audit_ok` / `allow_tight` compare the two
       lists in both directions, so a new, edited or vanished site stops the build (fail closed).

   (2) generic executable models of the Python idioms the reasons refer to: a loop over a set as a left fold over
       ANY enumeration of the set, sorted(key=...), min(key=...), a two-element unpack, and the memoisation layer
       (functools.cached_property / CachedMethods.cached_method storing into Graph.__dict__, Graph.flush_cache
       clearing it, Graph.copy starting from an empty one).

   (3) the small concrete instances used by the correspondence (bit mask of ring sizes, weight groups of _smiles, BFS
       levels of _smiles).

   How the hash seed can enter at all (CPython 3.12): only str/bytes hashing is randomised by PYTHONHASHSEED, and only
   objects without __hash__ hash by address.  hash() of ints, bools and tuples of those is a pure function (modelled
   bit-exactly in Model.PyHash); dicts iterate in insertion order.  So a result can differ between seeds/processes
   only through (a) the ITERATION ORDER of a set whose members are str (or address-hashed objects), or (b) the VALUE
   of hash(str) used in a decision.  Sets of ints iterate in an order that is a function of their construction
   history alone (not modelled: taken as an explicit input / quantified over, see DESIGN section 3). *)
From Coq Require Import ZArith List String Bool.
Import ListNotations.
Open Scope Z_scope.

(* ------------------------------------------------------------------------------------------------------------ *)
(* (1) audit vocabulary *)

Inductive reason :=
  (* the value computed by the loop / call is the same for EVERY enumeration order of the set: proved by the lemma
     of Proofs.DeterminismProofs (or of another property's proof file, restated in Props.C19) that is named *)
| OrderFree (lemma : string)
  (* sorted(..., key=k) / min(..., key=k): the result depends on the order only between elements of EQUAL key; the
     named lemma proves order independence for an injective key and key-determinacy otherwise; ties are the explicit
     tie-break input `tb` of the writer model (DESIGN section 3), the members are ints *)
| KeyedTieBreak (lemma : string)
  (* proved order free UP TO the equivalence the lemma states (same keys, same members per key, ...); the note says what
     the equivalence forgets and which consumer could see it *)
| OrderFreeUpTo (lemma : string) (note : string)
  (* proved in the props file of the property that owns the model (named theorem), not re-stated here *)
| OtherProperty (theorem : string)
  (* the same, where the theorem states the result up to an equivalence (the note says what it forgets) *)
| OtherPropertyUpTo (theorem : string) (note : string)
  (* order free by the named lemma UNDER hypotheses that the surrounding code establishes by a guard / invariant that is not
     modelled here (the note lists them) *)
| OrderFreeIf (lemma : string) (hypotheses : string)
  (* not a set at this place: the flow-insensitive typing of the audit over-approximates (the note says why) *)
| FalsePositive (note : string)
  (* not covered by a theorem (unmodelled heuristic).  The members are ints or tuples of ints: their hash is seed free
     and the iteration order is a function of the construction history, which is the same in every process.  Checked
     by the differential runs only. *)
| IntHistory (note : string)
  (* hash() of ints / bools / tuples of those: a pure function of the value (Model.PyHash, exact correspondence) *)
| HashOfInts
  (* hash() of a str: seed dependent BY DESIGN of CPython; the note says why no observable of the property sees it *)
| HashOfStr (note : string)
  (* set of str (or of objects hashed through a str, such as molecules): order is seed dependent; the note says when
     it has more than one member *)
| StrSet (note : string).

Definition site : Type := string * string * string.      (* file, function, kind + normalised source text *)
Definition site_eqb (a b : site) : bool :=
  let '(f1, q1, t1) := a in let '(f2, q2, t2) := b in
  String.eqb f1 f2 && String.eqb q1 q2 && String.eqb t1 t2.

Open Scope string_scope.

Definition f_morgan := "chython/algorithms/morgan.py".
Definition f_smiles := "chython/algorithms/smiles.py".
Definition f_rings := "chython/algorithms/rings.py".
Definition f_linear := "chython/algorithms/fingerprints/linear.py".
Definition f_mfp := "chython/algorithms/fingerprints/morgan.py".
Definition f_iso := "chython/algorithms/isomorphism.py".
Definition f_element := "chython/periodictable/base/element.py".
Definition f_rxnstd := "chython/algorithms/standardize/reaction.py".

Definition rings_note := "unmodelled SSSR heuristic; sets of atom numbers (ints); C06 checks every output with the verified basis checker".

Definition allow_list : list (site * reason) := [
  (* ---- morgan.py : only int / tuple-of-int hashing ---- *)
  ((f_morgan, "Morgan.atoms_order", "hash hash(a)"), HashOfInts);                 (* Element.__hash__: tuple of ints/bools *)
  ((f_morgan, "Morgan.int_adjacency", "hash hash(b)"), HashOfInts);               (* Bond.__hash__ = order *)
  ((f_morgan, "_morgan", "hash hash((atoms[n], *(x for x in sorted(((atoms[m], b) for m, b in ms.items())) for x in x)))"), HashOfInts);
  ((f_element, "Element.__hash__", "hash hash((self.isotope or 0, self.atomic_number, self.charge, self.is_radical, self.implicit_hydrogens or 0, self.in_ring))"), HashOfInts);
  (* ---- smiles.py ---- *)
  ((f_smiles, "Smiles.__hash__", "hash hash(str(self))"),
     HashOfStr "hash(molecule) is seed dependent like every str hash; it is consumed only by dict/set membership (automorphism filter uses frozensets of ints, not molecules); no ordering decision reads it");
  ((f_smiles, "Smiles._smiles", "for for n in atoms_set"), OrderFree "group_sizes_perm");          (* groups[weights(n)] -= 1 *)
  ((f_smiles, "Smiles._smiles", "call min(atoms_set, key=mod_weights_start)"), KeyedTieBreak "min_by_perm");
  ((f_smiles, "Smiles._smiles", "for for m in bonds[n].keys() - seen.keys()"), OrderFree "bfs_level_perm");   (* seen[m] = d: the same d for every m *)
  ((f_smiles, "Smiles._smiles", "call sorted(front, key=lambda x, c=child: (mod_weights(x), int(bonds[c][x])))"), KeyedTieBreak "sort_by_perm");   (* ties left: equal weight AND equal bond order to the parent *)
  ((f_smiles, "MoleculeSmiles.sticky_smiles", "for for m in bonds[n].keys() - seen.keys()"), OrderFree "bfs_level_perm");
  (* ---- rings.py ---- *)
  ((f_rings, "Rings.rings_graph", "pop atoms.pop()"), IntHistory "DFS start atom; the result (atoms on cycles) is compared across seeds only");
  ((f_rings, "Rings.rings_graph", "for for n in bonds[c]"), IntHistory "DFS neighbour order; result compared across seeds only");
  ((f_rings, "Rings.rings_graph", "for for n in bonds.keys() - in_rings"), OrderFree "remove_vertices_perm");  (* deleting a set of vertices *)
  ((f_rings, "Rings.rings_graph", "for for m in bonds.pop(n)"), OrderFree "discard_all_perm");
  ((f_rings, "_connected_components", "pop atoms.pop()"), OrderFree "components_partition");        (* C06: for ANY pop order *)
  ((f_rings, "_connected_components", "for for i in bonds[current]"), OrderFree "components_partition");
  ((f_rings, "_skin_graph", "for for m in bonds.pop(n)"), OrderFree "discard_all_perm");
  ((f_rings, "_bfs", "for for x in bonds[tail] & atoms"), IntHistory rings_note);
  ((f_rings, "_bfs", "pop atoms.pop()"), IntHistory rings_note);
  ((f_rings, "_bfs", "pop neighbors.pop()"), OrderFree "singleton_enum");                           (* len(neighbors) == 1 *)
  ((f_rings, "_bfs", "for for n in neighbors"), IntHistory rings_note);
  ((f_rings, "_bfs", "pop atoms.pop() #2"), IntHistory rings_note);
  ((f_rings, "_is_condensed_ring", "for for n in common"), OrderFree "filter_set_perm");            (* builds a set by filtering *)
  ((f_rings, "_is_condensed_ring", "call iter(nbrs)"), IntHistory rings_note);
  ((f_rings, "_is_condensed_ring", "unpack n, m = term"), IntHistory "same expression as in _connected_rings (merged_ring_sym), but that n-m is a bond of both REDUCED rings is not established here");
  ((f_rings, "_is_condensed_ring", "unpack n, m = common"), IntHistory "same expression as in _connected_rings, but without the guard that n-m is a common bond: NOT order free then (C19_merged_ring_unguarded_refuted); int set, differential only");
  ((f_rings, "_is_condensed_ring", "call iter(neighbors[child])"), IntHistory rings_note);
  ((f_rings, "_connected_rings", "unpack n, m = common"),
     OrderFreeIf "merged_ring_sym" "both rings are duplicate-free spellings of >= 3 atoms, share exactly the two atoms (len(common) == 2) and n-m is a bond of both (the guard `m in ck[n] and m in rk[n]`, symmetric because _ring_adjacency is)");
  ((f_rings, "_rings_filter", "for for c in seen_rings"), OrderFree "lookup_table_perm");           (* builds a dict that is only looked up by key *)
  (* ---- fingerprints ---- *)
  ((f_linear, "LinearFingerprint.linear_fingerprint", "call list(bits)"), OrderFree "index_set_perm");       (* fingerprints[list(bits)] = 1 *)
  ((f_linear, "LinearFingerprint.linear_bit_set", "for for tpl in hashes"), OrderFree "set_of_map_perm");     (* active_bits.add(...) *)
  ((f_linear, "LinearFingerprint.linear_hash_set", "hash hash((*tpl, cnt))"), HashOfInts);
  ((f_linear, "LinearFingerprint.linear_hash_smiles", "hash hash((*frg, cnt))"), HashOfInts);
  ((f_linear, "LinearFingerprint.linear_hash_smiles", "call sorted(v)"), OrderFree "sorted_str_perm");    (* set of str, sorted: repaired by fix 59bbd7c *)
  ((f_linear, "LinearFingerprint._chains", "call deque(arr)"), OrderFree "chains_insertion_order_free");       (* C17 *)
  ((f_linear, "LinearFingerprint._fragments", "for for frag in self._chains(min_radius, max_radius)"),
     OrderFreeUpTo "fragments_of_perm" "keys and the members of every list are order free, and so is linear_hash_set, which reads only len() (fragments_hash_set_perm); the insertion order of the dict and the order inside one list follow the int-tuple set: linear_hash_smiles reads chains[0] (fragments_first_chain_order_dependent)");
  ((f_mfp, "MorganFingerprint.morgan_fingerprint", "call list(bits)"), OrderFree "index_set_perm");
  ((f_mfp, "MorganFingerprint.morgan_bit_set", "for for tpl in self.morgan_hash_set(min_radius, max_radius)"), OrderFree "set_of_map_perm");
  ((f_mfp, "MorganFingerprint.morgan_hash_smiles", "call sorted(v)"), OrderFree "sorted_str_perm");       (* was list(v): seed dependent until fix 59bbd7c *)
  ((f_mfp, "MorganFingerprint._morgan_hash_dict", "hash hash((tpl, *(x for x in sorted(((int(b), identifiers[ngb]) for ngb, b in bonds[idx].items())) for x in x)))"), HashOfInts);
  (* ---- isomorphism.py ---- *)
  ((f_iso, "MoleculeIsomorphism._cython_compiled_structure", "for for r in a.ring_sizes"), OrderFree "ring_mask_perm");   (* v4 |= 1 << (65 - r) *)
  ((f_iso, "QueryIsomorphism._cython_compiled_query", "for for r in a.ring_sizes"), OrderFree "ring_mask_perm");
  (* fix d9d8bf3: `any(r > 65 for _, a in other.atoms() for r in a.ring_sizes) or any(... self.atoms() ... for r in a.ring_sizes)`: any() scans *)
  ((f_iso, "QueryIsomorphism.get_mapping", "for for r in a.ring_sizes"), OrderFree "existsb_perm");
  ((f_iso, "QueryIsomorphism.get_mapping", "for for r in a.ring_sizes #2"), OrderFree "existsb_perm");
  (* ---- standardize/reaction.py (outside the anchors; listed because it IS seed dependent) ---- *)
  ((f_rxnstd, "StandardizeReaction.__remove_reagents_rules", "call tmp.extend(reagents_st2)"),
     StrSet "GENUINE seed dependence (known finding C19 seed-dependent:rxn-op:remove_reagents): a set of MoleculeContainer, hashed by hash(str(mol)), is appended to the reagents list in set order");
  ((f_rxnstd, "StandardizeReaction.__remove_reagents_mapping", "call tmp.extend(reagents)"),
     StrSet "GENUINE seed dependence (known finding C19 seed-dependent:rxn-op:remove_reagents): same construction in the mapping based variant");
  (* ==== extension round: the other .py files anchored by any of the 20 properties ==== *)
  (* ---- chython/algorithms/aromatics/kekule.py ---- *)
  (("chython/algorithms/aromatics/kekule.py", "Kekule.kekule", "for for n in atoms"), OrderFree "pointwise_update_perm");
  (("chython/algorithms/aromatics/kekule.py", "Kekule.enumerate_kekule", "for for n in atoms"), OrderFree "pointwise_update_perm");
  (("chython/algorithms/aromatics/kekule.py", "Kekule.__prepare_rings", "for for n in double_bonded"), OrderFree "existsb_perm");
  (("chython/algorithms/aromatics/kekule.py", "Kekule.__prepare_rings", "for for n in double_bonded #2"), OrderFree "existsb_perm");
  (("chython/algorithms/aromatics/kekule.py", "Kekule.__kekule_full", "pop atoms.pop()"), IntHistory "start atom of the component search: order of the components, each is solved independently (Kekule search itself is the unmodelled heuristic of C05)");
  (* ---- chython/algorithms/aromatics/thiele.py ---- *)
  (("chython/algorithms/aromatics/thiele.py", "Thiele.thiele", "for for n in rings[current]"), IntHistory "DFS over ring neighbours in fix_tautomers: which donor/acceptor path is found first");
  (("chython/algorithms/aromatics/thiele.py", "Thiele.thiele", "for for n in rings[start]"), IntHistory "DFS over ring neighbours in fix_tautomers: which donor/acceptor path is found first");
  (("chython/algorithms/aromatics/thiele.py", "Thiele.thiele", "for for n in double_bonded"), OrderFree "remove_vertices_perm");
  (("chython/algorithms/aromatics/thiele.py", "Thiele.thiele", "for for m in rings.pop(n)"), OrderFree "discard_all_perm");
  (("chython/algorithms/aromatics/thiele.py", "Thiele.thiele", "pop rings.pop(n).pop()"), OrderFree "singleton_enum");
  (("chython/algorithms/aromatics/thiele.py", "Thiele.thiele", "for for x in pm"), OrderFree "discard_all_perm");
  (* ---- chython/algorithms/fingerprints/__init__.py ---- *)
  (("chython/algorithms/fingerprints/__init__.py", "Fingerprints._atom_identifiers", "hash hash((atom.isotope or 0, atom.atomic_number, atom.charge, atom.is_radical))"), HashOfInts);
  (("chython/algorithms/fingerprints/__init__.py", "FingerprintsCGR._atom_identifiers", "hash hash((atom.isotope or 0, atom.atomic_number, atom.charge, atom.p_charge, atom.is_radical, atom.p_is_radical))"), HashOfInts);
  (* ---- chython/algorithms/standardize/molecule.py ---- *)
  (("chython/algorithms/standardize/molecule.py", "Standardize.standardize", "call tuple(b)"), IntHistory "atom numbers of a log entry / error message in int-set order (logging=True output)");
  (("chython/algorithms/standardize/molecule.py", "Standardize.standardize", "call tuple(fixed)"), IntHistory "atom numbers of a log entry / error message in int-set order (logging=True output)");
  (("chython/algorithms/standardize/molecule.py", "Standardize.implicify_hydrogens", "for for n in to_remove"), OrderFree "remove_vertices_perm");
  (("chython/algorithms/standardize/molecule.py", "Standardize.__standardize", "call tuple(match)"), IntHistory "atom numbers of a log entry / error message in int-set order (logging=True output)");
  (("chython/algorithms/standardize/molecule.py", "Standardize.__standardize", "call tuple(match) #2"), IntHistory "atom numbers of a log entry / error message in int-set order (logging=True output)");
  (("chython/algorithms/standardize/molecule.py", "Standardize.__standardize", "for for n in hs"), OrderFree "pointwise_update_perm");
  (* ---- chython/algorithms/standardize/resonance.py ---- *)
  (("chython/algorithms/standardize/resonance.py", "Resonance.fix_resonance", "for for n in hs"), OrderFree "pointwise_update_perm");
  (("chython/algorithms/standardize/resonance.py", "Resonance.fix_resonance", "call list(hs)"), IntHistory "returned log list of changed atoms in int-set order (logging=True)");
  (* ---- chython/algorithms/standardize/salts.py ---- *)
  (("chython/algorithms/standardize/salts.py", "Salts.remove_acids", "call log.extend(c)"), IntHistory "deleted atoms log in component-set order (returned when logging=True); the deletion itself is order free");
  (("chython/algorithms/standardize/salts.py", "Salts.split_metal_salts", "for for m in acceptors & bonds[n].keys()"), IntHistory "which metal-acceptor bonds are broken first when the metal would exceed charge +4 (break inside the loop)");
  (* ---- chython/algorithms/stereo.py ---- *)
  (("chython/algorithms/stereo.py", "MoleculeStereo.cumulenes", "pop adj[n].pop()"), OrderFree "singleton_enum");
  (("chython/algorithms/stereo.py", "MoleculeStereo.cumulenes", "pop adj_m.pop()"), IntHistory "inner cumulene atom after discard(n): one member left when the atom has two double bonds (not proved here)");
  (("chython/algorithms/stereo.py", "MoleculeStereo.cumulenes", "pop adj[m].pop()"), OrderFree "singleton_enum");
  (("chython/algorithms/stereo.py", "MoleculeStereo.ring_tetrahedrons", "call tuple(environment[n].difference(atoms_rings))"), IntHistory "out-of-ring neighbours of a ring tetrahedron as a tuple in int-set order");
  (("chython/algorithms/stereo.py", "MoleculeStereo.calculate_cis_trans_from_2d", "for for nm in self.chiral_cis_trans"), OrderFree "pointwise_update_perm");
  (("chython/algorithms/stereo.py", "MoleculeStereo._chiral_morgan", "for for n in stereo_bonds"), OrderFree "set_of_map_perm");
  (("chython/algorithms/stereo.py", "MoleculeStereo.__chiral_centers", "for for nm in self.ring_cumulenes_terminals"), IntHistory "set of int pairs; body edits several sets/dicts keyed by the pair (stereogenicity detection is search-only in C12)");
  (("chython/algorithms/stereo.py", "MoleculeStereo.__chiral_centers", "for for m in graph.pop(n)"), OrderFree "discard_all_perm");
  (("chython/algorithms/stereo.py", "MoleculeStereo.__chiral_centers", "for for n in chiral_c"), OrderFree "filter_set_perm");
  (* ---- chython/algorithms/tautomers/acid_base.py ---- *)
  (("chython/algorithms/tautomers/acid_base.py", "AcidBase.enumerate_charged_forms", "call list(donors)"), IntHistory "enumeration order of donors/acceptors: order of the generated forms, and WHICH form neutralize() takes first for charge-unbalanced molecules");
  (("chython/algorithms/tautomers/acid_base.py", "AcidBase.enumerate_charged_forms", "call list(acceptors)"), IntHistory "enumeration order of donors/acceptors: order of the generated forms, and WHICH form neutralize() takes first for charge-unbalanced molecules");
  (("chython/algorithms/tautomers/acid_base.py", "AcidBase.enumerate_charged_forms", "call combinations(acceptors, r)"), IntHistory "enumeration order of donors/acceptors: order of the generated forms, and WHICH form neutralize() takes first for charge-unbalanced molecules");
  (("chython/algorithms/tautomers/acid_base.py", "AcidBase.enumerate_charged_forms", "call combinations(donors, r)"), IntHistory "enumeration order of donors/acceptors: order of the generated forms, and WHICH form neutralize() takes first for charge-unbalanced molecules");
  (("chython/algorithms/tautomers/acid_base.py", "AcidBase._neutralize", "for for n in acceptors"), OrderFree "pointwise_update_perm");
  (("chython/algorithms/tautomers/acid_base.py", "AcidBase._neutralize", "call combinations(donors, len(acceptors))"), IntHistory "enumeration order of donors/acceptors: order of the generated forms, and WHICH form neutralize() takes first for charge-unbalanced molecules");
  (("chython/algorithms/tautomers/acid_base.py", "AcidBase._neutralize", "for for n in donors"), OrderFree "pointwise_update_perm");
  (("chython/algorithms/tautomers/acid_base.py", "AcidBase._neutralize", "call combinations(acceptors, len(donors))"), IntHistory "enumeration order of donors/acceptors: order of the generated forms, and WHICH form neutralize() takes first for charge-unbalanced molecules");
  (("chython/algorithms/tautomers/acid_base.py", "AcidBase._neutralize", "for for n in donors #2"), OrderFree "pointwise_update_perm");
  (("chython/algorithms/tautomers/acid_base.py", "AcidBase._neutralize", "for for n in acceptors #2"), OrderFree "pointwise_update_perm");
  (("chython/algorithms/tautomers/acid_base.py", "AcidBase._neutralize", "for for n in donors #3"), OrderFree "pointwise_update_perm");
  (("chython/algorithms/tautomers/acid_base.py", "AcidBase._neutralize", "for for n in acceptors #3"), OrderFree "pointwise_update_perm");
  (("chython/algorithms/tautomers/acid_base.py", "AcidBase._enumerate_zwitter_tautomers", "call product(donors, acceptors)"), IntHistory "enumeration order of donors/acceptors: order of the generated forms, and WHICH form neutralize() takes first for charge-unbalanced molecules");
  (* ---- chython/algorithms/tautomers/heteroarenes.py ---- *)
  (("chython/algorithms/tautomers/heteroarenes.py", "HeteroArenes._enumerate_hetero_arene_tautomers", "pop atoms.pop()"), IntHistory "component / donor-acceptor pair enumeration order: order of the generated tautomers");
  (("chython/algorithms/tautomers/heteroarenes.py", "HeteroArenes._enumerate_hetero_arene_tautomers", "call product(component.keys() & donors, component.keys() & acceptors)"), IntHistory "component / donor-acceptor pair enumeration order: order of the generated tautomers");
  (* ---- chython/algorithms/tautomers/keto_enol.py ---- *)
  (("chython/algorithms/tautomers/keto_enol.py", "KetoEnol.__enumerate_bonds", "for for x in rings[x]"), OrderFree "forallb_perm");
  (("chython/algorithms/tautomers/keto_enol.py", "KetoEnol.__enumerate_bonds", "for for x in rings[x] #2"), OrderFree "forallb_perm");
  (* ---- chython/containers/bonds.py ---- *)
  (("chython/containers/bonds.py", "DynamicBond.__int__", "hash hash(self)"), HashOfInts);
  (("chython/containers/bonds.py", "DynamicBond.__hash__", "hash hash((self.order or 0, self.p_order or 0))"), HashOfInts);
  (("chython/containers/bonds.py", "QueryBond.__init__", "for for x in order"), OrderFree "forallb_perm");
  (("chython/containers/bonds.py", "QueryBond.__init__", "for for x in order #2"), OrderFree "existsb_perm");
  (("chython/containers/bonds.py", "QueryBond.__init__", "call sorted(set(order))"), OrderFree "sorted_ints_perm");
  (("chython/containers/bonds.py", "QueryBond.__int__", "hash hash(self.order)"), HashOfInts);
  (("chython/containers/bonds.py", "QueryBond.__hash__", "hash hash((self.order, self.in_ring))"), HashOfInts);
  (* ---- chython/containers/cgr.py ---- *)
  (("chython/containers/cgr.py", "CGRContainer.center_atoms", "call tuple(center)"), IntHistory "atom/bond insertion order of the sub-CGR / the center_atoms tuple follow the int set");
  (("chython/containers/cgr.py", "CGRContainer.substructure", "for for n in atoms"), IntHistory "atom/bond insertion order of the sub-CGR / the center_atoms tuple follow the int set");
  (("chython/containers/cgr.py", "CGRContainer.substructure", "for for n in atoms #2"), IntHistory "atom/bond insertion order of the sub-CGR / the center_atoms tuple follow the int set");
  (("chython/containers/cgr.py", "CGRContainer.augmented_substructure", "for for x in atoms"), OrderFree "set_of_map_perm");
  (* ---- chython/containers/molecule.py ---- *)
  (("chython/containers/molecule.py", "MoleculeContainer.compose", "for for n in self._atoms.keys() - common"), OtherPropertyUpTo "C15_compose_order_independent" "the composed CGR is the same dict of dicts; only the insertion order of its atoms and bonds follows the int sets");
  (("chython/containers/molecule.py", "MoleculeContainer.compose", "for for n in other._atoms.keys() - common"), OtherPropertyUpTo "C15_compose_order_independent" "the composed CGR is the same dict of dicts; only the insertion order of its atoms and bonds follows the int sets");
  (("chython/containers/molecule.py", "MoleculeContainer.compose", "for for n in common"), OtherPropertyUpTo "C15_compose_order_independent" "the composed CGR is the same dict of dicts; only the insertion order of its atoms and bonds follows the int sets");
  (("chython/containers/molecule.py", "MoleculeContainer.compose", "for for n in common #2"), OtherPropertyUpTo "C15_compose_order_independent" "the composed CGR is the same dict of dicts; only the insertion order of its atoms and bonds follows the int sets");
  (("chython/containers/molecule.py", "MoleculeContainer._augmented_substructure", "for for x in nodes[-1]"), OrderFree "set_of_map_perm");
  (* ---- chython/containers/reaction.py ---- *)
  (("chython/containers/reaction.py", "ReactionContainer.__hash__", "hash hash(str(self))"), HashOfStr "hash(reaction) is the hash of its canonical string: seed dependent by design of CPython, consumed only by dict/set membership (Reactor dedupes by str(r), not by hash order)");
  (* ---- chython/files/_mapping.py ---- *)
  (("chython/files/_mapping.py", "postprocess_parsed_reaction", "for for x in tmp"), FalsePositive "`tmp` is a list at this loop; the flow-insensitive typing sees the later `tmp = (set(...) | ...) & ...`");
  (("chython/files/_mapping.py", "postprocess_parsed_reaction", "for for m in tmp"), FalsePositive "`tmp` is a list at this loop; the flow-insensitive typing sees the later `tmp = (set(...) | ...) & ...`");
  (("chython/files/_mapping.py", "postprocess_parsed_reaction", "call sorted(set(range(1, next(length))) - set(maps['reactants']) - set(maps['products']) - set(maps['reagents']), reverse=True)"), OrderFree "sorted_ints_perm");
  (* ---- chython/files/daylight/smiles.py ---- *)
  (("chython/files/daylight/smiles.py", "smiles", "for for x in reactants"), OrderFree "pointwise_update_perm");
  (("chython/files/daylight/smiles.py", "smiles", "for for x in products"), OrderFree "pointwise_update_perm");
  (("chython/files/daylight/smiles.py", "smiles", "for for x in reagents"), OrderFree "pointwise_update_perm");
  (* ---- chython/periodictable/base/dynamic.py ---- *)
  (("chython/periodictable/base/dynamic.py", "DynamicElement.__hash__", "hash hash((self.isotope or 0, self.atomic_number, self.charge, self.p_charge, self.is_radical, self.p_is_radical))"), HashOfInts);
  (* ---- chython/periodictable/base/query.py ---- *)
  (("chython/periodictable/base/query.py", "QueryElement.from_atom", "call sorted(atom.ring_sizes)"), OrderFree "sorted_ints_perm");
  (* ---- chython/reactor/base.py ---- *)
  (("chython/reactor/base.py", "BaseReactor._get_deleted", "for for x in to_delete"), OtherProperty "C16_get_deleted_order_independent");
  (* ---- chython/reactor/reactor.py ---- *)
  (("chython/reactor/reactor.py", "Reactor.__call__", "for for x in s_nums.difference(chosen)"), IntHistory "order of the ignored molecules in the generated reaction (molecule list of the product side)");
  (("chython/reactor/reactor.py", "Reactor.__call__", "for for x in s_nums.difference(chosen) #2"), IntHistory "order of the ignored molecules in the generated reaction (molecule list of the product side)");
  (("chython/reactor/reactor.py", "Reactor.__call__", "call permutations(s_nums, len_patterns)"), IntHistory "order in which reactant assignments are tried: order of the generated reactions");
  (("chython/reactor/reactor.py", "Reactor.__call__", "call permutations(s_nums, len_patterns) #2"), IntHistory "order in which reactant assignments are tried: order of the generated reactions");
  (("chython/reactor/reactor.py", "Reactor._single_stage", "call zip(collision, count(max(max_ignored_number, max(new)) + 1))"), IntHistory "which colliding atom gets which fresh number");
  (("chython/reactor/reactor.py", "fix_mapping_overlap", "call zip(intersection, count(max(max(checked_atoms), max(structure)) + 1))"), OrderFree "max_perm");
  (("chython/reactor/reactor.py", "fix_mapping_overlap", "call max(checked_atoms)"), OrderFree "max_perm");
  (* ==== second extension round: sites the static typing missed, found EXECUTED by the run-time cross-check (HINTS in
          tools/gen_setaudit.py) ==== *)
  (("chython/algorithms/aromatics/kekule.py", "_kekule_component", "call iter(double_bonded)"), IntHistory "start atom of the Kekule search of one component (unmodelled heuristic, C05)");
  ((f_rings, "_bfs", "for for x in bonds[tail]"), IntHistory rings_note);
  (("chython/algorithms/standardize/resonance.py", "Resonance.fix_resonance", "pop entries.pop()"), IntHistory "which charged atom is delocalised first: the paths compete for the same exits");
  (("chython/algorithms/stereo.py", "MoleculeStereo.__differentiation", "for for n in atoms_stereo"),
     OrderFreeUpTo "multi_table_perm" "groups of equal-weight stereo atoms: same members for every enumeration; the order inside a group and of the groups follows the int set (group[0] is read for the environment size, which is a function of the common weight)");
  (("chython/algorithms/stereo.py", "MoleculeStereo.__differentiation", "for for nm in cis_trans_stereo"),
     OrderFreeUpTo "multi_table_perm" "groups of equal-weight stereo bonds: same members; order inside a group follows the set of int pairs");
  (("chython/algorithms/stereo.py", "MoleculeStereo.__differentiation", "for for c in allenes_stereo"),
     OrderFreeUpTo "multi_table_perm" "groups of equal-weight allene centres: same members; order inside a group follows the int set");
  (("chython/algorithms/tautomers/keto_enol.py", "KetoEnol.__enumerate_bonds", "for for n in dirs"), IntHistory "initial DFS stack: order of the enumerated keto-enol paths (order of the generated tautomers)");
  (("chython/containers/molecule.py", "MoleculeContainer.fix_structure", "for for n in self._changed or self._atoms"), OrderFree "pointwise_update_perm");   (* calc_implicit(n) *)
  (("chython/reactor/base.py", "BaseReactor._get_deleted", "for for x in self._to_delete"), OrderFree "set_of_map_perm");
  (("chython/reactor/reactor.py", "Reactor._single_stage", "call max(ignored, default=0)"), OrderFree "max_perm")
].

(* lemmas an OrderFree / KeyedTieBreak reason may name: each is a theorem of Props.C19 (C19_<name>) *)
Definition known_lemmas : list string :=
  ["group_sizes_perm"; "min_by_perm"; "bfs_level_perm"; "sort_by_perm"; "remove_vertices_perm"; "discard_all_perm"; "components_partition";
   "singleton_enum"; "filter_set_perm"; "lookup_table_perm"; "index_set_perm"; "set_of_map_perm";
   "chains_insertion_order_free"; "ring_mask_perm"; "sorted_str_perm"; "fragments_of_perm";
   "pointwise_update_perm"; "existsb_perm"; "forallb_perm"; "sorted_ints_perm"; "max_perm"; "merged_ring_sym"; "multi_table_perm"].

Close Scope string_scope.

Definition audit_ok (audit : list site) : bool :=
  forallb (fun s => existsb (site_eqb s) (map fst allow_list)) audit.
Definition allow_tight (audit : list site) : bool :=
  forallb (fun a => existsb (site_eqb (fst a)) audit) allow_list.
Definition reason_lemma (r : reason) : option string :=
  match r with OrderFree l | KeyedTieBreak l | OrderFreeUpTo l _ | OrderFreeIf l _ => Some l | _ => None end.
Definition reasons_known : bool :=
  forallb (fun a => match reason_lemma (snd a) with
                    | Some l => existsb (String.eqb l) known_lemmas
                    | None => true end) allow_list.
Fixpoint nodup_sites (l : list site) : bool :=
  match l with [] => true | x :: r => negb (existsb (site_eqb x) r) && nodup_sites r end.

(* sites whose reason is not a theorem (reported in the evidence) *)
Definition untheorem_sites : list site :=
  map fst (filter (fun a => match snd a with IntHistory _ | StrSet _ | KeyedTieBreak _ => true | _ => false end) allow_list).

(* ------------------------------------------------------------------------------------------------------------ *)
(* (2) generic idioms *)

(* `for x in S: state = body(state, x)` where `enum` is the order in which this run happens to enumerate S *)
Definition loop {A X : Type} (body : A -> X -> A) (enum : list X) (init : A) : A := fold_left body enum init.

(* sorted(l, key=k): stable insertion sort on an integer key *)
Section Keyed.
  Context {X : Type}.
  Variable key : X -> Z.
  Fixpoint insert_by (x : X) (l : list X) : list X :=
    match l with
    | [] => [x]
    | y :: r => if key x <=? key y then x :: y :: r else y :: insert_by x r
    end.
  Definition sort_by (l : list X) : list X := fold_right insert_by [] l.
  (* min(l, key=k): the FIRST element of minimal key; None stands for ValueError on an empty argument *)
  Fixpoint min_by (l : list X) : option X :=
    match l with
    | [] => None
    | x :: r => match min_by r with
                | None => Some x
                | Some y => if key x <=? key y then Some x else Some y
                end
    end.
End Keyed.

(* sorted(l) for elements compared by a total order `leb` (str, tuples): stable insertion sort *)
Section SortLeb.
  Context {X : Type}.
  Variable leb : X -> X -> bool.
  Fixpoint insert_leb (x : X) (l : list X) : list X :=
    match l with
    | [] => [x]
    | y :: r => if leb x y then x :: y :: r else y :: insert_leb x r
    end.
  Definition sort_leb (l : list X) : list X := fold_right insert_leb [] l.
End SortLeb.
(* sorted(v) for a set v of (ASCII) str: Python compares str by code points = String.leb *)
Definition sorted_str (enum : list string) : list string := sort_leb String.leb enum.

(* lexicographic keys (tuples) are compared through an order-embedding into Z by the callers; the writer's keys
   (groups, weight, bfs level) are bounded ints, see `pack3` *)
Definition pack3 (B : Z) (a b c : Z) : Z := (a * B + b) * B + c.

(* `n, m = s` for a set of two members: one of the two enumerations *)
Definition unpack2 {X R : Type} (f : X -> X -> R) (enum : list X) : option R :=
  match enum with [a; b] => Some (f a b) | _ => None end.

(* ---- the memoisation layer ----
   state S of the object (atoms, bonds), keys K = names of cached attributes, `derive k s` = what the property body
   computes from the state.  The cache is the instance __dict__. *)
Section Memo.
  Context {S K V : Type}.
  Variable keqb : K -> K -> bool.
  Variable derive : K -> S -> V.
  Definition cache := list (K * V).
  Fixpoint clookup (c : cache) (k : K) : option V :=
    match c with [] => None | (k', v) :: r => if keqb k k' then Some v else clookup r k end.
  (* attribute read through cached_property / cached_method *)
  Definition read (s : S) (c : cache) (k : K) : V * cache :=
    match clookup c k with
    | Some v => (v, c)
    | None => let v := derive k s in (v, (k, v) :: c)
    end.
  (* operations of a history: a read, a mutation (every mutator ends with flush_cache), an explicit flush, and a
     read that also stores other keys (str(mol) stores smiles_atoms_order and vice versa) *)
  Inductive op := Read (k : K) | ReadStoring (k : K) (also : list K) | Mutate (f : S -> S) | Flush.
  Definition store_all (s : S) (c : cache) (ks : list K) : cache :=
    fold_left (fun c k => (k, derive k s) :: c) ks c.
  Fixpoint run (s : S) (c : cache) (ops : list op) : list V :=
    match ops with
    | [] => []
    | Read k :: r => let '(v, c') := read s c k in v :: run s c' r
    | ReadStoring k also :: r =>
        let '(v, c') := read s c k in
        (* the body stores the companions only when it actually runs *)
        let c'' := match clookup c k with Some _ => c' | None => store_all s c' also end in
        v :: run s c'' r
    | Mutate f :: r => run (f s) [] r
    | Flush :: r => run s [] r
    end.
  (* the same history without any cache *)
  Fixpoint run_uncached (s : S) (ops : list op) : list V :=
    match ops with
    | [] => []
    | Read k :: r | ReadStoring k _ :: r => derive k s :: run_uncached s r
    | Mutate f :: r => run_uncached (f s) r
    | Flush :: r => run_uncached s r
    end.
  (* cache invariant: whatever is stored is what the body would compute now *)
  Definition cache_ok (s : S) (c : cache) : Prop := forall k v, clookup c k = Some v -> v = derive k s.
End Memo.
Arguments Read {S K} k.
Arguments ReadStoring {S K} k also.
Arguments Mutate {S K} f.
Arguments Flush {S K}.

(* ------------------------------------------------------------------------------------------------------------ *)
(* (3) concrete instances *)

(* isomorphism.py: `for r in a.ring_sizes: if r > 65: continue; v4 |= 1 << (65 - r)` *)
Definition ring_mask_step (v4 r : Z) : Z := if r >? 65 then v4 else Z.lor v4 (Z.shiftl 1 (65 - r)).
Definition ring_mask (enum : list Z) : Z :=
  let v4 := loop ring_mask_step enum 0 in
  if v4 =? 0 then 9223372036854775808 else v4.          (* not v4 -> 0x8000000000000000 *)

(* smiles.py: groups = defaultdict(int); for n in atoms_set: groups[weights(n)] -= 1 *)
Fixpoint dec_group (d : list (Z * Z)) (w : Z) : list (Z * Z) :=
  match d with
  | [] => [(w, -1)]
  | (k, v) :: r => if w =? k then (k, v - 1) :: r else (k, v) :: dec_group r w
  end.
Fixpoint glookup (d : list (Z * Z)) (w : Z) : Z :=
  match d with [] => 0 | (k, v) :: r => if w =? k then v else glookup r w end.
Definition group_sizes (weights : Z -> Z) (enum : list Z) : list (Z * Z) :=
  loop (fun d n => dec_group d (weights n)) enum [].

(* smiles.py: for m in bonds[n].keys() - seen.keys(): queue.append((m, d + 1)); seen[m] = d *)
Definition bfs_level_step (d : Z) (seen : list (Z * Z)) (m : Z) : list (Z * Z) := seen ++ [(m, d)].
Definition bfs_levels (d : Z) (enum : list Z) (seen : list (Z * Z)) : list (Z * Z) := loop (bfs_level_step d) enum seen.
Fixpoint first_value (d : list (Z * Z)) (k : Z) : option Z :=
  match d with [] => None | (k', v) :: r => if k =? k' then Some v else first_value r k end.

(* a set represented canonically: sorted, duplicate free *)
Fixpoint set_insert (x : Z) (l : list Z) : list Z :=
  match l with
  | [] => [x]
  | y :: r => if x <? y then x :: y :: r else if x =? y then y :: r else y :: set_insert x r
  end.
Definition set_add (l : list Z) (x : Z) : list Z := set_insert x l.
(* {g(x) for x in S} built by add() in enumeration order *)
Definition set_of_map (g : Z -> list Z) (enum : list Z) : list Z :=
  loop (fun acc x => fold_left set_add (g x) acc) enum [].
(* linear_bit_set / morgan_bit_set with number_active_bits == 2: tpl & mask, (tpl >> log) & mask *)
Definition two_bits (mask log tpl : Z) : list Z := [Z.land tpl mask; Z.land (Z.shiftr tpl log) mask].

(* fingerprints[list(bits)] = 1 on a zero vector: position i is 1 iff i is a member, whatever the order *)
Definition set_bits (enum : list Z) (len : nat) : list bool :=
  map (fun i => existsb (Z.eqb (Z.of_nat i)) enum) (seq 0 len).
Fixpoint assign_from (start : Z) (v : list bool) (i : Z) : list bool :=
  match v with
  | [] => []
  | b :: r => (if start =? i then true else b) :: assign_from (start + 1) r i
  end.
Definition assign_bit (v : list bool) (i : Z) : list bool := assign_from 0 v i.
Definition index_assign (enum : list Z) (len : nat) : list bool := loop assign_bit enum (repeat false len).

(* `for m in bonds.pop(n): bonds[m].discard(n)` (the row of n itself is already popped) *)
Definition without (n : Z) (l : list Z) : list Z := filter (fun x => negb (x =? n)) l.
Definition discard_row (n : Z) (d : list (Z * list Z)) (m : Z) : list (Z * list Z) :=
  map (fun kv => if fst kv =? m then (fst kv, without n (snd kv)) else kv) d.
Definition discard_all (n : Z) (d : list (Z * list Z)) (enum : list Z) : list (Z * list Z) := loop (discard_row n) enum d.
(* `for n in S: for m in bonds.pop(n): bonds[m].discard(n)` on a symmetric adjacency: vertex n disappears *)
Definition remove_vertex (d : list (Z * list Z)) (n : Z) : list (Z * list Z) :=
  map (fun kv => (fst kv, without n (snd kv))) (filter (fun kv => negb (fst kv =? n)) d).
Definition remove_vertices (d : list (Z * list Z)) (enum : list Z) : list (Z * list Z) := loop remove_vertex enum d.

(* `{n for n in common if p n}` *)
Definition filter_set (p : Z -> bool) (enum : list Z) : list Z :=
  loop (fun acc n => if p n then set_add acc n else acc) enum [].

(* `{c: f(c) for c in S}` used only through lookups *)
Definition table_of {V : Type} (f : Z -> V) (enum : list Z) : list (Z * V) := loop (fun d c => d ++ [(c, f c)]) enum [].
Fixpoint tlookup {V : Type} (d : list (Z * V)) (k : Z) : option V :=
  match d with [] => None | (k', v) :: r => if k =? k' then Some v else tlookup r k end.

(* ------------------------------------------------------------------------------------------------------------ *)
(* (4) extension round: dict-of-lists filled in set order (LinearFingerprint._fragments)
       out = defaultdict(list)
       for frag in self._chains(lo, hi):            # a set of int tuples
           out[key(frag)].append(val(frag))         # key = the larger of (identifiers, reversed), val = frag or frag[::-1]
       return dict(out)
   and its consumer linear_hash_set:  {hash(( *tpl, cnt)) for tpl, count in items() for cnt in range(min(len(count), nbp))} *)
Section Multi.
  Context {K V : Type}.
  Variable keqb : K -> K -> bool.
  Fixpoint madd (d : list (K * list V)) (k : K) (v : V) : list (K * list V) :=
    match d with
    | [] => [(k, [v])]
    | (k', vs) :: r => if keqb k k' then (k', vs ++ [v]) :: r else (k', vs) :: madd r k v
    end.
  (* d[k] of the finished dict; [] stands for an absent key *)
  Fixpoint mget (d : list (K * list V)) (k : K) : list V :=
    match d with [] => [] | (k', vs) :: r => if keqb k k' then vs else mget r k end.
  Definition multi_table {X : Type} (key : X -> K) (val : X -> V) (enum : list X) : list (K * list V) :=
    loop (fun d x => madd d (key x) (val x)) enum [].
End Multi.

Definition count_range (len nbp : Z) : list Z := map Z.of_nat (seq 0 (Z.to_nat (Z.min len nbp))).
(* the list of hashes in items() order, then made a set *)
Definition frag_hashes {K V : Type} (h : K -> Z -> Z) (nbp : Z) (d : list (K * list V)) : list Z :=
  flat_map (fun kv => map (h (fst kv)) (count_range (Z.of_nat (List.length (snd kv))) nbp)) d.
Definition canon_set (l : list Z) : list Z := fold_left set_add l [].
Definition frag_hash_set {K V X : Type} (keqb : K -> K -> bool) (key : X -> K) (val : X -> V) (h : K -> Z -> Z) (nbp : Z)
  (enum : list X) : list Z := canon_set (frag_hashes h nbp (multi_table keqb key val enum)).

(* concrete instance: keys are int tuples *)
Fixpoint zlist_eqb (a b : list Z) : bool :=
  match a, b with [], [] => true | x :: r, y :: s => (x =? y) && zlist_eqb r s | _, _ => false end.
Fixpoint zlist_ltb (a b : list Z) : bool :=          (* tuple comparison a < b *)
  match a, b with
  | _, [] => false
  | [], _ :: _ => true
  | x :: r, y :: s => (x <? y) || ((x =? y) && zlist_ltb r s)
  end.
(* var = (id[f0], order(f0,f1), id[f1], ...) ; if var > rev_var: (var, frag) else (rev_var, frag[::-1]) *)
Definition frag_var (idf : Z -> Z) (ord : Z -> Z -> Z) (frag : list Z) : list Z :=
  match frag with
  | [] => []
  | x :: r => idf x :: flat_map (fun p => [ord (fst p) (snd p); idf (snd p)]) (combine frag r)
  end.
Definition frag_key (idf : Z -> Z) (ord : Z -> Z -> Z) (frag : list Z) : list Z :=
  let v := frag_var idf ord frag in let rv := rev v in if zlist_ltb rv v then v else rv.
Definition frag_val (idf : Z -> Z) (ord : Z -> Z -> Z) (frag : list Z) : list Z :=
  let v := frag_var idf ord frag in if zlist_ltb (rev v) v then frag else rev frag.
Definition fragments_of (idf : Z -> Z) (ord : Z -> Z -> Z) (enum : list (list Z)) : list (list Z * list (list Z)) :=
  multi_table zlist_eqb (frag_key idf ord) (frag_val idf ord) enum.
