(* C12: (1) the direction marks the SMILES parser (chython/files/daylight/parser.py) records for a bond: stereo_bonds[x][y] = mark of
   the bond as written from x to y ('/' = true); chain bonds and every ring-closure branch.  A bond token is (type, value):
   (9, 1/0) direction mark '/' '\', (1, order) explicit bond.  strong_cycle = False (smiles(ignore=True)).
   (2) the reference substituent of a double-bond end in MoleculeStereo.__differentiation (chython/algorithms/stereo.py):
   min(n1, n2, key=morgan.get). *)
From Coq Require Import ZArith List Bool.
From Model Require Import PyBase.
Import ListNotations.
Open Scope Z_scope.

Definition btok := (Z * Z)%type.
Definition is_mark (t : btok) : bool := fst t =? 9.
Definition mark_of (t : btok) : bool := negb (snd t =? 0).

(* chain bond a <mark> b : (stereo_bonds[a][b], stereo_bonds[b][a]) *)
Definition chain_marks (t : option btok) : option bool * option bool :=
  match t with
  | Some tk => if is_mark tk then (Some (mark_of tk), Some (negb (mark_of tk))) else (None, None)
  | None => (None, None)
  end.

(* ring closure opened at atom a with token ob, closed at atom l with token cb:
   (stereo_bonds[a][l], stereo_bonds[l][a]) or IncorrectSmiles *)
Definition closure_marks (ob cb : option btok) : pyres (option bool * option bool) :=
  match ob, cb with
  | Some o, None => if is_mark o then Ok (Some (mark_of o), Some (negb (mark_of o))) else Ok (None, None)
  | Some o, Some c =>
      if is_mark c then
        if is_mark o then Ok (Some (mark_of o), Some (mark_of c))
        else if negb (snd o =? 1) then Err IncorrectSmiles
        else Ok (Some (negb (mark_of c)), Some (mark_of c))
      else if is_mark o then
        if negb (snd c =? 1) then Err IncorrectSmiles else Ok (Some (mark_of o), Some (negb (mark_of o)))
      else if negb (snd c =? snd o) then Err IncorrectSmiles else Ok (None, None)
  | None, Some c => if is_mark c then Ok (Some (negb (mark_of c)), Some (mark_of c)) else Ok (None, None)
  | None, None => Ok (None, None)
  end.

(* min(n1, n2, key=w): the first argument wins ties *)
Definition ct_ref (w : Z -> Z) (n1 n2 : Z) : Z := if w n2 <? w n1 then n2 else n1.
Definition ct_ref_opt (w : Z -> Z) (n1 : Z) (n2 : option Z) : Z := match n2 with Some y => ct_ref w n1 y | None => n1 end.
