(* C03 read_spell_denote: an abstract syntax of SMILES molecules (atoms with their ring-bond lists, branches, chains, dots),
   its spelling as a token list, and its denotation by STRUCTURAL recursion over the tree.

   tree      Node ty a rings kids : an atom token (type ty: 0 plain / 8 aromatic, dictionary a), the ring-bond digits written
             after it (each with an optional bond token in front), and its children, each with the optional bond token that
             joins it to this atom (None: nothing written; (1, PInt o): bond symbol; (9, PBool up): direction mark; (4, PNone):
             the dot).  All children but the last are written as branches in parentheses, the last one inline (the chain).
   spell     the token list smiles_tokenize would return for the text of the tree
   denote    what the tree means: every atom is attached to its PARENT IN THE TREE, every ring digit is applied at the atom it is
             written after.  The denotation is computed with explicit parent addressing: there is no branch stack, no
             "last atom" and no pending bond carried from one node to the next (`at_node` resets all three before every
             local operation); the two local operations (attach an atom with an optional bond to a given atom; apply ring
             digits at a given atom) are the machine's own steps on such a reset state, so the record (atoms, bonds, neighbour
             order, closure slots, direction-mark tables, log) is the parser's record, field by field.
   DenoteProofs.read_spell_denote: parse (spell t) = denote t for every well-formed tree - the token machine's branch
   stack / last_num / previous implement the tree structure. *)
From Coq Require Import ZArith List String Ascii Bool.
From Model Require Import PyBase Tokenize Parser.
Import ListNotations.
Open Scope Z_scope.

Inductive tree := Node (ty : Z) (a : atomtok) (rings : list (option token * Z)) (kids : list (option token * tree)).

Definition opt_bond (b : option token) : list token := match b with Some t => [t] | None => [] end.
Definition ring_tokens (rings : list (option token * Z)) : list token :=
  flat_map (fun r : option token * Z => opt_bond (fst r) ++ [(6, PInt (snd r))]) rings.

Fixpoint spell (t : tree) : list token :=
  match t with
  | Node ty a rings kids =>
      let fix go (ks : list (option token * tree)) : list token :=
          match ks with
          | [] => []
          | (b, c) :: rest =>
              match rest with
              | [] => opt_bond b ++ spell c                                        (* the chain goes on *)
              | _ => (2, PNone) :: (opt_bond b ++ spell c) ++ (3, PNone) :: go rest   (* a branch *)
              end
          end in
      (ty, PAtom a) :: ring_tokens rings ++ go kids
  end.

(* forget where the machine stands: last atom := p, empty branch stack, no pending bond *)
Definition at_node (s : pstate) (p : Z) : pstate :=
  mkP (ps_atoms s) (ps_types s) (ps_bonds s) (ps_order s) (ps_n s) p [] (ps_cycles s) (ps_satoms s) (ps_sbonds s) None (ps_log s).
(* a local operation at atom p *)
Definition op_at (strong : bool) (s : pstate) (p : Z) (toks : list token) : pyres pstate := loop strong (at_node s p) toks.

Fixpoint den (strong : bool) (t : tree) (parent : Z) (b : option token) (s : pstate) : pyres pstate :=
  match t with
  | Node ty a rings kids =>
      let me := ps_n s in                                          (* the number the new atom gets *)
      match op_at strong s parent (opt_bond b ++ [(ty, PAtom a)]) with       (* attach to the parent *)
      | Err e => Err e
      | Ok s1 =>
          match op_at strong s1 me (ring_tokens rings) with                  (* its ring digits *)
          | Err e => Err e
          | Ok s2 =>
              (fix go (ks : list (option token * tree)) (s : pstate) : pyres pstate :=
                 match ks with
                 | [] => Ok s
                 | (b', c) :: rest => match den strong c me b' s with Err e => Err e | Ok s' => go rest s' end
                 end) kids s2
          end
      end
  end.

Definition denote (strong : bool) (t : tree) : pyres parsed :=
  match den strong t 0 None p_init with
  | Err e => Err e
  | Ok s => finish (at_node s 0)
  end.

(* well-formed: atom tokens are atoms, bond tokens are bond tokens *)
Definition bond_ok (b : option token) : bool := match b with Some (ty, _) => zmem ty [1; 4; 9; 10; 12] | None => true end.
Fixpoint wf_tree (t : tree) : bool :=
  match t with
  | Node ty a rings kids =>
      zmem ty [0; 8] && forallb (fun r : option token * Z => bond_ok (fst r)) rings &&
      (fix go (ks : list (option token * tree)) : bool :=
         match ks with [] => true | (b, c) :: rest => bond_ok b && wf_tree c && go rest end) kids
  end.

(* ---- text form for the correspondence *)
Definition b_denote (strong : bool) (inputs : list tree) := batch (fun t => show_res show_parsed (denote strong t)) inputs.
Definition b_spell (inputs : list tree) := batch (fun t => show_tokens (spell t)) inputs.
