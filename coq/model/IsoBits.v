(* C09 -- model of the 4x64-bit layout written by MoleculeIsomorphism._cython_compiled_structure and
   QueryIsomorphism._cython_compiled_query (chython/algorithms/isomorphism.py) and of the mask tests of
   chython/algorithms/_isomorphism.pyx.  Definitions only.  Python ints are Z; `1 << k` is Z.shiftl 1 k (the code
   only shifts by non-negative amounts inside the representable range, which the theorems state as hypotheses). *)
From Coq Require Import ZArith List Bool Lia.
From Model Require Import PyBase PeriodicTable Query.
From Gen Require Import Elements.
Import ListNotations.
Open Scope Z_scope.

Definition bit (k : Z) : Z := Z.shiftl 1 k.
Definition mdl_of (num : Z) : Z := match from_number num with Some e => e_mdl e | None => 0 end.

Record bits4 := mkB4 { w1 : Z; w2 : Z; w3 : Z; w4 : Z }.

(* `if an > 116: an = 116` -- Lv, Ts, Og share one bit *)
Definition clamp116 (an : Z) : Z := if 116 <? an then 116 else an.

(* fold `v |= 1 << f(x)` over a tuple *)
Definition or_bits (f : Z -> Z) (l : list Z) (v : Z) : Z := fold_left (fun acc x => Z.lor acc (bit (f x))) l v.

(* `if not tuple: v |= full` / `else: for x in tuple: v |= 1 << f(x)` *)
Definition or_field (f : Z -> Z) (full : Z) (l : list Z) (v : Z) : Z :=
  match l with [] => Z.lor v full | _ => or_bits f l v end.

(* ring sizes: `for r in sizes: if r > 65: continue; v4 |= 1 << (65 - r)`, then `if not v4: v4 = 0x8000000000000000` *)
Definition ring_bits (l : list Z) : Z :=
  let v := fold_left (fun acc r => if 65 <? r then acc else Z.lor acc (bit (65 - r))) l 0 in
  if v =? 0 then 0x8000000000000000 else v.

(* ---- molecule side: one atom of _cython_compiled_structure ---- *)
Definition enc_atom (a : latom) : bits4 :=
  let v2 := bit (la_hyb a - 1) in
  let an := la_num a in
  let '(v1, v2) :=
    if 56 <? an then (1, Z.lor v2 (bit (120 - clamp116 an)))
    else (bit (57 - an), v2) in
  let v3 :=
    if iso_truthy (la_iso a) then
      Z.lor (bit ((match la_iso a with Some i => i | None => 0 end) - mdl_of an + 54))
            (if la_rad a then 0x200000000000 else 0x100000000000)
    else if la_rad a then 0x8000200000000000 else 0x8000100000000000 in
  let v3 := Z.lor v3 (bit (la_chg a + 39)) in
  let v3 := Z.lor v3 (bit ((match la_h a with Some h => h | None => 0 end) + 30)) in
  let v3 := Z.lor v3 (bit (la_nb a + 15)) in
  let v3 := Z.lor v3 (bit (la_het a)) in
  let v4 := match la_rings a with [] => 0x8000000000000000 | _ => ring_bits (la_rings a) end in
  mkB4 v1 v2 v3 v4.

Definition order_bit (o : Z) : Z :=
  if o =? 1 then 0x0800000000000000
  else if o =? 2 then 0x1000000000000000
  else if o =? 3 then 0x2000000000000000
  else if o =? 4 then 0x4000000000000000
  else 0x8000000000000000.

(* the bond word stored next to a neighbour index: bits1 of the neighbour | order bit | ring bit *)
Definition enc_bond (b : lbond) (nbr_bits1 : Z) : Z :=
  Z.lor (Z.lor nbr_bits1 (order_bit (lb_ord b))) (if lb_ring b then 0x0400000000000000 else 0x0200000000000000).

(* ---- query side ---- *)
(* the query loops test o == 1, o == 4, o == 2, o == 3 in that order; same function *)
Definition qorder_bits (l : list Z) (v : Z) : Z := fold_left (fun acc o => Z.lor acc (order_bit o)) l v.
Definition qring_bits (r : option bool) : Z :=
  match r with None => 0x0600000000000000 | Some true => 0x0400000000000000 | Some false => 0x0200000000000000 end.

Definition elem_masks (n : Z) : Z * Z :=
  if 56 <? n then (1, bit (120 - clamp116 n)) else (bit (57 - n), 0).

Definition enc_x3 (iso : option Z) (num : Z) (x : qx) : Z :=
  let v3 :=
    if iso_truthy iso then
      Z.lor (bit ((match iso with Some i => i | None => 0 end) - mdl_of num + 54))
            (if x_rad x then 0x200000000000 else 0x100000000000)
    else if x_rad x then 0xffffe00000000000 else 0xffffd00000000000 in
  let v3 := Z.lor v3 (bit (x_chg x + 39)) in
  let v3 := or_field (fun h => h + 30) 0x7c0000000 (x_h x) v3 in
  or_field (fun n => n) 0x7fff (x_het x) v3.

Definition enc_x4 (x : qx) : Z :=
  match x_rings x with
  | [] => 0xffffffffffffffff
  | r0 :: _ => if negb (r0 =? 0) then ring_bits (x_rings x) else 0x8000000000000000
  end.

(* one entry (atom a, bond b to its `back` atom; b = None for the first atom of a component) *)
Definition enc_qatom (q : qatom) (b : option qbond) : bits4 :=
  let '(v1, v2, v3, v4, nb, hyb) :=
    match q with
    | QMetal nb hyb => (0x0060707ffc1fff87, 0xfffffff7fffffff0, 0xffffffffc0007fff, 0xffffffffffffffff, nb, hyb)
    | QAny x => (0x01ffffffffffffff, 0xfffffffffffffff0, enc_x3 None 0 x, enc_x4 x, x_nb x, x_hyb x)
    | QList nums x =>
        let '(v1, v2) := fold_left (fun acc n => let '(m1, m2) := elem_masks n in (Z.lor (fst acc) m1, Z.lor (snd acc) m2)) nums (0, 0) in
        (v1, v2, enc_x3 None 0 x, enc_x4 x, x_nb x, x_hyb x)
    | QElem num iso x =>
        let '(v1, v2) := elem_masks num in
        (v1, v2, enc_x3 iso num x, enc_x4 x, x_nb x, x_hyb x)
    end in
  let v3 := or_field (fun n => n + 15) 0x3fff8000 nb v3 in
  let v2 := or_field (fun n => n - 1) 0xf hyb v2 in
  let v1 := match b with
            | None => v1
            | Some qb => Z.lor (qorder_bits (qb_ord qb) v1) (qring_bits (qb_ring qb))
            end in
  mkB4 v1 v2 v3 v4.

(* closure entry: `v = 0x01ffffffffffffff` (atom doesn't matter) | order bits | ring bits *)
Definition enc_closure (qb : qbond) : Z :=
  Z.lor (qorder_bits (qb_ord qb) 0x01ffffffffffffff) (qring_bits (qb_ring qb)).

(* ---- the mask tests of _isomorphism.pyx ---- *)
(* first query atom:  mask1 & bits1  and  mask2 & bits2 == bits2  and  mask3 & bits3 == bits3  and  mask4 & bits4 *)
Definition mask_match_first (m b : bits4) : bool :=
  negb (Z.land (w1 m) (w1 b) =? 0) && (Z.land (w2 m) (w2 b) =? w2 b) &&
  (Z.land (w3 m) (w3 b) =? w3 b) && negb (Z.land (w4 m) (w4 b) =? 0).

(* following atoms: mask1 & bond == bond (order, ring mark and atom bit) and the same three tests *)
Definition mask_match_next (m : bits4) (bond : Z) (b : bits4) : bool :=
  (Z.land (w1 m) bond =? bond) && (Z.land (w2 m) (w2 b) =? w2 b) &&
  (Z.land (w3 m) (w3 b) =? w3 b) && negb (Z.land (w4 m) (w4 b) =? 0).

(* closure test: `if not c_bond or j_bond.bond & c_bond != c_bond: break` *)
Definition closure_ok (qv c_bond : Z) : bool := negb (c_bond =? 0) && (Z.land qv c_bond =? c_bond).

(* ---- reference side with the documented identification of Lv, Ts, Og ---- *)
Definition clamp_atom (a : latom) : latom :=
  mkLA (clamp116 (la_num a)) (la_iso a) (la_chg a) (la_rad a) (la_nb a) (la_hyb a) (la_h a) (la_het a) (la_rings a).
Definition clamp_q (q : qatom) : qatom :=
  match q with
  | QElem n i x => QElem (clamp116 n) i x
  | QList l x => QList (map clamp116 l) x
  | other => other
  end.

(* ---- representable range (the hypotheses of the correctness theorems) ---- *)
Definition in_range (lo hi x : Z) : bool := (lo <=? x) && (x <=? hi).
Definition all_in (lo hi : Z) (l : list Z) : bool := forallb (in_range lo hi) l.

Definition iso_off_ok (iso : option Z) (num : Z) : bool :=
  match iso with Some i => (i =? 0) || in_range (-8) 8 (i - mdl_of num) | None => true end.

Definition atom_ok (a : latom) : bool :=
  in_range 1 118 (la_num a) && iso_off_ok (la_iso a) (la_num a) && in_range (-4) 4 (la_chg a) &&
  in_range 0 14 (la_nb a) && in_range 1 4 (la_hyb a) &&
  (match la_h a with Some h => in_range 0 4 h | None => false end) &&
  in_range 0 14 (la_het a) && all_in 3 65 (la_rings a).

Definition qx_ok (x : qx) : bool :=
  in_range (-4) 4 (x_chg x) && all_in 0 14 (x_nb x) && all_in 1 4 (x_hyb x) && all_in 0 4 (x_h x) &&
  all_in 0 14 (x_het x) && negb (x_rings_set x) &&
  (match x_rings x with
   | [] => true
   | r0 :: r => if r0 =? 0 then match r with [] => true | _ => false end else all_in 3 65 (x_rings x)
   end).

Definition query_ok (q : qatom) : bool :=
  match q with
  | QElem n iso x => in_range 1 118 n && iso_off_ok iso n && qx_ok x
  | QAny x => qx_ok x
  | QList l x => all_in 1 118 l && qx_ok x
  | QMetal nb hyb => all_in 0 14 nb && all_in 1 4 hyb
  end.

Definition bond_ok (b : lbond) : bool := zmem (lb_ord b) [1; 2; 3; 4; 8].
Definition qbond_ok (q : qbond) : bool := forallb (fun o => zmem o [1; 2; 3; 4; 8]) (qb_ord q).
