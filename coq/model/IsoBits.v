(* C09 -- model of the 4x64-bit layout written by MoleculeIsomorphism._cython_compiled_structure and
   QueryIsomorphism._cython_compiled_query (chython/algorithms/isomorphism.py), of the mask tests of
   chython/algorithms/_isomorphism.pyx, and of the reference comparison methods they replace
   (QueryElement/AnyElement/ListElement/AnyMetal.__eq__ of chython/periodictable/base/query.py and QueryBond.__eq__ of
   chython/containers/bonds.py).  Definitions only.  Python ints are Z; `1 << k` is Z.shiftl 1 k (the code only shifts by
   non-negative amounts inside the representable range, which the theorems state as hypotheses).
   The file is self-contained on purpose (it does not import Model.Query of C08): the reference side is tied to the real
   __eq__ methods by C09's own exhaustive correspondence. *)
From Coq Require Import ZArith List Bool Lia.
From Model Require Import PyBase PeriodicTable.
From Gen Require Import Elements.
Import ListNotations.
Open Scope Z_scope.

(* ------------------------------------------------------------------------------------------------------------ *)
(* 0. the reference side: molecule atoms / bonds as the comparison methods see them, query atoms / bonds, __eq__   *)

Record latom := mkLA {
  la_num : Z;               (* atomic_number *)
  la_iso : option Z;        (* isotope *)
  la_chg : Z;               (* charge *)
  la_rad : bool;            (* is_radical *)
  la_nb : Z;                (* neighbors *)
  la_hyb : Z;               (* hybridization 1..4 *)
  la_h : option Z;          (* implicit_hydrogens (None = valence error / unknown) *)
  la_het : Z;               (* heteroatoms *)
  la_rings : list Z         (* ring_sizes: a Python set; order irrelevant *)
}.
Record lbond := mkLB { lb_ord : Z; lb_ring : bool }.

(* tuple-valued fields are Python tuples: "empty tuple = unconstrained"; x_rings = (0,) means "not in a ring" *)
Record qx := mkQX {
  x_chg : Z; x_rad : bool;
  x_nb : list Z; x_hyb : list Z; x_h : list Z; x_het : list Z; x_rings : list Z
}.
Inductive qatom :=
| QElem (num : Z) (iso : option Z) (x : qx)     (* QueryElement subclass QueryXx *)
| QAny (x : qx)                                 (* AnyElement *)
| QList (nums : list Z) (x : qx)                (* ListElement: atomic_numbers *)
| QMetal (nb hyb : list Z).                     (* AnyMetal *)
Record qbond := mkQB { qb_ord : list Z; qb_ring : option bool }.

Definition nonempty {A} (l : list A) : bool := match l with [] => false | _ => true end.
Definition disjoint_z (a b : list Z) : bool := forallb (fun x => negb (zmem x b)) a.
Definition opt_mem (o : option Z) (l : list Z) : bool := match o with Some v => zmem v l | None => false end.
(* Python truthiness of an Optional[int] *)
Definition iso_truthy (o : option Z) : bool := match o with Some i => negb (i =? 0) | None => false end.

(*  if self.ring_sizes:
        if self.ring_sizes[0]:
            if other.ring_sizes.isdisjoint(self.ring_sizes): return False
        elif other.ring_sizes: return False                                          *)
Definition ring_step (x : qx) (a : latom) : bool :=
  match x_rings x with
  | [] => true
  | r0 :: _ => if negb (r0 =? 0) then negb (disjoint_z (la_rings a) (x_rings x)) else negb (nonempty (la_rings a))
  end.

(* the common tail of QueryElement / AnyElement / ListElement.__eq__, from the neighbors test on *)
Definition match_tail (x : qx) (a : latom) : bool :=
  if nonempty (x_nb x) && negb (zmem (la_nb a) (x_nb x)) then false
  else if nonempty (x_hyb x) && negb (zmem (la_hyb a) (x_hyb x)) then false
  else if negb (ring_step x a) then false
  else if nonempty (x_h x) && negb (opt_mem (la_h a) (x_h x)) then false
  else if nonempty (x_het x) && negb (zmem (la_het a) (x_het x)) then false
  else true.

(* QueryElement.__eq__ *)
Definition match_q (num : Z) (iso : option Z) (x : qx) (a : latom) : bool :=
  if negb (num =? la_num a) then false
  else if negb (x_chg x =? la_chg a) then false
  else if negb (Bool.eqb (x_rad x) (la_rad a)) then false
  else if iso_truthy iso && negb (option_eqb Z.eqb iso (la_iso a)) then false
  else match_tail x a.
(* AnyElement.__eq__ *)
Definition match_any (x : qx) (a : latom) : bool :=
  if negb (x_chg x =? la_chg a) then false
  else if negb (Bool.eqb (x_rad x) (la_rad a)) then false
  else match_tail x a.
(* ListElement.__eq__ *)
Definition match_list (nums : list Z) (x : qx) (a : latom) : bool :=
  if negb (zmem (la_num a) nums) then false
  else if negb (x_chg x =? la_chg a) then false
  else if negb (Bool.eqb (x_rad x) (la_rad a)) then false
  else match_tail x a.
(* AnyMetal.__eq__: other.is_forming_single_bonds or isinstance(other, GroupXVIII), read from the generated tables *)
Definition non_metal (num : Z) : bool :=
  match from_number num with
  | Some e => e_single e || (e_group e =? 18)
  | None => false
  end.
Definition match_metal (nb hyb : list Z) (a : latom) : bool :=
  if non_metal (la_num a) then false
  else if nonempty nb && negb (zmem (la_nb a) nb) then false
  else if nonempty hyb && negb (zmem (la_hyb a) hyb) then false
  else true.

Definition match_atom (q : qatom) (a : latom) : bool :=
  match q with
  | QElem num iso x => match_q num iso x a
  | QAny x => match_any x a
  | QList nums x => match_list nums x a
  | QMetal nb hyb => match_metal nb hyb a
  end.

(* QueryBond.__eq__(Bond):  if self.in_ring is not None and self.in_ring != other.in_ring: False
                            return other.order in self.order *)
Definition qbond_match (q : qbond) (b : lbond) : bool :=
  match qb_ring q with
  | Some r => if negb (Bool.eqb r (lb_ring b)) then false else zmem (lb_ord b) (qb_ord q)
  | None => zmem (lb_ord b) (qb_ord q)
  end.

(* ------------------------------------------------------------------------------------------------------------ *)
(* 1. the encoders                                                                                                *)

Definition bit (k : Z) : Z := Z.shiftl 1 k.
Definition mdl_of (num : Z) : Z := match from_number num with Some e => e_mdl e | None => 0 end.

Record bits4 := mkB4 { w1 : Z; w2 : Z; w3 : Z; w4 : Z }.

(* `if an > 116: an = 116` -- Lv, Ts, Og share one bit *)
Definition clamp116 (an : Z) : Z := if 116 <? an then 116 else an.

(* fold `v |= 1 << f(x)` over a tuple *)
Definition or_bits (f : Z -> Z) (l : list Z) (v : Z) : Z := fold_left (fun acc x => Z.lor acc (bit (f x))) l v.

(* `if not tuple: v |= full` / `else: for x in tuple: v |= 1 << f(x)` *)
Definition or_field (f : Z -> Z) (full : Z) (l : list Z) (v : Z) : Z :=
  match l with [] => Z.lor v full | _ => or_bits f l v end.

(* ring sizes: `for r in sizes: if r > 65: continue; v4 |= 1 << (65 - r)`, then `if not v4: v4 = 0x8000000000000000` *)
Definition ring_bits (l : list Z) : Z :=
  let v := fold_left (fun acc r => if 65 <? r then acc else Z.lor acc (bit (65 - r))) l 0 in
  if v =? 0 then 0x8000000000000000 else v.

(* ---- molecule side: one atom of _cython_compiled_structure ---- *)
Definition enc_atom (a : latom) : bits4 :=
  let v2 := bit (la_hyb a - 1) in
  let an := la_num a in
  let '(v1, v2) :=
    if 56 <? an then (1, Z.lor v2 (bit (120 - clamp116 an)))
    else (bit (57 - an), v2) in
  let v3 :=
    if iso_truthy (la_iso a) then
      Z.lor (bit ((match la_iso a with Some i => i | None => 0 end) - mdl_of an + 54))
            (if la_rad a then 0x200000000000 else 0x100000000000)
    else if la_rad a then 0x8000200000000000 else 0x8000100000000000 in
  let v3 := Z.lor v3 (bit (la_chg a + 39)) in
  let v3 := Z.lor v3 (bit ((match la_h a with Some h => h | None => 0 end) + 30)) in
  let v3 := Z.lor v3 (bit (la_nb a + 15)) in
  let v3 := Z.lor v3 (bit (la_het a)) in
  let v4 := match la_rings a with [] => 0x8000000000000000 | _ => ring_bits (la_rings a) end in
  mkB4 v1 v2 v3 v4.

Definition order_bit (o : Z) : Z :=
  if o =? 1 then 0x0800000000000000
  else if o =? 2 then 0x1000000000000000
  else if o =? 3 then 0x2000000000000000
  else if o =? 4 then 0x4000000000000000
  else 0x8000000000000000.

(* the bond word stored next to a neighbour index: bits1 of the neighbour | order bit | ring bit *)
Definition enc_bond (b : lbond) (nbr_bits1 : Z) : Z :=
  Z.lor (Z.lor nbr_bits1 (order_bit (lb_ord b))) (if lb_ring b then 0x0400000000000000 else 0x0200000000000000).

(* ---- query side ---- *)
(* the query loops test o == 1, o == 4, o == 2, o == 3 in that order; same function *)
Definition qorder_bits (l : list Z) (v : Z) : Z := fold_left (fun acc o => Z.lor acc (order_bit o)) l v.
Definition qring_bits (r : option bool) : Z :=
  match r with None => 0x0600000000000000 | Some true => 0x0400000000000000 | Some false => 0x0200000000000000 end.

Definition elem_masks (n : Z) : Z * Z :=
  if 56 <? n then (1, bit (120 - clamp116 n)) else (bit (57 - n), 0).

(* hydrogens: `if not t: v3 |= 0x7c0000000` / `else: for h in t: if h > 4: continue; v3 |= 1 << (h + 30)` *)
Definition or_bits_h (l : list Z) (v : Z) : Z :=
  fold_left (fun acc h => if 4 <? h then acc else Z.lor acc (bit (h + 30))) l v.
Definition or_field_h (l : list Z) (v : Z) : Z := match l with [] => Z.lor v 0x7c0000000 | _ => or_bits_h l v end.

(*  if isinstance(a, QueryElement) and a.isotope:
        if -8 <= a.isotope - a.mdl_isotope <= 8: v3 = 1 << (a.isotope - a.mdl_isotope + 54)
        else: v3 = 0                       # isotope is out of the field. matches nothing
        v3 |= 0x200000000000 if a.is_radical else 0x100000000000                                          *)
Definition enc_x3 (iso : option Z) (num : Z) (x : qx) : Z :=
  let v3 :=
    if iso_truthy iso then
      let d := (match iso with Some i => i | None => 0 end) - mdl_of num in
      Z.lor (if (-8 <=? d) && (d <=? 8) then bit (d + 54) else 0)
            (if x_rad x then 0x200000000000 else 0x100000000000)
    else if x_rad x then 0xffffe00000000000 else 0xffffd00000000000 in
  let v3 := Z.lor v3 (bit (x_chg x + 39)) in
  let v3 := or_field_h (x_h x) v3 in
  or_field (fun n => n) 0x7fff (x_het x) v3.

Definition enc_x4 (x : qx) : Z :=
  match x_rings x with
  | [] => 0xffffffffffffffff
  | r0 :: _ => if negb (r0 =? 0) then ring_bits (x_rings x) else 0x8000000000000000
  end.

(* one entry (atom a, bond b to its `back` atom; b = None for the first atom of a component) *)
Definition enc_qatom (q : qatom) (b : option qbond) : bits4 :=
  let '(v1, v2, v3, v4, nb, hyb) :=
    match q with
    | QMetal nb hyb => (0x0060707ffc1fff87, 0xfffffff3fffffff0, 0xffffffffc0007fff, 0xffffffffffffffff, nb, hyb)
    | QAny x => (0x01ffffffffffffff, 0xfffffffffffffff0, enc_x3 None 0 x, enc_x4 x, x_nb x, x_hyb x)
    | QList nums x =>
        let '(v1, v2) := fold_left (fun acc n => let '(m1, m2) := elem_masks n in (Z.lor (fst acc) m1, Z.lor (snd acc) m2)) nums (0, 0) in
        (v1, v2, enc_x3 None 0 x, enc_x4 x, x_nb x, x_hyb x)
    | QElem num iso x =>
        let '(v1, v2) := elem_masks num in
        (v1, v2, enc_x3 iso num x, enc_x4 x, x_nb x, x_hyb x)
    end in
  let v3 := or_field (fun n => n + 15) 0x3fff8000 nb v3 in
  let v2 := or_field (fun n => n - 1) 0xf hyb v2 in
  let v1 := match b with
            | None => v1
            | Some qb => Z.lor (qorder_bits (qb_ord qb) v1) (qring_bits (qb_ring qb))
            end in
  mkB4 v1 v2 v3 v4.

(* closure entry: `v = 0x01ffffffffffffff` (atom doesn't matter) | order bits | ring bits *)
Definition enc_closure (qb : qbond) : Z :=
  Z.lor (qorder_bits (qb_ord qb) 0x01ffffffffffffff) (qring_bits (qb_ring qb)).

(* ---- the mask tests of _isomorphism.pyx ---- *)
(* first query atom:  mask1 & bits1  and  mask2 & bits2 == bits2  and  mask3 & bits3 == bits3  and  mask4 & bits4 *)
Definition mask_match_first (m b : bits4) : bool :=
  negb (Z.land (w1 m) (w1 b) =? 0) && (Z.land (w2 m) (w2 b) =? w2 b) &&
  (Z.land (w3 m) (w3 b) =? w3 b) && negb (Z.land (w4 m) (w4 b) =? 0).

(* following atoms: mask1 & bond == bond (order, ring mark and atom bit) and the same three tests *)
Definition mask_match_next (m : bits4) (bond : Z) (b : bits4) : bool :=
  (Z.land (w1 m) bond =? bond) && (Z.land (w2 m) (w2 b) =? w2 b) &&
  (Z.land (w3 m) (w3 b) =? w3 b) && negb (Z.land (w4 m) (w4 b) =? 0).

(* closure test: `if not c_bond or j_bond.bond & c_bond != c_bond: break` *)
Definition closure_ok (qv c_bond : Z) : bool := negb (c_bond =? 0) && (Z.land qv c_bond =? c_bond).

(* ---- reference side with the documented identification of Lv, Ts, Og ---- *)
Definition clamp_atom (a : latom) : latom :=
  mkLA (clamp116 (la_num a)) (la_iso a) (la_chg a) (la_rad a) (la_nb a) (la_hyb a) (la_h a) (la_het a) (la_rings a).
Definition clamp_q (q : qatom) : qatom :=
  match q with
  | QElem n i x => QElem (clamp116 n) i x
  | QList l x => QList (map clamp116 l) x
  | other => other
  end.

(* ---- representable range (the hypotheses of the correctness theorems) ---- *)
Definition in_range (lo hi x : Z) : bool := (lo <=? x) && (x <=? hi).
Definition all_in (lo hi : Z) (l : list Z) : bool := forallb (in_range lo hi) l.

Definition iso_off_ok (iso : option Z) (num : Z) : bool :=
  match iso with Some i => (i =? 0) || in_range (-8) 8 (i - mdl_of num) | None => true end.

Definition atom_ok (a : latom) : bool :=
  in_range 1 118 (la_num a) && iso_off_ok (la_iso a) (la_num a) && in_range (-4) 4 (la_chg a) &&
  in_range 0 14 (la_nb a) && in_range 1 4 (la_hyb a) &&
  (match la_h a with Some h => in_range 0 4 h | None => false end) &&
  in_range 0 14 (la_het a) && all_in 3 65 (la_rings a).

Definition qx_ok (x : qx) : bool :=
  in_range (-4) 4 (x_chg x) && all_in 0 14 (x_nb x) && all_in 1 4 (x_hyb x) && all_in 0 14 (x_h x) &&
  all_in 0 14 (x_het x) &&
  (match x_rings x with
   | [] => true
   | r0 :: r => if r0 =? 0 then match r with [] => true | _ => false end else all_in 3 65 (x_rings x)
   end).

Definition query_ok (q : qatom) : bool :=
  match q with
  | QElem n iso x => in_range 1 118 n && qx_ok x      (* any query isotope: out of the field = matches nothing *)
  | QAny x => qx_ok x
  | QList l x => all_in 1 118 l && qx_ok x
  | QMetal nb hyb => all_in 0 14 nb && all_in 1 4 hyb
  end.

Definition bond_ok (b : lbond) : bool := zmem (lb_ord b) [1; 2; 3; 4; 8].
Definition qbond_ok (q : qbond) : bool := forallb (fun o => zmem o [1; 2; 3; 4; 8]) (qb_ord q).

(* hypotheses on the element part: 1..116 on both sides (117 and 118 share the bit of 116: documented) *)
Definition elem_hyp (q : qatom) (an : Z) : Prop :=
  1 <= an <= 116 /\
  match q with
  | QElem n _ _ => 1 <= n <= 116
  | QAny _ => True
  | QList nums _ => all_in 1 116 nums = true
  | QMetal _ _ => True
  end.

(* ------------------------------------------------------------------------------------------------------------ *)
(* 4. the two searches.
   Both _get_mapping (isomorphism.py) and get_mapping (_isomorphism.pyx) are the same explicit-stack depth-first search;
   they differ in the first-atom test, in the candidate test and in the data they read.  `dfs` is that common loop:
     stack   = list of (molecule atom, depth), head = top;   path = matched molecule atoms, position = query depth;
     the C `matched[]` flags / the Python `reversed_mapping` keys are represented by membership in `path`
     (the loops set the flag when an atom is appended to path and clear it when path is truncated);
     the Python `mapping` dict is  query atom at depth i -> path[i].
   Molecule atoms are identified by their position in dict order (the encoder's `mapping[n] = i`); the harness converts
   atom numbers to positions when it prints the reference-side terms, and positions back to numbers through the
   `mapping` fields when it compares the results. *)

Section Dfs.
  Variable E : Type.                         (* a neighbour entry of the adjacency that is iterated *)
  Variable idx : E -> Z.                     (* the neighbour it leads to *)
  Variable natoms : Z.
  Variable first_ok : Z -> bool.
  Variable nbrs : Z -> list E.
  Variable last : nat.                       (* size / q_decrement = number of query atoms - 1 *)
  Variable back : nat -> Z.                  (* depth of the `back` atom of the query atom at depth d *)
  Variable cand_ok : nat -> list Z -> Z -> E -> bool.   (* front depth, path, atom whose neighbours are scanned, entry *)

  (* `for n in range(atoms_count): if ...: stack[stack++] = (n, 0)` *)
  Definition init_stack : list (Z * nat) := rev (map (fun n => (n, O)) (filter first_ok (zrange 0 natoms))).

  Fixpoint dfs (fuel : nat) (stack : list (Z * nat)) (path : list Z) (acc : list (list Z)) : option (list (list Z)) :=
    match fuel with
    | O => None
    | S f =>
        match stack with
        | [] => Some (rev acc)
        | (n, depth) :: st =>
            if Nat.eqb depth last then
              (* yield: query atom i -> path[i] for i < depth, query atom depth -> n *)
              dfs f st path ((firstn depth path ++ [n]) :: acc)
            else
              (* `if path_size != depth: truncate`; append n *)
              let path' := firstn depth path ++ [n] in
              let front := S depth in
              let base := if negb (back front =? Z.of_nat depth) then znth path' (back front) 0 else n in
              let cands := filter (cand_ok front path' base) (nbrs base) in
              dfs f (rev (map (fun e => (idx e, front)) cands) ++ st) path' acc
        end
    end.

  Definition search (fuel : nat) : option (list (list Z)) := dfs fuel init_stack [] [].
End Dfs.

(* ---- 4a. the buffers of the accelerated path ---- *)
Record m_atom_t := mkMA { ma_bits : bits4; ma_from : Z; ma_to : Z; ma_mapping : Z }.
Record bond_t := mkBT { bt_bond : Z; bt_index : Z }.
Record molecule_t := mkMolT { mo_atoms : list m_atom_t; mo_bonds : list bond_t }.
Record q_atom_t := mkQA { qa_mask : bits4; qa_back : Z; qa_closure : Z; qa_from : Z; qa_to : Z; qa_mapping : Z }.
Record query_t := mkQueryT { qu_atoms : list q_atom_t; qu_bonds : list bond_t }.

Definition zlen {A} (l : list A) : Z := Z.of_nat (List.length l).
Definition slice {A} (from to : Z) (l : list A) : list A := firstn (Z.to_nat (to - from)) (skipn (Z.to_nat from) l).
Definition b4zero := mkB4 0 0 0 0.
Definition m_atom (mo : molecule_t) (i : Z) : m_atom_t := znth (mo_atoms mo) i (mkMA b4zero 0 0 0).
Definition q_atom (qu : query_t) (i : Z) : q_atom_t := znth (qu_atoms qu) i (mkQA b4zero 0 0 0 0 0).
Definition m_bonds_of (mo : molecule_t) (i : Z) : list bond_t :=
  slice (ma_from (m_atom mo i)) (ma_to (m_atom mo i)) (mo_bonds mo).

(* `scope[n] and q_atom.mask1 & n_atom.bits1 and ...` *)
Definition mask_first (qu : query_t) (mo : molecule_t) (scope : list bool) (n : Z) : bool :=
  znth scope n false && mask_match_first (qa_mask (q_atom qu 0)) (ma_bits (m_atom mo n)).

(* the `closures` scratch array after the fill loop, read at x:
   `if j_bond.index != n and matched[j_bond.index]: closures[j_bond.index] = j_bond.bond`, otherwise still 0 *)
Definition closures_at (mb : list bond_t) (path : list Z) (base x : Z) : Z :=
  fold_left (fun acc j => if negb (bt_index j =? base) && zmem (bt_index j) path && (bt_index j =? x)
                          then bt_bond j else acc) mb 0.

Definition mask_cand (qu : query_t) (mo : molecule_t) (scope : list bool)
                     (front : nat) (path : list Z) (base : Z) (i_bond : bond_t) : bool :=
  let qa := q_atom qu (Z.of_nat front) in
  let m := bt_index i_bond in
  let mb := m_bonds_of mo m in
  znth scope m false && negb (zmem m path) &&
  mask_match_next (qa_mask qa) (bt_bond i_bond) (ma_bits (m_atom mo m)) &&
  (if negb (qa_closure qa =? 0) then
     (* closures_counter == q_atom.closure, then every query closure finds its bond *)
     (zlen (filter (fun j => negb (bt_index j =? base) && zmem (bt_index j) path) mb) =? qa_closure qa) &&
     forallb (fun jq => closure_ok (bt_bond jq) (closures_at mb path base (znth path (bt_index jq) 0)))
             (slice (qa_from qa) (qa_to qa) (qu_bonds qu))
   else
     (* candidate atom should not have closures *)
     negb (existsb (fun j => negb (bt_index j =? base) && zmem (bt_index j) path) mb)).

Definition mask_search (qu : query_t) (mo : molecule_t) (scope : list bool) (fuel : nat) : option (list (list Z)) :=
  search bond_t bt_index (zlen (mo_atoms mo)) (mask_first qu mo scope) (m_bonds_of mo)
         (Nat.pred (List.length (qu_atoms qu))) (fun d => qa_back (q_atom qu (Z.of_nat d))) (mask_cand qu mo scope) fuel.

(* `mapping[query.atoms[i].mapping] = molecule.atoms[path[i]].mapping` *)
Definition mask_mapping (qu : query_t) (mo : molecule_t) (p : list Z) : list (Z * Z) :=
  combine (map qa_mapping (qu_atoms qu)) (map (fun i => ma_mapping (m_atom mo i)) p).

(* ---- 4b. the reference path ---- *)
(* molecule atom: number, labelled atom, neighbour dict (POSITION of the neighbour, bond) in dict order *)
Record ratom := mkRA { ra_num : Z; ra_atom : latom; ra_nbrs : list (Z * lbond) }.
(* linear query entry (s_n, back, s_atom, s_bond) + query_closures[s_n]; back and closure partners as DEPTHS *)
Record rqent := mkRQ { rq_num : Z; rq_back : Z; rq_atom : qatom; rq_bond : option qbond; rq_clos : list (Z * qbond) }.

Definition r_atom (rm : list ratom) (i : Z) : ratom := znth rm i (mkRA 0 (mkLA 0 None 0 false 0 0 None 0 []) []).
Definition rq_ent (rq : list rqent) (i : Z) : rqent := znth rq i (mkRQ 0 0 (QMetal [] []) None []).

Definition ref_first (rq : list rqent) (rm : list ratom) (scope : list bool) (n : Z) : bool :=
  znth scope n false && match_atom (rq_atom (rq_ent rq 0)) (ra_atom (r_atom rm n)).

(*  if o_n in scope and o_n not in reversed_mapping and s_bond == o_bond:
        if s_atom == o_atoms[o_n]:
            o_closures = o_bonds[o_n].keys() & reversed_mapping.keys(); o_closures.discard(n)
            if o_closures == {mapping[m] for m, _ in query_closures[s_n]}:
                if all(bond == obon[mapping[m]] for m, bond in query_closures[s_n]): push                       *)
Definition ref_cand (rq : list rqent) (rm : list ratom) (scope : list bool)
                    (front : nat) (path : list Z) (base : Z) (e : Z * lbond) : bool :=
  let q := rq_ent rq (Z.of_nat front) in
  let o_n := fst e in
  let obon := ra_nbrs (r_atom rm o_n) in
  znth scope o_n false && negb (zmem o_n path) &&
  (match rq_bond q with Some sb => qbond_match sb (snd e) | None => false end) &&
  match_atom (rq_atom q) (ra_atom (r_atom rm o_n)) &&
  same_keys_z (filter (fun k => zmem k path && negb (k =? base)) (map fst obon))
              (map (fun mb => znth path (fst mb) 0) (rq_clos q)) &&
  forallb (fun mb => match zget obon (znth path (fst mb) 0) with
                     | Some ob => qbond_match (snd mb) ob
                     | None => false
                     end) (rq_clos q).

Definition ref_search (rq : list rqent) (rm : list ratom) (scope : list bool) (fuel : nat) : option (list (list Z)) :=
  search (Z * lbond) fst (zlen rm) (ref_first rq rm scope) (fun i => ra_nbrs (r_atom rm i))
         (Nat.pred (List.length rq)) (fun d => rq_back (rq_ent rq (Z.of_nat d))) (ref_cand rq rm scope) fuel.

Definition ref_mapping (rq : list rqent) (rm : list ratom) (p : list Z) : list (Z * Z) :=
  combine (map rq_num rq) (map (fun i => ra_num (r_atom rm i)) p).

(* ---- 4c. the encoders as a whole: buffers written by _cython_compiled_structure / _cython_compiled_query ---- *)
Fixpoint from_to {A} (f : A -> Z) (l : list A) (start : Z) : list (Z * Z) :=
  match l with
  | [] => []
  | a :: r => (start, start + f a) :: from_to f r (start + f a)
  end.

Definition enc_mol (rm : list ratom) : molecule_t :=
  let bits := map (fun a => enc_atom (ra_atom a)) rm in
  let ft := from_to (fun a => zlen (ra_nbrs a)) rm 0 in
  mkMolT (map (fun abf => let '(a, b, (f, t)) := abf in mkMA b f t (ra_num a)) (combine (combine rm bits) ft))
         (flat_map (fun a => map (fun e => mkBT (enc_bond (snd e) (w1 (znth bits (fst e) b4zero))) (fst e)) (ra_nbrs a)) rm).

(* q_from / q_to: only atoms that have closures get a slice, the others keep (0, 0) *)
Fixpoint q_from_to (l : list rqent) (start : Z) : list (Z * Z) :=
  match l with
  | [] => []
  | e :: r => match rq_clos e with
              | [] => (0, 0) :: q_from_to r start
              | c => (start, start + zlen c) :: q_from_to r (start + zlen c)
              end
  end.

Definition enc_query (rq : list rqent) : query_t :=
  mkQueryT (map (fun eft => let '(e, (f, t)) := eft in
                            mkQA (enc_qatom (rq_atom e) (rq_bond e)) (rq_back e) (zlen (rq_clos e)) f t (rq_num e))
                (combine rq (q_from_to rq 0)))
           (flat_map (fun e => map (fun mb => mkBT (enc_closure (snd mb)) (fst mb)) (rq_clos e)) rq).

(* boolean equalities for the correspondence cases *)
Definition b4_eqb (a b : bits4) : bool := (w1 a =? w1 b) && (w2 a =? w2 b) && (w3 a =? w3 b) && (w4 a =? w4 b).
Definition ma_eqb (a b : m_atom_t) : bool :=
  b4_eqb (ma_bits a) (ma_bits b) && (ma_from a =? ma_from b) && (ma_to a =? ma_to b) && (ma_mapping a =? ma_mapping b).
Definition bt_eqb (a b : bond_t) : bool := (bt_bond a =? bt_bond b) && (bt_index a =? bt_index b).
Definition mol_t_eqb (a b : molecule_t) : bool :=
  list_eqb ma_eqb (mo_atoms a) (mo_atoms b) && list_eqb bt_eqb (mo_bonds a) (mo_bonds b).
Definition qa_eqb (a b : q_atom_t) : bool :=
  b4_eqb (qa_mask a) (qa_mask b) && (qa_back a =? qa_back b) && (qa_closure a =? qa_closure b) &&
  (qa_from a =? qa_from b) && (qa_to a =? qa_to b) && (qa_mapping a =? qa_mapping b).
Definition query_t_eqb (a b : query_t) : bool :=
  list_eqb qa_eqb (qu_atoms a) (qu_atoms b) && list_eqb bt_eqb (qu_bonds a) (qu_bonds b).
Definition pair_zz_eqb (a b : Z * Z) : bool := (fst a =? fst b) && (snd a =? snd b).
Definition maps_eqb (a b : option (list (list (Z * Z)))) : bool :=
  option_eqb (list_eqb (list_eqb pair_zz_eqb)) a b.

(* ---- 4d. well-formedness of the reference-side inputs (hypotheses of the search equivalence) ---- *)
(* molecule: every atom inside the representable range, neighbour dicts have distinct keys that are atoms of the molecule,
   bond orders 1,2,3,4,8 *)
Definition wf_ratom (n : Z) (a : ratom) : Prop :=
  atom_ok (ra_atom a) = true /\ NoDup (map fst (ra_nbrs a)) /\
  Forall (fun e => 0 <= fst e < n /\ bond_ok (snd e) = true) (ra_nbrs a).
Definition wf_mol (rm : list ratom) : Prop := Forall (wf_ratom (zlen rm)) rm.

(* linear query as _compile_query builds it: every entry but the first has a bond to its back atom, the first has none; ring-closure partners
   are distinct earlier entries *)
Definition wf_rqent (i : nat) (e : rqent) : Prop :=
  query_ok (rq_atom e) = true /\
  (i = O -> rq_bond e = None) /\
  (i <> O -> exists sb, rq_bond e = Some sb /\ qbond_ok sb = true) /\
  NoDup (map fst (rq_clos e)) /\
  Forall (fun mb => 0 <= fst mb < Z.of_nat i /\ qbond_ok (snd mb) = true) (rq_clos e).
Definition wf_query (rq : list rqent) : Prop :=
  forall i, (i < List.length rq)%nat -> wf_rqent i (rq_ent rq (Z.of_nat i)).

Definition in_range_pair (rq : list rqent) (rm : list ratom) : Prop :=
  forall e a, In e rq -> In a rm -> elem_hyp (rq_atom e) (la_num (ra_atom a)).

(* boolean versions (evaluated by the correspondence runner on the real inputs: which of them satisfy the hypotheses) *)
Definition wf_ratomb (n : Z) (a : ratom) : bool :=
  atom_ok (ra_atom a) && nodup_z (map fst (ra_nbrs a)) &&
  forallb (fun e => (0 <=? fst e) && (fst e <? n) && bond_ok (snd e)) (ra_nbrs a).
Definition wf_molb (rm : list ratom) : bool := forallb (wf_ratomb (zlen rm)) rm.
Definition wf_rqentb (i : nat) (e : rqent) : bool :=
  query_ok (rq_atom e) &&
  (match i, rq_bond e with
   | O, None => true
   | S _, Some sb => qbond_ok sb
   | _, _ => false
   end) &&
  nodup_z (map fst (rq_clos e)) &&
  forallb (fun mb => (0 <=? fst mb) && (fst mb <? Z.of_nat i) && qbond_ok (snd mb)) (rq_clos e).
Definition wf_queryb (rq : list rqent) : bool :=
  forallb (fun i => wf_rqentb i (rq_ent rq (Z.of_nat i))) (seq 0 (List.length rq)).
Definition elem_hypb (q : qatom) (an : Z) : bool :=
  in_range 1 116 an &&
  match q with
  | QElem n _ _ => in_range 1 116 n
  | QAny _ => true
  | QList nums _ => all_in 1 116 nums
  | QMetal _ _ => true
  end.
Definition in_range_pairb (rq : list rqent) (rm : list ratom) : bool :=
  forallb (fun e => forallb (fun a => elem_hypb (rq_atom e) (la_num (ra_atom a))) rm) rq.
Definition hyps_ok (rq : list rqent) (rm : list ratom) : bool :=
  nonempty rq && wf_queryb rq && wf_molb rm && in_range_pairb rq rm.

(* ---- 4e. the guard of QueryIsomorphism.get_mapping and the choice of the path for one component / scope call ----
     if _cython and any(a.implicit_hydrogens is None for _, a in other.atoms()): _cython = False
   (an unknown hydrogen count has no code in the bit layout; such molecules take the reference path) *)
Definition has_unknown_h (rm : list ratom) : bool :=
  existsb (fun a => match la_h (ra_atom a) with None => true | Some _ => false end) rm.
Definition uses_mask_path (cython : bool) (rm : list ratom) : bool := cython && negb (has_unknown_h rm).
(* the mappings (query atom number -> molecule atom number) one component / scope call yields under the flag `_cython` *)
Definition component_mappings (cython : bool) (rq : list rqent) (rm : list ratom) (scope : list bool) (fuel : nat)
  : option (list (list (Z * Z))) :=
  if uses_mask_path cython rm
  then option_map (map (mask_mapping (enc_query rq) (enc_mol rm))) (mask_search (enc_query rq) (enc_mol rm) scope fuel)
  else option_map (map (ref_mapping rq rm)) (ref_search rq rm scope fuel).
(* the hypotheses of the component-level equivalence as one boolean *)
Definition gm_hyps_ok (rq : list rqent) (rm : list ratom) : bool :=
  nonempty rq && wf_queryb rq && (has_unknown_h rm || wf_molb rm) && in_range_pairb rq rm.
