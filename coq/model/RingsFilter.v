(* C06 -- extension round: algorithm-level model of the selection phase of chython/algorithms/rings.py:
   _get_unique_chord, _connected_rings, _is_condensed_ring, _rings_filter (the candidate stream of _c_set is an input).
   Python sets of atom numbers are sorted duplicate-free lists here; where the code unpacks a two-element set
   ([n, m = common]) the model takes the smaller number first; the dictionary seen_rings (ring -> adjacency) is always
   {ring: _ring_adjacency(ring)} and is recomputed instead of stored.  Definitions only. *)
From Coq Require Import ZArith List Bool Lia.
From Model Require Import PyBase Graph Rings.
Import ListNotations.
Open Scope Z_scope.

Definition bindr {A B} (x : pyres A) (f : A -> pyres B) : pyres B := match x with Ok a => f a | Err e => Err e end.

Definition as_set (l : list Z) : list Z := sort_z (set_of_z l).
Definition set_eqb (a b : list Z) : bool := list_eqb Z.eqb (as_set a) (as_set b).
(* rk.keys() & ck.keys() for two rings *)
Definition common_atoms (a b : ring) : list Z := as_set (filter (fun x => zmem x b) a).
Definition ring_mem (r : ring) (l : list ring) : bool := existsb (ring_eqb r) l.

(* ring[1:-1] *)
Definition sl_inner (r : list Z) : list Z := removelast (tl r).
(* ring[k:] , ring[:k] *)
Definition rot1 (r : list Z) : list Z := match r with [] => [] | h :: t => t ++ [h] end.

(* _get_unique_chord(ring, common): None = Python None, Some [] = () *)
Fixpoint guc_loop (k : nat) (ring common : list Z) (lc : nat) : option (list Z) :=
  if set_eqb common (firstn lc ring) then Some (skipn (lc - 1) ring ++ [hd 0 ring])
  else match k with
       | O => None
       | S k' => guc_loop k' (rot1 ring) common lc
       end.
Definition get_unique_chord (ring common : list Z) : option (list Z) :=
  let lc := length common in
  if Nat.eqb (length ring) lc then (if set_eqb common ring then Some [] else None)
  else guc_loop (length ring - 1) ring common lc.

(* m in adj[n] *)
Definition adj_has (adj : list (Z * list Z)) (n m : Z) : pyres bool :=
  match zget adj n with Some l => Ok (zmem m l) | None => Err KeyError end.

(* _canonic_ring of the tuple  _ring_scissors(a, n, m) + _ring_scissors(b, m, n)[1:-1] *)
Definition merge_rings (a b : ring) (n m : Z) : pyres ring :=
  bindr (ring_scissors a n m) (fun x => bindr (ring_scissors b m n) (fun y => canonic_ring (x ++ sl_inner y))).

Fixpoint replace_nth {A} (k : nat) (l : list A) (x : A) : list A :=
  match l, k with
  | [], _ => []
  | _ :: t, O => x :: t
  | h :: t, S k' => h :: replace_nth k' t x
  end.

(* the inner loop [for j in range(i + 1, len(rings))] of _connected_rings: Ok (Some rings') = break with rings[j] replaced,
   Ok None = loop exhausted (the ring c is isolated) *)
Fixpoint cr_inner (c : ring) (rings : list ring) (j : nat) (todo : list ring) : pyres (option (list ring)) :=
  match todo with
  | [] => Ok None
  | r :: rest =>
      let common := common_atoms r c in
      let next := cr_inner c rings (S j) rest in
      let done (c' : pyres ring) := bindr c' (fun c'' => bindr (ring_adjacency c'') (fun _ => Ok (Some (replace_nth j rings c'')))) in
      match common with
      | [n; m] =>
          bindr (ring_adjacency c) (fun ck => bindr (ring_adjacency r) (fun rk =>
          bindr (adj_has ck n m) (fun h1 => if h1 then bindr (adj_has rk n m) (fun h2 =>
            if h2 then done (merge_rings c r n m) else next) else next)))
      | _ :: _ :: _ :: _ =>
          match get_unique_chord c common with
          | None => next
          | Some cc =>
              match get_unique_chord r common with
              | None => next
              | Some rr =>
                  match cc, rr with
                  | _ :: _, _ :: _ =>
                      let rr' := if hd 0 rr =? hd 0 cc then rev rr else rr in
                      done (canonic_ring (cc ++ sl_inner rr'))
                  | _ :: _, [] => done (canonic_ring cc)
                  | [], _ :: _ => done (canonic_ring rr)
                  | [], [] => next
                  end
              end
          end
      | _ => next
      end
  end.

(* the outer loop [for i in range(len(rings))] *)
Fixpoint cr_outer (fuel i : nat) (rings out : list ring) : pyres (list ring) :=
  match fuel with
  | O => Ok out
  | S f =>
      match nth_error rings i with
      | None => Ok out
      | Some c =>
          bindr (cr_inner c rings (S i) (skipn (S i) rings)) (fun res =>
            match res with
            | Some rings' => cr_outer f (S i) rings' out
            | None => cr_outer f (S i) rings (out ++ [c])
            end)
      end
  end.
Definition connected_rings (rings : list ring) : pyres (list ring) := cr_outer (length rings) O rings [].

(* ---- _is_condensed_ring ---- *)
Fixpoint rget {V} (d : list (ring * V)) (k : ring) : option V :=
  match d with [] => None | (k', v) :: t => if ring_eqb k k' then Some v else rget t k end.

(* term = {n for n in common if len(common.intersection(p_adj[n])) == 1} *)
Fixpoint term_atoms (p_adj : list (Z * list Z)) (common l : list Z) : pyres (list Z) :=
  match l with
  | [] => Ok []
  | n :: t =>
      match zget p_adj n with
      | None => Err KeyError
      | Some nb =>
          bindr (term_atoms p_adj common t) (fun r =>
            Ok (if Nat.eqb (length (filter (fun x => zmem x nb) common)) 1 then n :: r else r))
      end
  end.

(* the contour of parent and child glued along their common atoms; Ok None = [continue] *)
Definition glue (parent child : ring) : pyres (option ring) :=
  bindr (ring_adjacency parent) (fun p_adj =>
  let common := common_atoms parent child in
  match common with
  | [n; m] => bindr (merge_rings parent child n m) (fun mc => Ok (Some mc))
  | _ :: _ :: _ :: _ =>
      bindr (term_atoms p_adj common common) (fun term =>
        match term with
        | [n; m] =>
            let inner := filter (fun x => negb (zmem x term)) common in
            let strip (r : ring) := filter (fun x => negb (zmem x inner)) r in
            bindr (merge_rings (strip parent) (strip child) n m) (fun mc => Ok (Some mc))
        | _ => Ok None
        end)
  | _ => Ok None
  end).

(* depth-first search over chains of neighbouring rings: does some glued contour equal c ?
   [children] are the neighbours still to be tried for [parent]; [seen] the rings already on the chain *)
Section Condensed.
Variable c : ring.
Variable neighbors : list (ring * list ring).

Fixpoint dfs (depth : nat) (parent : ring) (children seen : list ring) {struct depth} : pyres bool :=
  (fix loop (children : list ring) : pyres bool :=
     match children with
     | [] => Ok false
     | child :: rest =>
         if ring_mem child seen then loop rest
         else bindr (glue parent child) (fun g =>
           match g with
           | None => loop rest
           | Some mc =>
               if ring_eqb c mc then Ok true
               else match depth with
                    | S d =>
                        if Nat.ltb 2 (length mc) && Nat.leb (length mc) (length c + 1)
                        then bindr (ring_adjacency mc) (fun _ =>
                               match rget neighbors child with
                               | None => Err KeyError
                               | Some nb => bindr (dfs d mc nb (child :: seen)) (fun found => if found then Ok true else loop rest)
                               end)
                        else loop rest
                    | O => loop rest
                    end
           end)
     end) children.
End Condensed.

(* neighbors = {x: set() for x in sssr if len(keys(x) & keys(c)) > 1}, then pairwise links *)
Definition touching (a b : ring) : bool := Nat.ltb 1 (length (common_atoms a b)).
Fixpoint cond_starts (c : ring) (neighbors : list (ring * list ring)) (depth : nat) (l : list (ring * list ring)) : pyres bool :=
  match l with
  | [] => Ok false
  | (start, nbrs) :: t =>
      match nbrs with
      | [] => cond_starts c neighbors depth t
      | _ => bindr (dfs c neighbors depth start nbrs [start]) (fun found => if found then Ok true else cond_starts c neighbors depth t)
      end
  end.
Definition is_condensed_ring (c : ring) (sssr : list ring) : pyres bool :=
  let nodes := filter (fun x => touching x c) sssr in
  if Nat.ltb 1 (length nodes) then
    let neighbors := map (fun x => (x, filter (fun y => negb (ring_eqb x y) && touching x y) nodes)) nodes in
    cond_starts c neighbors (length nodes - 1) neighbors
  else Ok false.

(* ---- _rings_filter ---- *)
Definition subset_z (a b : list Z) : bool := forallb (fun x => zmem x b) a.

(* for c in rings: skip seen ones; hold those inside the atoms seen so far; accept the others; stop at n_sssr.
   returns (finished?, sssr, hold, seen) *)
Fixpoint rf_phase1 (n : nat) (rings : list ring) (seen : list ring) (atoms : list Z) (sssr hold : list ring)
  : bool * list ring * list ring * list ring :=
  match rings with
  | [] => (false, sssr, hold, seen)
  | c :: rest =>
      if ring_mem c seen then rf_phase1 n rest seen atoms sssr hold
      else if subset_z c atoms then rf_phase1 n rest (seen ++ [c]) atoms sssr (hold ++ [c])
      else let sssr' := sssr ++ [c] in
           if Nat.eqb (length sssr') n then (true, sssr', hold, seen ++ [c])
           else rf_phase1 n rest (seen ++ [c]) (atoms ++ c) sssr' hold
  end.

(* for c in hold: ... *)
Fixpoint rf_phase2 (n : nat) (hold : list ring) (condensed sssr : list ring) : pyres (list ring) :=
  match hold with
  | [] => Err OtherError                     (* ImplementationError('SSSR count not reached') *)
  | c :: rest =>
      if ring_mem c condensed then rf_phase2 n rest condensed sssr
      else bindr (is_condensed_ring c sssr) (fun cond =>
        if cond then rf_phase2 n rest condensed sssr
        else bindr (connected_rings (c :: condensed)) (fun condensed' =>
          let sssr' := sssr ++ [c] in
          if Nat.eqb (length sssr') n then Ok (sort_by_len sssr') else rf_phase2 n rest condensed' sssr'))
  end.

(* every ring of seen gets its adjacency computed: seen_rings = {c: _ring_adjacency(c) for c in seen_rings} *)
Fixpoint all_adjacency (l : list ring) : pyres unit :=
  match l with [] => Ok tt | r :: t => bindr (ring_adjacency r) (fun _ => all_adjacency t) end.

Definition rings_filter (rings : list ring) (n : nat) : pyres (list ring) :=
  match rings with
  | [] => Err StopIteration
  | c :: rest =>
      if Nat.eqb n 1 then Ok [c]
      else
        let '(fin, sssr, hold, seen) := rf_phase1 n rest [c] c [c] [] in
        if fin then Ok sssr
        else bindr (all_adjacency seen) (fun _ =>
             bindr (connected_rings sssr) (fun condensed => rf_phase2 n hold condensed sssr))
  end.

(* one-line correspondence cases *)
Definition c_rf (cands : list ring) (n : nat) (e : pyres (list ring)) : bool := pyres_eqb ll_eqb (rings_filter cands n) e.
Definition c_cr (rings : list ring) (e : pyres (list ring)) : bool := pyres_eqb ll_eqb (connected_rings rings) e.
Definition c_icr (c : ring) (sssr : list ring) (e : pyres bool) : bool := pyres_eqb Bool.eqb (is_condensed_ring c sssr) e.
Definition c_guc (r common : list Z) (e : option (list Z)) : bool := option_eqb (list_eqb Z.eqb) (get_unique_chord r common) e.
