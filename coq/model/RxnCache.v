(* C15 -- the reaction-level cache and the in-place standardisation methods of a reaction
   (chython/algorithms/standardize/reaction.py, chython/containers/reaction.py):
     __str__, __hash__, compose are cached_methods: the value is kept in self.__dict__ until flush_cache clears it;
     thiele / kekule / clean_isotopes:      total = False;  for m in molecules: if m.f(): total = True;   if total: flush
     implicify_hydrogens / explicify_hydrogens:  total = sum of the molecules' counts;                     if total: flush
     canonicalize / standardize:            total = concatenated logs (+ the mapping fixes);               if total: flush
     clean_stereo:                          flush always
   The molecule-level methods are inputs (their return values); a cache cell is `option V` (None = not cached).
   Definitions only; proofs in Proofs.RxnCacheProofs. *)
From Coq Require Import ZArith List Bool.
From Model Require Import PyBase.
Import ListNotations.
Open Scope Z_scope.

(* total = False; for r in results: if r: total = True *)
Definition flag_any (results : list bool) : bool := fold_left (fun (total r : bool) => if r then true else total) results false.
(* total = 0; for n in counts: total += n;  `if total:` *)
Definition flag_count (counts : list Z) : bool := negb (fold_left Z.add counts 0 =? 0).
(* total = []; for log in logs: total.extend(log);  `if total:` *)
Definition flag_logs {A : Type} (logs : list (list A)) : bool := negb (Nat.eqb (List.length (List.concat logs)) 0).

(* self.flush_cache(keep_molecule_cache=True) under `if total:` *)
Definition flush_if {V : Type} (flag : bool) (cell : option V) : option V := if flag then None else cell.
(* a cached_method call: the stored value if there is one, else the freshly computed one (which is then stored) *)
Definition cached_read {V : Type} (cell : option V) (fresh : V) : V * option V :=
  match cell with Some v => (v, Some v) | None => (fresh, Some fresh) end.
