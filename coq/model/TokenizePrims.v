(* Semantic primitives for the TRANSLATED body of chython/files/daylight/tokenize.py:_tokenize.

   tools/gen_c03tok.py translates the statements of _tokenize (the three initial assignments, the body of the loop over the
   characters, the if / elif chain after the loop) one by one into Gallina (coq/gen/TokenizeBody.v).  Every Python expression /
   statement FORM that occurs there has one primitive here; the generated code contains nothing but these primitives, the
   if / elif structure, the constants and the order of the statements of the source.  Proofs.TokenizeTranslated proves the
   generated functions equal to the hand-written Model.Tokenize.tok_step / tok_finish on every state the loop can reach, and
   the generated _tokenize equal to Model.Tokenize.tokenize_raw on EVERY string.

   The three locals of _tokenize are the fields of Tokenize.tstate: token_type (None | int), token (dynamically typed:
   None, 'C' / 'B', a list of characters, True, a list of bond orders = Tokenize.pend), tokens (the list, REVERSED).
   A primitive applied to a value of a shape Python would not accept there (e.g. token.append on None) returns Err OtherError,
   as in the hand-written model. *)
From Coq Require Import ZArith List String Ascii Bool.
From Model Require Import PyBase Tokenize.
From Gen Require Import TokenTables.
Import ListNotations.
Open Scope Z_scope.

(* ------------------------------------------------------------------------------------------------ assignments *)
Definition set_type (st : tstate) (t : option Z) : tstate := mkT t (t_pend st) (t_toks st).
Definition set_pend (st : tstate) (p : pend) : tstate := mkT (t_type st) p (t_toks st).
(* tokens.append(x) *)
Definition push (st : tstate) (x : token) : tstate := mkT (t_type st) (t_pend st) (x :: t_toks st).

Definition bind_res {A B} (r : pyres A) (f : A -> pyres B) : pyres B := match r with Ok v => f v | Err e => Err e end.

(* ------------------------------------------------------------------------------------------------ tests *)
(* token_type is None *)
Definition ty_none (st : tstate) : bool := match t_type st with None => true | Some _ => false end.
(* `not tokens or tokens[-1][0] not in (...)`: the subscript is only evaluated when the list is not empty *)
Definition no_last_or_type_not_in (st : tstate) (l : list Z) : bool :=
  match t_toks st with [] => true | (ty, _) :: _ => negb (zmem ty l) end.
(* len(token) *)
Definition pend_len (p : pend) : Z :=
  match p with PdChars l => Z.of_nat (List.length l) | PdOrders l => Z.of_nat (List.length l) | PdStr s => Z.of_nat (String.length s) | _ => 0 end.
(* token == 'C' *)
Definition pend_is_str (p : pend) (s : string) : bool := match p with PdStr x => String.eqb x s | _ => false end.
(* s in <dict> *)
Definition dict_has {V} (d : list (string * V)) (k : string) : bool := match sget d k with Some _ => true | None => false end.

(* ------------------------------------------------------------------------------------------------ values *)
(* <dict>[s] *)
Definition dict_get {V} (d : list (string * V)) (k : string) : pyres V := match sget d k with Some v => Ok v | None => Err KeyError end.
(* token.append(s) *)
Definition pend_push_char (p : pend) (c : ascii) : pyres pend := match p with PdChars l => Ok (PdChars (l ++ [c])) | _ => Err OtherError end.
(* token.append(<int>) *)
Definition pend_push_order (p : pend) (o : Z) : pyres pend := match p with PdOrders l => Ok (PdOrders (l ++ [o])) | _ => Err OtherError end.
(* ''.join(token) *)
Definition pend_join (p : pend) : pyres string := match p with PdChars l => Ok (string_of_list_ascii l) | _ => Err OtherError end.
(* int(''.join(token)) *)
Definition pend_int (p : pend) : pyres Z := match p with PdChars l => py_int l | _ => Err OtherError end.
(* int(token[0]) *)
Definition pend_int0 (p : pend) : pyres Z := match p with PdChars (c :: _) => py_int [c] | _ => Err OtherError end.
(* tokens.pop(-1)[1] : the value and the state after the pop *)
Definition pop_payload (st : tstate) : pyres (payload * tstate) :=
  match t_toks st with [] => Err IndexError | (_, p) :: r => Ok (p, mkT (t_type st) (t_pend st) r) end.
(* [x] for a popped bond order x *)
Definition pend_list1 (p : payload) : pyres pend := match p with PInt o => Ok (PdOrders [o]) | _ => Err OtherError end.

(* ------------------------------------------------------------------------------------------------ smiles_tokenize *)
(* (token_type, {'element': token}) *)
Definition simple_atom_token (ty : Z) (p : payload) : pyres token :=
  match p with PStr s => Ok (ty, PAtom (simple_atom s)) | _ => Err OtherError end.
(* _atom_parse(token) *)
Definition atom_parse_payload (ap : string -> pyres token) (p : payload) : pyres token :=
  match p with PStr s => ap s | _ => Err OtherError end.

(* ------------------------------------------------------------------------------------------------ _atom_parse *)
(* the locals of _atom_parse change their type: a regex group is None or a text, then becomes an int / a bool *)
Inductive dv := DNone | DStr (l : list ascii) | DInt (z : Z) | DBool (b : bool).
(* a group of _match.groups() *)
Definition dv_group (o : option (list ascii)) : dv := match o with Some l => DStr l | None => DNone end.
(* if x: *)
Definition dv_truthy (v : dv) : bool :=
  match v with DNone => false | DStr l => match l with [] => false | _ => true end | DInt z => negb (z =? 0) | DBool b => b end.
(* int(x) *)
Definition dv_int (v : dv) : pyres dv :=
  match v with DStr l => match py_int l with Ok z => Ok (DInt z) | Err e => Err e end | _ => Err OtherError end.
(* x[1:] *)
Definition dv_tail (v : dv) : dv := match v with DStr l => DStr (tl l) | _ => DNone end.
(* len(x) *)
Definition dv_len (v : dv) : Z := match v with DStr l => Z.of_nat (List.length l) | _ => 0 end.
(* x == 'text' *)
Definition dv_eq_str (v : dv) (s : string) : bool :=
  match v with DStr l => list_eqb Ascii.eqb l (list_ascii_of_string s) | _ => false end.
(* <dict>[x] *)
Definition dv_dict_get (d : list (string * Z)) (v : dv) : pyres dv :=
  match v with
  | DStr l => match sget d (string_of_list_ascii l) with Some z => Ok (DInt z) | None => Err KeyError end
  | _ => Err OtherError
  end.
(* x in ('a', 'b', ...) *)
Definition dv_in_strs (v : dv) (l : list string) : bool := match v with DStr x => smem (string_of_list_ascii x) l | _ => false end.
(* x.capitalize() *)
Definition dv_capitalize (v : dv) : dv :=
  match v with DStr l => DStr (list_ascii_of_string (capitalize (string_of_list_ascii l))) | _ => DNone end.
(* try: <r> except <K>: raise IncorrectSmiles(...) *)
Definition is_KeyError (e : pyexn) : bool := match e with KeyError => true | _ => false end.
Definition is_ValueError (e : pyexn) : bool := match e with ValueError => true | _ => false end.
Definition catch_as_ism {A} (k : pyexn -> bool) (r : pyres A) : pyres A :=
  match r with Err e => if k e then ISm else Err e | Ok v => Ok v end.
(* return _type, {'element': el, 'isotope': iso, 'parsed_mapping': mp, 'charge': chg, 'implicit_hydrogens': h, 'stereo': st} *)
Definition dv_optz (v : dv) : pyres (option Z) := match v with DNone => Ok None | DInt i => Ok (Some i) | _ => Err OtherError end.
Definition dv_optb (v : dv) : pyres (option bool) := match v with DNone => Ok None | DBool b => Ok (Some b) | _ => Err OtherError end.
Definition mk_atom_token (ty el iso mp chg h st : dv) : pyres token :=
  match ty, el, chg, h with
  | DInt t, DStr e, DInt c, DInt hh =>
      match dv_optz iso, dv_optz mp, dv_optb st with
      | Ok i, Ok m, Ok s => Ok (t, PAtom (mkAt (string_of_list_ascii e) i m c (Some hh) s))
      | _, _, _ => Err OtherError
      end
  | _, _, _, _ => Err OtherError
  end.
