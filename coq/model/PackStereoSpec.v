(* C10: the invariant of the cis/trans registry (stereogenic_cumulenes after fix 2e29c31: an end atom of a registered
   double-bond chain carries no other double bond and at most three non-special neighbours, inner atoms of a chain have
   exactly two neighbours): registered paths never share an atom.  Stated on the path list, which is the input of
   Model.PackStereo; evaluated on every correspondence input. *)
From Coq Require Import ZArith List Bool.
From Model Require Import PyBase Pack PackSpec PackStereo.
Import ListNotations.
Open Scope Z_scope.

(* an active path (even length): its four dict keys path[0], path[-1], path[i], path[i-1], its ends, its central pair *)
Definition tinfo (p : list Z) : option (list Z * (Z * Z) * (Z * Z)) :=
  if Nat.even (length p) then
    match path_ends p, path_mid p with
    | Some e, Some c => Some ([fst e; snd e; snd c; fst c], e, c)
    | _, _ => None
    end
  else None.

Definition keys_apart (p q : list Z) : bool :=
  match tinfo p, tinfo q with
  | Some (ks, _, _), Some (ks', _, _) => forallb (fun k => negb (zmem k ks')) ks
  | _, _ => true
  end.

Fixpoint paths_disjoint_b (paths : list (list Z)) : bool :=
  match paths with
  | [] => true
  | p :: r => forallb (keys_apart p) r && paths_disjoint_b r
  end.

(* every labelled bond is the central bond of a registered path *)
Definition labelled_registered_b (atoms : list patom) (paths : list (list Z)) : bool :=
  forallb (fun nx => match nb_st (snd nx) with
                     | None => true
                     | Some _ => existsb (fun p => match tinfo p with
                                                   | Some (_, _, c) => bond_hit (fst c) (snd c) (fst nx) (nb_m (snd nx))
                                                   | None => false
                                                   end) paths
                     end) (mol_fwd [] atoms).

(* an instance: F/C(Cl)=C=C=C(/F)Cl -- one 4-atom path, the label on the central bond 3=4 *)
Definition cumulene_atoms : list patom :=
  [mkPAtom 1 9 None None (Some 0) 0 false [0; 0; 0; 0] [(2, (1, None))];
   mkPAtom 2 6 None None (Some 0) 0 false [0; 0; 0; 0] [(1, (1, None)); (3, (1, None)); (4, (2, None))];
   mkPAtom 3 17 None None (Some 0) 0 false [0; 0; 0; 0] [(2, (1, None))];
   mkPAtom 4 6 None None (Some 0) 0 false [0; 0; 0; 0] [(2, (2, None)); (5, (2, Some true))];
   mkPAtom 5 6 None None (Some 0) 0 false [0; 0; 0; 0] [(4, (2, Some true)); (6, (2, None))];
   mkPAtom 6 6 None None (Some 0) 0 false [0; 0; 0; 0] [(5, (2, None)); (7, (1, None)); (8, (1, None))];
   mkPAtom 7 9 None None (Some 0) 0 false [0; 0; 0; 0] [(6, (1, None))];
   mkPAtom 8 17 None None (Some 0) 0 false [0; 0; 0; 0] [(6, (1, None))]].
Definition cumulene_paths : list (list Z) := [[2; 4; 5; 6]].
