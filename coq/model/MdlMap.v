(* C11 -- between the parsed dict and the container: chython/files/_mapping.py postprocess_parsed_molecule (which atom numbers the
   atoms get) and the structural part of chython/files/_convert.py create_molecule (atoms keyed by these numbers in order, bonds
   re-addressed through the mapping, with its checks).  The construction of the atom object itself (Element.from_symbol(...)(DOUBLESTAR atom):
   isotope / charge validation against the periodic table) is a parameter `mk`. *)
From Coq Require Import ZArith List String Ascii Bool Lia.
From Model Require Import PyBase Mdl.
Import ListNotations.
Open Scope Z_scope.
Local Notation length := List.length.

(* postprocess_parsed_molecule(data, remap, ignore): atom.get('parsed_mapping') per atom (None when the key is absent);
   result: data['mapping'] and the number of log entries added *)
Definition map_val (m : option Z) : Z := match m with Some v => v | None => 0 end.       (* `x.get('parsed_mapping') or 0` *)
Record ppstate := mk_pp { pp_next : Z; pp_used : list Z; pp_out : list Z; pp_log : nat }.
Definition pp_step (ignore : bool) (st : ppstate) (m : option Z) : pyres ppstate :=
  let v := map_val m in
  if v =? 0 then Ok (mk_pp (pp_next st + 1) (pp_used st) (pp_out st ++ [pp_next st]) (pp_log st))
  else if zmem v (pp_used st) then
    (if ignore then Ok (mk_pp (pp_next st + 1) (pp_used st) (pp_out st ++ [pp_next st]) (S (pp_log st))) else Err ValueError)   (* MappingError *)
  else Ok (mk_pp (pp_next st) (v :: pp_used st) (pp_out st ++ [v]) (pp_log st)).
Definition pp_mapping (remap ignore : bool) (ms : list (option Z)) : pyres (list Z * nat) :=
  if remap then Ok (zrange_from 1 (length ms), 0%nat)
  else match map map_val ms with
       | [] => Err ValueError                                       (* max() of an empty sequence *)
       | v :: r =>
         do st <- foldM (pp_step ignore) ms (mk_pp (fold_left Z.max r v + 1) [] [] 0%nat);
         Ok (pp_out st, pp_log st)
       end.

(* Python list indexing with a possibly negative index *)
Definition py_index {X} (l : list X) (i : Z) : pyres X :=
  let n := Z.of_nat (length l) in
  let k := if i <? 0 then n + i else i in
  if (k <? 0) || (n <=? k) then Err IndexError else of_opt IndexError (nth_error l (Z.to_nat k)).

Section Create.
  Variable X : Type.
  Variable mk : patom -> pyres X.

  (* atoms[n] = e(DOUBLESTAR atom): a dict assignment (an existing key keeps its place) *)
  Fixpoint dset (d : list (Z * X)) (k : Z) (v : X) : list (Z * X) :=
    match d with
    | [] => [(k, v)]
    | (k', v') :: r => if k =? k' then (k', v) :: r else (k', v') :: dset r k v
    end.
  Fixpoint build_atoms (mapping : list Z) (atoms : list patom) (d : list (Z * X)) : pyres (list (Z * X)) :=
    match mapping, atoms with
    | n :: mr, a :: ar => do x <- mk a; build_atoms mr ar (dset d n x)
    | _, _ => Ok d                                                   (* zip: the shorter one wins *)
    end.
  Definition bonded (bs : list (Z * Z * Z)) (n m : Z) : bool :=
    existsb (fun b => let '(a, c, _) := b in ((a =? n) && (c =? m)) || ((a =? m) && (c =? n))) bs.
  Definition bond_step (mapping : list Z) (d : list (Z * X)) (bs : list (Z * Z * Z)) (b : Z * Z * Z) : pyres (list (Z * Z * Z)) :=
    let '(i, j, o) := b in
    do n <- py_index mapping i; do m <- py_index mapping j;
    if n =? m then Err ValueError                                    (* atom loops impossible *)
    else if negb (zmem n (map fst d)) || negb (zmem m (map fst d)) then Err KeyError      (* AtomNotFound *)
    else if bonded bs n m then Err ValueError                        (* atoms already bonded *)
    else Ok (bs ++ [(n, m, o)]).
  (* the atoms in dict order with their numbers, the bonds in creation order with the atom NUMBERS of their ends *)
  Definition create_graph (mapping : list Z) (atoms : list patom) (bonds : list (Z * Z * Z)) : pyres (list (Z * X) * list (Z * Z * Z)) :=
    do d <- build_atoms mapping atoms [];
    do bs <- foldM (bond_step mapping d) bonds [];
    Ok (d, bs).
End Create.

(* postprocess + create on a parse result *)
Definition read_graph {X} (mk : patom -> pyres X) (remap ignore : bool) (p : parsed) : pyres (list (Z * X) * list (Z * Z * Z)) :=
  do mp <- pp_mapping remap ignore (map (fun a => Some (pa_map a)) (p_atoms p));
  create_graph X mk (fst mp) (p_atoms p) (p_bonds p).
