(* C19 round 4: cached values taken as WORKING VARIABLES.

   A cached_property value lives in the instance __dict__; every reader gets the SAME object.  MoleculeStereo._chiral_morgan
   (chython/algorithms/stereo.py) starts the stereo-aware ranking from the cached atoms_order:

        morgan = self.atoms_order.copy()
        while True:
            morgan, ... = self.__differentiation(morgan, ...)     # returns the SAME object when it found nothing to update,
                                                                  # a new dict ({**morgan, **update} through _morgan) otherwise
            if no groups left: break
            for group in ...: for n in group[:len(group) // 2]: morgan[n] = -morgan[n]      # IN PLACE
            morgan = _morgan(morgan, self.int_adjacency)          # a new dict
        return morgan

   The model below is the memo model of Model.Determinism with such `derived` bodies: a body reads another (plain) cached
   attribute, binds it to its working variable either through .copy() or directly, and then runs steps that either update the
   object the variable is bound to IN PLACE or REBIND the variable to a new object (or leave it alone: `keeps`).  As long as the
   variable is still bound to the cache entry (`shared`), an in-place step rewrites the cache entry of the SOURCE attribute.
   Whether _chiral_morgan copies is not written here: it is regenerated from the source (Gen.CacheAlias.chiral_morgan_start). *)
From Coq Require Import ZArith List Bool.
From Model Require Import Determinism.
Import ListNotations.
Open Scope list_scope.

Section Alias.
  Context {S K V : Type}.
  Variable keqb : K -> K -> bool.
  Variable base : K -> S -> V.          (* body of a plain cached attribute *)

  Inductive step :=
  | InPlace (f : S -> V -> V)                             (* w[n] = ... : the object is updated *)
  | Rebind (keeps : S -> V -> bool) (f : S -> V -> V).    (* w = g(w): the same object when `keeps`, else a new one *)

  Record derived := mkDerived { d_src : K; d_copied : bool; d_steps : list step }.
  Variable spec : K -> option derived.          (* None: a plain attribute *)

  (* what the step list computes (no sharing involved) *)
  Fixpoint steps_value (s : S) (w : V) (st : list step) : V :=
    match st with
    | [] => w
    | InPlace f :: r => steps_value s (f s w) r
    | Rebind keeps f :: r => steps_value s (if keeps s w then w else f s w) r
    end.

  (* the same with sharing: `entry` is the content of the object stored in the cache under the source key; returns
     (value of the working variable at the end, content of the cache entry of the source at the end) *)
  Fixpoint steps_shared (s : S) (w : V) (shared : bool) (entry : V) (st : list step) : V * V :=
    match st with
    | [] => (w, entry)
    | InPlace f :: r => let w' := f s w in steps_shared s w' shared (if shared then w' else entry) r
    | Rebind keeps f :: r => if keeps s w then steps_shared s w shared entry r else steps_shared s (f s w) false entry r
    end.

  (* the object stored under k now has content v *)
  Definition cset (c : list (K * V)) (k : K) (v : V) : list (K * V) :=
    map (fun kv => if keqb k (fst kv) then (fst kv, v) else kv) c.

  Definition aread (s : S) (c : list (K * V)) (k : K) : V * list (K * V) :=
    match clookup keqb c k with
    | Some v => (v, c)
    | None =>
        match spec k with
        | None => let v := base k s in (v, (k, v) :: c)
        | Some d =>
            let '(v0, c1) := read keqb base s c (d_src d) in          (* self.<src>: cached read *)
            let '(r, e) := steps_shared s v0 (negb (d_copied d)) v0 (d_steps d) in
            (r, (k, r) :: cset c1 (d_src d) e)
        end
    end.

  (* what an uncached evaluation (a cache-free copy) returns *)
  Definition aderive (k : K) (s : S) : V :=
    match spec k with
    | None => base k s
    | Some d => steps_value s (base (d_src d) s) (d_steps d)
    end.

  Inductive aop := ARead (k : K) | AMutate (f : S -> S) | AFlush.

  Fixpoint run_alias (s : S) (c : list (K * V)) (ops : list aop) : list V :=
    match ops with
    | [] => []
    | ARead k :: r => let '(v, c') := aread s c k in v :: run_alias s c' r
    | AMutate f :: r => run_alias (f s) [] r
    | AFlush :: r => run_alias s [] r
    end.

  Fixpoint run_alias_uncached (s : S) (ops : list aop) : list V :=
    match ops with
    | [] => []
    | ARead k :: r => aderive k s :: run_alias_uncached s r
    | AMutate f :: r => run_alias_uncached (f s) r
    | AFlush :: r => run_alias_uncached s r
    end.

  Definition acache_ok (s : S) (c : list (K * V)) : Prop := forall k v, clookup keqb c k = Some v -> v = aderive k s.
End Alias.
Arguments InPlace {S V} f.
Arguments Rebind {S V} keeps f.
Arguments mkDerived {S K V} d_src d_copied d_steps.
Arguments ARead {S K} k.
Arguments AMutate {S K} f.
Arguments AFlush {S K}.

(* ---- the instance: _chiral_morgan over string keys, start mode from the generated table ---- *)
From Coq Require Import String.
Open Scope string_scope.
Definition chiral_key : string := "_chiral_morgan".
(* spec of the attribute table: _chiral_morgan is derived from <start attribute> (copied or not: `start`), everything else is plain *)
Definition chiral_spec {S V : Type} (start : string * bool) (steps : list (@step S V)) (k : string) : option (@derived S string V) :=
  if String.eqb k chiral_key then Some (mkDerived (fst start) (snd start) steps) else None.
Close Scope string_scope.

(* the in-place step of the source: the three loops `for group in <groups>: for n in group[:len(group) // 2]: morgan[n] = -morgan[n]`,
   i.e. the ranks of the listed atoms negated one after the other, on a dict of ranks (insertion order kept) *)
Open Scope Z_scope.
Definition negate_one (w : list (Z * Z)) (n : Z) : list (Z * Z) := map (fun kv : Z * Z => if fst kv =? n then (fst kv, - snd kv) else kv) w.
Definition negate_seq (ns : list Z) (w : list (Z * Z)) : list (Z * Z) := fold_left negate_one ns w.
Definition half {X : Type} (group : list X) : list X := firstn (Nat.div (List.length group) 2) group.
Definition halves {X : Type} (groups : list (list X)) : list X := flat_map half groups.
Close Scope Z_scope.
