(* C20 -- the meaning given to the Python / RDKit / chython API forms that occur in the bodies of to_rdkit_molecule and
   from_rdkit_molecule (chython/utils/rdkit.py).  tools/gen_rdkit_body.py translates those bodies statement by statement into
   Gallina over the primitives defined HERE (Gen.RdkitBody); Proofs.RdkitBodyTie proves the hand-written model functions of
   Model.Rdkit equal to the translated bodies.  So this file is the whole trusted reading of the API:
     - RDKit Atom / Bond objects are records of the properties that were set (record semantics);
     - SetNumExplicitHs(None) raises a TypeError (Boost.Python.ArgumentError), a negative count an OverflowError;
     - `d[k]` on a dict raises KeyError for a missing key; `d.get(k)` gives None;
     - Element.__init__ validates the isotope and then the charge (ValueError);
     - MoleculeStereo._translate_tetrahedron_sign / _translate_cis_trans_sign are Model.Stereo.translate_th / translate_ct after
       their registry look-ups (KeyError for a missing key). *)
From Coq Require Import ZArith List String Bool.
From Model Require Import PyBase PeriodicTable Stereo Rdkit.
From Gen Require Import Elements RdkitTables RdkitConsts.
Import ListNotations.
Open Scope Z_scope.

Definition pbind {A B : Type} (x : pyres A) (f : A -> pyres B) : pyres B :=
  match x with Ok a => f a | Err e => Err e end.

(* ---- Python values ---- *)
Definition optz_truthy (o : option Z) : bool := match o with Some v => negb (v =? 0) | None => false end.   (* `if a.isotope:` *)
Definition optb_truthy (o : option bool) : bool := match o with Some v => v | None => false end.             (* `x if b.stereo else y` *)
Definition is_none {A : Type} (o : option A) : bool := match o with None => true | Some _ => false end.      (* `x is None` *)
Definition py_is_empty {A : Type} (l : list A) : bool := match l with [] => true | _ => false end.                (* `not l` *)
Definition py_or_none (v : Z) : option Z := if v =? 0 then None else Some v.                                  (* `v or None` *)
Definition in_optpair (x : Z) (p : option (Z * Z)) : bool :=                                                 (* `x in nm`, nm a 2-tuple *)
  match p with Some (a, b) => (x =? a) || (x =? b) | None => false end.
(* try: <E> / except KeyError: pass *)
Definition py_except_keyerror {A : Type} (x : pyres A) : pyres (option A) :=
  match x with Ok v => Ok (Some v) | Err KeyError => Ok None | Err e => Err e end.

(* ---- dict look-ups ---- *)
Definition py_getitem_zs (d : list (Z * string)) (k : Z) : pyres string :=          (* _bond_map[k] *)
  match zget_last d k with Some v => Ok v | None => Err KeyError end.
Definition py_getitem_sz (d : list (string * Z)) (k : string) : pyres Z :=          (* _rdkit_bond_map[k] *)
  match sget_last d k with Some v => Ok v | None => Err KeyError end.
Definition ctenv := (Z * Z * option Z * option Z)%type.
Definition py_getitem_ct (ct : list (Z * Z * ctenv)) (k : option (Z * Z)) : pyres ctenv :=   (* data.stereogenic_cis_trans[nm] *)
  match k with
  | Some k' => match pget ct k' with Some v => Ok v | None => Err KeyError end
  | None => Err KeyError
  end.

(* ---- RDKit Atom: the properties the bridge sets ---- *)
Definition rd_Atom (z : Z) : ratom := mkR z 0 0 0 0 0.
Definition rd_SetNumExplicitHs (ra : ratom) (h : option Z) : pyres ratom :=
  match h with
  | None => Err TypeError
  | Some h' => if h' <? 0 then Err OtherError else Ok (mkR (r_num ra) (r_iso ra) (r_chg ra) (r_nrad ra) h' (r_map ra))
  end.
Definition rd_SetAtomMapNum (ra : ratom) (n : Z) : pyres ratom := Ok (mkR (r_num ra) (r_iso ra) (r_chg ra) (r_nrad ra) (r_exph ra) n).
Definition rd_SetFormalCharge (ra : ratom) (c : Z) : pyres ratom := Ok (mkR (r_num ra) (r_iso ra) c (r_nrad ra) (r_exph ra) (r_map ra)).
Definition rd_SetIsotope (ra : ratom) (i : option Z) : pyres ratom :=
  match i with
  | None => Err TypeError
  | Some i' => Ok (mkR (r_num ra) i' (r_chg ra) (r_nrad ra) (r_exph ra) (r_map ra))
  end.
Definition rd_SetNumRadicalElectrons (ra : ratom) (k : Z) : pyres ratom := Ok (mkR (r_num ra) (r_iso ra) (r_chg ra) k (r_exph ra) (r_map ra)).

(* handles on atoms / bonds of the RWMol under construction: what the loop body sets on them (None = left untouched) *)
Definition rd_GetAtomWithIdx (i : Z) : option string := None.                                     (* chiral tag set *)
Definition rd_SetChiralTag (h : option string) (t : string) : pyres (option string) := Ok (Some t).
Definition rbh := (option (Z * Z) * option string)%type.                                          (* stereo atoms, stereo label *)
Definition rd_GetBondBetweenAtoms (i j : Z) : rbh := (None, None).
Definition rd_SetStereoAtoms (h : rbh) (i j : Z) : pyres rbh := Ok (Some (i, j), snd h).
Definition rd_SetStereo (h : rbh) (l : string) : pyres rbh := Ok (fst h, Some l).

(* ---- chython ---- *)
(* Element.from_symbol(sym): ValueError for an unknown symbol *)
Definition py_from_symbol (sym : string) : pyres elem :=
  match from_symbol sym with Some e => Ok e | None => Err ValueError end.
(* e(isotope, charge=, is_radical=, parsed_mapping=, implicit_hydrogens=): Element.__init__ (isotope setter, then charge setter);
   the coordinates [x], [y] are assigned afterwards from the first conformer *)
Definition py_Element (x y : Z) (e : elem) (iso : option Z) (chg : Z) (rad : bool) (mp : Z) (hyd : Z) : pyres catom :=
  if match iso with Some i => negb (isotope_accepted e i) | None => false end then Err ValueError
  else if (charge_max <? chg) || (chg <? charge_min) then Err ValueError
  else Ok (mkC (e_num e) iso chg rad (Some hyd) (Some mp) x y).

(* data._translate_tetrahedron_sign(n, env) with s = None: the label of the atom itself, KeyError without one *)
Definition py_translate_th_self (isH : Z -> bool) (th : list (Z * list Z)) (label : option bool) (n : Z) (env : list Z) : pyres bool :=
  match label with
  | None => Err KeyError
  | Some s => match zget th n with
              | None => Err KeyError                               (* self.stereogenic_tetrahedrons[n] *)
              | Some o => translate_th isH o env s
              end
  end.
(* mol._translate_tetrahedron_sign(n, env, s) *)
Definition py_translate_th (isH : Z -> bool) (th : list (Z * list Z)) (n : Z) (env : list Z) (s : bool) : pyres bool :=
  match zget th n with
  | None => Err KeyError
  | Some o => translate_th isH o env s
  end.
(* mol._translate_cis_trans_sign(n, m, nn, nm, s): the registry is tried under (n, m), then under (m, n) *)
Definition py_translate_ct (isH : Z -> bool) (ct : list (Z * Z * ctenv)) (n m nn nm : Z) (s : bool) : pyres bool :=
  translate_ct isH (pget ct (n, m)) (pget ct (m, n)) nn nm s.

(* ---- forms used by the bodies of _translate_tetrahedron_sign / _translate_cis_trans_sign (tools/gen_rdkit_sign.py) ---- *)
Definition py_not (o : option bool) : bool := negb (optb_truthy o).                           (* `not s`, s : Optional[bool] *)
Definition optz_eq (o : option Z) (x : Z) : bool := match o with Some y => x =? y | None => false end.   (* `x == n3`, n3 : Optional[int] *)
Definition py_getitem_zl (d : list (Z * list Z)) (k : Z) : pyres (list Z) :=                   (* self.stereogenic_tetrahedrons[n] *)
  match zget d k with Some v => Ok v | None => Err KeyError end.
Definition py_getitem_zp (d : list (Z * (Z * Z))) (k : Z) : pyres (Z * Z) :=                   (* self._stereo_cis_trans_centers[n] *)
  match zget d k with Some v => Ok v | None => Err KeyError end.
Definition py_next (l : list Z) : pyres Z := match l with x :: _ => Ok x | [] => Err StopIteration end.   (* next(generator) *)
Definition py_index (l : list Z) (x : Z) : pyres Z :=                                          (* l.index(x) *)
  match index_of l x with Some i => Ok i | None => Err ValueError end.
Definition py_getitem_th3 (key : list Z) : pyres bool :=                                       (* _tetrahedron_translate[key] *)
  match key with
  | [a; b; c] => match th_lookup a b c with Some v => Ok v | None => Err KeyError end
  | _ => Err KeyError
  end.
Definition py_getitem_al (t0 t1 : Z) : pyres bool :=                                           (* _alkene_translate[(t0, t1)] *)
  match ct_lookup t0 t1 with Some v => Ok v | None => Err KeyError end.
