(* C14 -- standardize_charges (chython/algorithms/standardize/molecule.py): the state of its two rule loops and the
   primitives the statements of the loop bodies are translated to (tools/gen_c14charges.py emits Gen.C14Charges over
   exactly these names; Model.StandardizeCharges is the hand-written model over the same names).

     atoms / bonds           the molecule (cs_mol)                  seen      Python set, duplicate-free list (cs_seen)
     changed                 list of atom numbers (cs_changed)      pairs     list of (atom_1, atom_2, fix) (cs_pairs)
     mapping                 pattern atom -> molecule atom, what q.get_mapping(self, automorphism_filter=False) yields

   A missing key of `mapping` is Err KeyError, as in Python; `bonds[n]` / `atoms[n]` of an atom the matcher returned
   always exist (no exception modelled there: degree 0 / `implicit_hydrogens` falsy for a missing atom). *)
From Coq Require Import ZArith List Bool.
From Model Require Import PyBase Graph Standardize.
Import ListNotations.
Open Scope Z_scope.

Record cstate := mkCS { cs_mol : mol; cs_seen : list Z; cs_changed : list Z; cs_pairs : list (Z * Z * bool) }.

(* set(mapping.values()) *)
Fixpoint dedup (l : list Z) : list Z :=
  match l with [] => [] | x :: r => if zmem x r then dedup r else x :: dedup r end.
Definition match_set (mp : mapping) : list Z := dedup (values mp).
(* len(a.intersection(b)) for duplicate-free a *)
Definition inter_count (a b : list Z) : Z := Z.of_nat (List.length (filter (fun x => zmem x b) a)).
(* seen.update(match) *)
Definition seen_update (seen mt : list Z) : list Z := union_set seen mt.
(* len(bonds[n]) *)
Definition deg (g : mol) (n : Z) : Z := Z.of_nat (List.length (nbrs g n)).
(* not atoms[n].implicit_hydrogens   (None and 0 are falsy) *)
Definition h_falsy (g : mol) (n : Z) : bool :=
  match atom_of g n with Some a => match a_h a with Some h => h =? 0 | None => true end | None => true end.
(* all(x == o for x in bonds[n].values()) *)
Definition all_orders (g : mol) (n o : Z) : bool := forallb (fun mb => b_ord (snd mb) =? o) (nbrs g n).
(* atoms[n]._charge = c *)
Definition set_charge (g : mol) (n c : Z) : mol := upd_atom g n (set_chg c).
