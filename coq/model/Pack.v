(* Model of the binary pack format (C10): chython/containers/_pack_v2.pyx (pack), _unpack_v0v2.pyx (unpack, versions
   2 and 0), MoleculeContainer.pack_len and ReactionContainer.pack / unpack / pack_len.
   C semantics are explicit: every store into an `unsigned char` cell is taken mod 256, `unsigned short` mod 65536.
   Coordinates enter as the four bytes that double_to_float16 produced (modelled separately in Model.F16). *)
From Coq Require Import ZArith List Bool.
From Model Require Import PyBase.
From Gen Require Import Elements.
Import ListNotations.
Open Scope Z_scope.

Definition u8 (x : Z) : Z := x mod 256.
Definition u16 (x : Z) : Z := x mod 65536.

(* ---------- what pack reads from a molecule ---------- *)
Record patom := mkPAtom {
  pa_n : Z;                                  (* atom number (dict key) *)
  pa_an : Z;                                 (* atomic_number *)
  pa_iso : option Z;                         (* _isotope *)
  pa_stereo : option bool;                   (* _stereo *)
  pa_h : option Z;                           (* _implicit_hydrogens *)
  pa_chg : Z;                                (* _charge *)
  pa_rad : bool;                             (* _is_radical *)
  pa_xy : list Z;                            (* 4 bytes: float16 of x, float16 of y (big endian) *)
  pa_nbrs : list (Z * (Z * option bool))     (* _bonds[n] in dict order: neighbour, (order, bond stereo) *)
}.

Record pmol := mkPMol {
  pm_atoms : list patom;                     (* _atoms in dict order *)
  pm_ct_count : Z;                           (* _cis_trans_count *)
  pm_terminals : list (Z * (Z * Z))          (* _stereo_cis_trans_terminals *)
}.

(* ---------- pack ---------- *)
Definition stereo_bits (st : option bool) (ngb : Z) : Z :=
  match st with
  | None => 0
  | Some true => if ngb =? 2 then 48 else 192       (* 0x30 allene / 0xc0 tetrahedron *)
  | Some false => if ngb =? 2 then 32 else 128      (* 0x20 / 0x80 *)
  end.

Definition iso_field (an : Z) (iso : option Z) : Z :=
  match iso with
  | None => 0
  | Some i => u8 (i - znth pack_common_isotopes an 0)
  end.

Definition hcr_field (h : option Z) (chg : Z) (rad : bool) : Z :=
  let hcr := match h with None => 224 | Some v => u8 (Z.shiftl (u8 v) 5) end in
  let hcr := u8 (Z.lor hcr (Z.shiftl (chg + 4) 1)) in
  if rad then u8 (Z.lor hcr 1) else hcr.

Definition atom_bytes (a : patom) : list Z :=
  let n := u16 (pa_n a) in
  let ngb := u8 (Z.of_nat (length (pa_nbrs a))) in
  let iso := iso_field (pa_an a) (pa_iso a) in
  let an := u8 (pa_an a) in
  [u8 (Z.shiftr n 4); u8 (Z.lor (Z.shiftl n 4) ngb);
   u8 (Z.lor (stereo_bits (pa_stereo a) ngb) (Z.shiftr iso 1)); u8 (Z.lor (Z.shiftl iso 7) an)]
  ++ pa_xy a ++ [hcr_field (pa_h a) (pa_chg a) (pa_rad a)].

(* connection table: 12-bit numbers, two per 3 bytes; state = (b flag, buffer_b) *)
Definition conn_step (st : bool * Z) (m : Z) : (bool * Z) * list Z :=
  let '(b, buf) := st in
  let m := u16 m in
  if b then ((false, u8 (Z.shiftl m 4)), [u8 (Z.shiftr m 4)])
  else ((true, buf), [u8 (Z.lor buf (Z.shiftr m 8)); u8 m]).

(* bond orders: 3 bits each, the 8-state machine of the .pyx; state = (s, buffer_o) *)
Definition order_step (st : Z * Z) (bond : Z) : (Z * Z) * list Z :=
  let '(s, buf) := st in
  if s =? 0 then ((1, u8 (Z.shiftl bond 5)), [])
  else if s =? 1 then ((2, u8 (Z.lor buf (Z.shiftl bond 2))), [])
  else if s =? 2 then ((3, u8 (Z.shiftl bond 7)), [u8 (Z.lor buf (Z.shiftr bond 1))])
  else if s =? 3 then ((4, u8 (Z.lor buf (Z.shiftl bond 4))), [])
  else if s =? 4 then ((5, u8 (Z.lor buf (Z.shiftl bond 1))), [])
  else if s =? 5 then ((6, u8 (Z.shiftl bond 6)), [u8 (Z.lor buf (Z.shiftr bond 2))])
  else if s =? 6 then ((7, u8 (Z.lor buf (Z.shiftl bond 3))), [])
  else ((0, buf), [u8 (Z.lor buf bond)]).

Record pstate := mkPState {
  ps_seen : list Z;          (* atoms already visited *)
  ps_conn : bool * Z;        (* b, buffer_b *)
  ps_ord : Z * Z;            (* s, buffer_o *)
  ps_atoms : list Z;         (* byte streams, in order *)
  ps_cbytes : list Z;
  ps_obytes : list Z;
  ps_tbytes : list Z
}.

Definition ct_bytes (terminals : list (Z * (Z * Z))) (n : Z) (v : bool) : pyres (list Z) :=
  match zget terminals n with
  | None => Err KeyError
  | Some (tn, tm) =>
      let tn := u16 tn in let tm := u16 tm in
      Ok [u8 (Z.shiftr tn 4); u8 (Z.lor (Z.shiftl tn 4) (Z.shiftr tm 8)); u8 tm; if v then 1 else 0]
  end.

Fixpoint pack_nbrs (terminals : list (Z * (Z * Z))) (n : Z) (nb : list (Z * (Z * option bool))) (st : pstate)
  : pyres pstate :=
  match nb with
  | [] => Ok st
  | (m, (ord, bst)) :: rest =>
      let '(cst, cb) := conn_step (ps_conn st) m in
      let st1 := mkPState (ps_seen st) cst (ps_ord st) (ps_atoms st) (ps_cbytes st ++ cb) (ps_obytes st) (ps_tbytes st) in
      if zmem (u16 m) (ps_seen st) then pack_nbrs terminals n rest st1
      else
        let '(ost, ob) := order_step (ps_ord st1) (u8 (ord - 1)) in
        let st2 := mkPState (ps_seen st1) (ps_conn st1) ost (ps_atoms st1) (ps_cbytes st1) (ps_obytes st1 ++ ob) (ps_tbytes st1) in
        match bst with
        | None => pack_nbrs terminals n rest st2
        | Some v =>
            match ct_bytes terminals n v with
            | Err e => Err e
            | Ok tb => pack_nbrs terminals n rest
                         (mkPState (ps_seen st2) (ps_conn st2) (ps_ord st2) (ps_atoms st2) (ps_cbytes st2) (ps_obytes st2)
                                   (ps_tbytes st2 ++ tb))
            end
        end
  end.

Fixpoint pack_atoms (terminals : list (Z * (Z * Z))) (atoms : list patom) (st : pstate) : pyres pstate :=
  match atoms with
  | [] => Ok st
  | a :: rest =>
      let st1 := mkPState (u16 (pa_n a) :: ps_seen st) (ps_conn st) (ps_ord st) (ps_atoms st ++ atom_bytes a)
                          (ps_cbytes st) (ps_obytes st) (ps_tbytes st) in
      match pack_nbrs terminals (pa_n a) (pa_nbrs a) st1 with
      | Err e => Err e
      | Ok st2 => pack_atoms terminals rest st2
      end
  end.

Definition bonds_count (m : pmol) : Z :=
  u16 (fold_left (fun acc a => u16 (acc + Z.of_nat (length (pa_nbrs a)))) (pm_atoms m) 0) / 2.

Definition header_bytes (ac ct : Z) : list Z :=
  [2; u8 (Z.shiftr ac 4); u8 (Z.lor (Z.shiftl ac 4) (Z.shiftr ct 8)); u8 ct].

Definition order_block_size (bonds : Z) : Z :=
  let s := bonds * 3 in if s mod 8 =? 0 then s / 8 else s / 8 + 1.

Definition pack_size (m : pmol) : Z :=
  let ac := u16 (Z.of_nat (length (pm_atoms m))) in
  let bc := bonds_count m in
  4 + 9 * ac + 3 * bc + order_block_size bc + 4 * u16 (pm_ct_count m).

Definition pack (m : pmol) : pyres (list Z) :=
  let ac := u16 (Z.of_nat (length (pm_atoms m))) in
  let ct := u16 (pm_ct_count m) in
  match pack_atoms (pm_terminals m) (pm_atoms m) (mkPState [] (true, 0) (0, 0) [] [] [] []) with
  | Err e => Err e
  | Ok st =>
      let flush := if fst (ps_ord st) =? 0 then [] else [snd (ps_ord st)] in
      Ok (header_bytes ac ct ++ ps_atoms st ++ ps_cbytes st ++ ps_obytes st ++ flush ++ ps_tbytes st)
  end.

(* ---------- unpack (version 2 and 0) ---------- *)
Definition getb (data : list Z) (i : Z) : option Z :=
  if i <? 0 then None else nth_error data (Z.to_nat i).

Definition stereo_of_nibble (s : Z) : option bool :=
  if s =? 0 then None else if s =? 2 then Some false else if s =? 3 then Some true
  else if s =? 8 then Some false else Some true.

Record uatom := mkUAtom {
  ua_n : Z; ua_ngb : Z; ua_an : Z; ua_iso : option Z; ua_stereo : option bool; ua_h : option Z;
  ua_chg : Z; ua_rad : bool; ua_xy : list Z
}.

Definition read_atom (data : list Z) (sh : Z) : option uatom :=
  match getb data sh, getb data (sh + 1), getb data (sh + 2), getb data (sh + 3),
        getb data (sh + 4), getb data (sh + 5), getb data (sh + 6), getb data (sh + 7), getb data (sh + 8) with
  | Some a, Some b, Some c, Some d, Some x0, Some x1, Some y0, Some y1, Some e =>
      let n := u16 (Z.lor (Z.shiftl a 4) (Z.shiftr b 4)) in
      let ngb := Z.land b 15 in
      let an := Z.land d 127 in
      let iso := u8 (Z.lor (Z.shiftl (Z.land c 15) 1) (Z.shiftr d 7)) in
      let h := Z.shiftr e 5 in
      Some (mkUAtom n ngb an
              (if iso =? 0 then None else Some (znth unpack_common_isotopes an 0 + iso))
              (stereo_of_nibble (Z.shiftr c 4))
              (if h =? 7 then None else Some h)
              (Z.land (Z.shiftr e 1) 15 - 4)
              (negb (Z.land e 1 =? 0))
              [x0; x1; y0; y1])
  | _, _, _, _, _, _, _, _, _ => None
  end.

Fixpoint read_atoms (data : list Z) (count : nat) (sh : Z) : option (list uatom) :=
  match count with
  | O => Some []
  | S k => match read_atom data sh with
           | None => None
           | Some a => match read_atoms data k (sh + 9) with
                       | None => None
                       | Some r => Some (a :: r)
                       end
           end
  end.

(* connection table: pairs of 12-bit numbers *)
Fixpoint read_conns (data : list Z) (pairs : nat) (sh : Z) : option (list Z) :=
  match pairs with
  | O => Some []
  | S k => match getb data sh, getb data (sh + 1), getb data (sh + 2) with
           | Some a, Some b, Some c =>
               match read_conns data k (sh + 3) with
               | None => None
               | Some r => Some (u16 (Z.lor (Z.shiftl a 4) (Z.shiftr b 4)) :: u16 (Z.lor (Z.shiftl (Z.land b 15) 8) c) :: r)
               end
           | _, _, _ => None
           end
  end.

(* version 2 order block: 3-state reader; state = (s, buffer_b) *)
Definition order_read_step (st : Z * Z) (a : Z) : (Z * Z) * list Z :=
  let '(s, buf) := st in
  if s =? 1 then ((2, u16 (Z.shiftl (Z.land a 1) 2)),
                  [u8 (Z.lor buf (Z.shiftr a 7)); Z.land (Z.shiftr a 4) 7; Z.land (Z.shiftr a 1) 7])
  else if s =? 2 then ((0, buf), [u8 (Z.lor buf (Z.shiftr a 6)); Z.land (Z.shiftr a 3) 7; Z.land a 7])
  else ((1, u16 (Z.shiftl (Z.land a 3) 1)), [Z.shiftr a 5; Z.land (Z.shiftr a 2) 7]).

Fixpoint read_orders_v2 (bytes : list Z) (st : Z * Z) : list Z :=
  match bytes with
  | [] => []
  | a :: r => let '(st', out) := order_read_step st a in out ++ read_orders_v2 r st'
  end.

(* version 0: 5 orders per 2 bytes *)
Fixpoint read_orders_v0 (bytes : list Z) : option (list Z) :=
  match bytes with
  | [] => Some []
  | a :: b :: r =>
      match read_orders_v0 r with
      | None => None
      | Some t => Some (Z.shiftr a 4 :: Z.land (Z.shiftr a 1) 7 :: u8 (Z.lor (Z.shiftl (Z.land a 1) 2) (Z.shiftr b 6))
                          :: Z.land (Z.shiftr b 3) 7 :: Z.land b 7 :: t)
      end
  | [_] => None
  end.

Fixpoint slice (data : list Z) (start : Z) (n : nat) : option (list Z) :=
  match n with
  | O => Some []
  | S k => match getb data start with
           | None => None
           | Some x => match slice data (start + 1) k with None => None | Some r => Some (x :: r) end
           end
  end.

(* rebuild adjacency: atoms in order, each consumes `ngb` connections; a neighbour already visited means the bond
   exists (back-connection, its order is looked up), else the next order of the flat list is used *)
Definition uadj := list (Z * list (Z * Z)).     (* n -> [(m, order)] in insertion order *)

Fixpoint take_nbrs (n : Z) (count : nat) (conns orders : list Z) (seen : list Z) (adj : uadj)
  : pyres (list (Z * Z) * list Z * list Z) :=
  match count with
  | O => Ok ([], conns, orders)
  | S k =>
      match conns with
      | [] => Err IndexError
      | m :: conns' =>
          if zmem m seen then
            match zget adj m with
            | None => Err KeyError
            | Some ml => match zget ml n with
                         | None => Err KeyError
                         | Some o => match take_nbrs n k conns' orders seen adj with
                                     | Err e => Err e
                                     | Ok (l, c, os) => Ok ((m, o) :: l, c, os)
                                     end
                         end
            end
          else
            match orders with
            | [] => Err IndexError
            | o :: orders' => match take_nbrs n k conns' orders' seen adj with
                              | Err e => Err e
                              | Ok (l, c, os) => Ok ((m, o + 1) :: l, c, os)
                              end
            end
      end
  end.

(* Python dict semantics of `py_ngb[py_m] = ...`: a repeated neighbour overwrites (keeps first position) *)
Fixpoint dict_set {V} (d : list (Z * V)) (k : Z) (v : V) : list (Z * V) :=
  match d with
  | [] => [(k, v)]
  | (k', v') :: r => if k =? k' then (k, v) :: r else (k', v') :: dict_set r k v
  end.
Definition dict_of_pairs {V} (l : list (Z * V)) : list (Z * V) := fold_left (fun d kv => dict_set d (fst kv) (snd kv)) l [].

Fixpoint build_adj (atoms : list uatom) (conns orders : list Z) (seen : list Z) (adj : uadj) : pyres uadj :=
  match atoms with
  | [] => Ok adj
  | a :: rest =>
      let n := ua_n a in
      match take_nbrs n (Z.to_nat (ua_ngb a)) conns orders (n :: seen) adj with
      | Err e => Err e
      | Ok (l, conns', orders') =>
          build_adj rest conns' orders' (n :: seen) (dict_set adj n (dict_of_pairs l))
      end
  end.

Fixpoint read_ct (data : list Z) (count : nat) (sh : Z) : option (list (Z * Z * bool)) :=
  match count with
  | O => Some []
  | S k => match getb data sh, getb data (sh + 1), getb data (sh + 2), getb data (sh + 3) with
           | Some a, Some b, Some c, Some d =>
               match read_ct data k (sh + 4) with
               | None => None
               | Some r => Some ((Z.lor (Z.shiftl a 4) (Z.shiftr b 4), Z.lor (Z.shiftl (Z.land b 15) 8) c, negb (d =? 0)) :: r)
               end
           | _, _, _, _ => None
           end
  end.

Record unpacked := mkUnpacked {
  up_atoms : list uatom;
  up_adj : uadj;
  up_ct : list (Z * Z * bool);
  up_size : Z
}.

(* data[i] out of range is undefined behaviour in C (boundscheck off); the model (and the transpiled code used for the
   correspondence) treat it as an error *)
Definition unpack (data : list Z) : pyres unpacked :=
  match getb data 0, getb data 1, getb data 2, getb data 3 with
  | Some version, Some a, Some b, Some c =>
      let ac := u16 (Z.lor (Z.shiftl a 4) (Z.shiftr b 4)) in
      let ctc := u16 (Z.lor (Z.shiftl (Z.land b 15) 8) c) in
      match read_atoms data (Z.to_nat ac) 4 with
      | None => Err IndexError
      | Some atoms =>
          let atoms_end := 4 + 9 * ac in
          let bc := u16 (fold_left (fun acc x => u16 (acc + ua_ngb x)) atoms 0) / 2 in
          (* order_count and the byte offsets are unsigned int (after the fix: commit; they used to be unsigned short
             and wrapped for more than 21845 bonds / offsets above 65535) *)
          let oc := if version =? 2 then order_block_size bc
                    else 2 * (bc / 5 + (if bc mod 5 =? 0 then 0 else 1)) in
          let order_shift := atoms_end + 3 * bc in
          let ct_shift := oc + order_shift in
          let size := ct_shift + 4 * ctc in
          (* atom dict: a repeated number overwrites the earlier atom but keeps its position; the neighbour-count
             and mapping arrays keep one entry per record *)
          let adj0 : uadj := fold_left (fun d x => dict_set d (ua_n x) []) atoms [] in
          let res_adj :=
            if bc =? 0 then Ok adj0
            else
              match read_conns data (Z.to_nat bc) atoms_end, slice data order_shift (Z.to_nat oc) with
              | Some conns, Some obytes =>
                  let orders := if version =? 2 then Some (read_orders_v2 obytes (0, 0)) else read_orders_v0 obytes in
                  match orders with
                  | None => Err IndexError
                  | Some os => build_adj atoms conns os [] adj0
                  end
              | _, _ => Err IndexError
              end in
          match res_adj with
          | Err e => Err e
          | Ok adj =>
              match read_ct data (Z.to_nat ctc) ct_shift with
              | None => Err IndexError
              | Some ct => Ok (mkUnpacked atoms adj ct size)
              end
          end
      end
  | _, _, _, _ => Err IndexError
  end.

(* MoleculeContainer.pack_len: int.from_bytes(data[1:3], 'big') >> 4, header must be 0 or 2 *)
Definition mol_pack_len (data : list Z) : pyres Z :=
  match getb data 0 with
  | None => Err IndexError
  | Some v =>
      if negb ((v =? 0) || (v =? 2)) then Err ValueError
      else
        (* slicing never raises: missing bytes shorten the slice *)
        let bs := match getb data 1, getb data 2 with
                  | Some a, Some b => a * 256 + b
                  | Some a, None => a
                  | _, _ => 0
                  end in
        Ok (Z.shiftr bs 4)
  end.

(* ---------- reactions ---------- *)
(* ReactionContainer.pack: header 1, three counts, then the molecule packs of reactants, reagents, products.
   bytearray((1, r, a, p)) raises ValueError when a count exceeds 255 *)
Definition rxn_pack (packs_r packs_a packs_p : list (list Z)) : pyres (list Z) :=
  let r := Z.of_nat (length packs_r) in let a := Z.of_nat (length packs_a) in let p := Z.of_nat (length packs_p) in
  if (255 <? r) || (255 <? a) || (255 <? p) then Err ValueError
  else Ok ([1; r; a; p] ++ concat packs_r ++ concat packs_a ++ concat packs_p).

(* Python slicing molecules[i:j] with possibly negative j (as written in the code) *)
Definition py_slice {A} (l : list A) (i j : Z) : list A :=
  let len := Z.of_nat (length l) in
  let norm x := if x <? 0 then Z.max 0 (len + x) else Z.min x len in
  let i' := norm i in let j' := norm j in
  if j' <=? i' then [] else firstn (Z.to_nat (j' - i')) (skipn (Z.to_nat i') l).

Fixpoint rxn_unpack_mols (fuel : nat) (data : list Z) (sh : Z) : pyres (list unpacked) :=
  match fuel with
  | O => Ok []
  | S k =>
      match unpack (skipn (Z.to_nat sh) data) with
      | Err e => Err e
      | Ok u =>
          match rxn_unpack_mols k data (sh + up_size u) with
          | Err e => Err e
          | Ok r => Ok (u :: r)
          end
      end
  end.

(* role split by counts: molecules[:r], molecules[r:r+a], molecules[r+a:]  (the code used molecules[-products:] and
   molecules[reactants:-products] before the fix: commit 8a0848e, wrong when products = 0) *)
Definition rxn_split {A} (mols : list A) (r a p : Z) : list A * list A * list A :=
  let len := Z.of_nat (length mols) in
  (py_slice mols 0 r, py_slice mols r (r + a), py_slice mols (r + a) len).

Definition rxn_unpack (data : list Z) : pyres (list unpacked * list unpacked * list unpacked) :=
  match getb data 0, getb data 1, getb data 2, getb data 3 with
  | Some h, Some r, Some a, Some p =>
      if negb (h =? 1) then Err ValueError
      else match rxn_unpack_mols (Z.to_nat (r + a + p)) data 4 with
           | Err e => Err e
           | Ok mols => Ok (rxn_split mols r a p)
           end
  | Some h, _, _, _ => if negb (h =? 1) then Err ValueError else Err IndexError
  | _, _, _, _ => Err IndexError
  end.

(* ReactionContainer.pack_len: walks the concatenated molecule packs reading only counts.
   int.from_bytes(data[s:s+3]) tolerates short slices (missing bytes shorten the number) *)
Definition be3 (data : list Z) (s : Z) : Z :=
  match getb data s, getb data (s + 1), getb data (s + 2) with
  | Some a, Some b, Some c => (a * 256 + b) * 256 + c
  | Some a, Some b, None => a * 256 + b
  | Some a, None, _ => a
  | _, _, _ => 0
  end.

Fixpoint sum_ngb (data : list Z) (count : nat) (sh : Z) (acc : Z) : pyres (Z * Z) :=
  match count with
  | O => Ok (acc, sh)
  | S k => match getb data sh with
           | None => Err IndexError
           | Some b => sum_ngb data k (sh + 9) (acc + Z.land b 15)
           end
  end.

Fixpoint rxn_len_walk (data : list Z) (v : Z) (count : nat) (sh : Z) : pyres (list Z * Z) :=
  match count with
  | O => Ok ([], sh)
  | S k =>
      let acs := be3 data sh in
      let ac := Z.shiftr acs 12 in
      match sum_ngb data (Z.to_nat ac) (sh + 4) 0 with
      | Err e => Err e
      | Ok (ngb, sh1) =>
          let nb := ngb / 2 in
          let sh2 := if v =? 2 then sh1 + 3 * nb + (nb * 3 + 7) / 8 + Z.land acs 4095 * 4
                     else if v =? 0 then sh1 + 3 * nb + ((nb + 4) / 5) * 2 + Z.land acs 4095 * 4
                     else sh1 in
          match rxn_len_walk data v k sh2 with
          | Err e => Err e
          | Ok (r, shf) => Ok (ac :: r, shf)
          end
      end
  end.

Definition rxn_pack_len (data : list Z) : pyres (list Z * list Z * list Z) :=
  match getb data 0, getb data 1, getb data 2, getb data 3 with
  | Some h, Some r, Some a, Some p =>
      if negb (h =? 1) then Err ValueError
      else match getb data 4 with
           | None => Err IndexError
           | Some v =>
               match rxn_len_walk data v (Z.to_nat (r + a + p - 1)) 5 with
               | Err e => Err e
               | Ok (ms, sh) =>
                   let ms := if (r =? 0) && (a =? 0) && (p =? 0) then ms else ms ++ [Z.shiftr (be3 data sh) 12] in
                   Ok (rxn_split ms r a p)
               end
           end
  | Some h, _, _, _ => if negb (h =? 1) then Err ValueError else Err IndexError
  | _, _, _, _ => Err IndexError
  end.
